"""C10 Instance free-core accounting is exact  (structural clauses).

  R1  closed world: free_cores_mcpu is written only by add_attempt (-), mark_job_complete (+), unschedule_job (+),
      deactivate_instance (reset to cores_mcpu) and the creation insert (= worker cores)
  R2  acquire once: the decrement is dominated by ROW_COUNT() = 1 directly after the idempotent INSERT INTO attempts;
      the amount is the job's own cores_mcpu at every CALL add_attempt site
  R3  release once: each increment is dominated by `cur_end_time IS NULL` where cur_end_time was read FOR UPDATE from the
      same attempt row BEFORE the routine's UPDATE attempts SET end_time; the amount is the job's cores_mcpu; every routine
      that ends a single attempt contains the release
  R4  acquire and release are enabled for the same instance states (otherwise cores acquired in a state with no release stay lost
      until deactivation)
  R5  deactivation resets to the instance's total cores and ends every attempt on it; inactive instance => all cores free
  R6  Python mirror: every caller of a procedure returning delta_cores_mcpu applies it to the in-memory copy before acting on rc;
      the scheduler's optimistic decrement is undone on the exception path
  R8  closed world of the in-memory mirror (Instance._free_cores_mcpu): written at construction (recorded value), deactivation (total cores,
      on every path that sets the state inactive) and by adjust_free_cores_in_memory only; that method is called only with a procedure's
      delta_cores_mcpu (R6 sites) or as the pool scheduler's optimistic decrement / undo pair
  R7  lock discipline: in every transaction (entry procedure with its CALLed procedures inlined) each table read whose result decides
      whether free_cores_mcpu is decremented / incremented is a locking read (FOR UPDATE / FOR SHARE / LOCK IN SHARE MODE) inside
      START TRANSACTION .. COMMIT with no COMMIT / ROLLBACK / START TRANSACTION before the write, or reads rows that an earlier
      statement of the same transaction already holds locked and no consistent read preceded that lock (REPEATABLE READ: a plain
      SELECT is answered from the read view created by the transaction's first plain SELECT, so it does not see a
      deactivate_instance that committed meanwhile)
  R9  settlement of the pool scheduler's in-memory reservation (taken before schedule_job, undone in an `except` handler around it): the undo handler
      catches every Exception; schedule_job (module-level helpers inlined) reaches no escaping `raise` once CALL schedule_job has returned - the
      procedure records the attempt unconditionally before it decides on rc, so an exception there makes the handler return cores a live attempt
      holds and mark_job_complete returns them again; schedule_job returns normally only on paths through the CALL (otherwise neither
      delta_cores_mcpu nor the handler ever settles the reservation).  Awaited calls after the CALL are declined, not judged.
Not decided: histories as such.

Names are not interpreted: locals of the routines (instance state, end time, cores) are resolved through the reads that bind them
(`SELECT state .. FROM instances WHERE name = X`, `SELECT end_time .. FROM attempts WHERE <attempt key>`, `SELECT cores_mcpu .. FROM jobs WHERE <job key>`),
the parameters of add_attempt through the columns of its INSERT INTO attempts, table aliases through the FROM clause, `SET v = <test>` locals through
engines/c04facts.RoutineLocals, increments through sqlrules.dup_increment (operand order), Python result rows / instance lookups / deltas through def-use
(any local name, conditional expressions, alias locals), helpers of Instance and of driver/job.py by inlining.  A shape that is not resolved is declined;
a FAIL needs a resolved construct that breaks the obligation.
"""
from __future__ import annotations

import ast
from typing import Dict, List, Optional, Sequence, Set, Tuple

from engines import c04facts as cf4
from engines import c0910facts as cf
from engines import inline
from engines import pyfacts as pf
from engines import sqlfront as sf
from engines import sqlrules as sr
from engines.common import AnalysisError, Ctx
from engines.sqlast import N, text
from engines.sqleval import UNKNOWN, may

META = dict(
    category='other',
    text='Acquire/release pairing obligations decided on every writer of the free-core column in the effective SQL program, with the guards that make '
         'each of them happen at most once per attempt, plus the Python in-memory mirror. Static because each obligation is a dominance/ordering fact in the routine text.',
    note='Trusted: SQL parser, migration replay; MySQL ROW_COUNT() = 1 iff the INSERT..ON DUPLICATE KEY UPDATE inserted a new row; InnoDB REPEATABLE READ (plain SELECT = consistent read from the view created by the first plain SELECT; locking reads / UPDATE see and lock the latest row until COMMIT). The inductive argument over histories is not decided; a plain guard read that is not provably stale is declined, not judged.',
    technique='static analysis: closed-world writer scan + guard dominance and statement ordering in stored routines + lock-clause / read-view ordering facts over linearised transactions (CALLs inlined) + CFG checks on Python callers with helpers inlined (reachability of escaping raises after the committed CALL, must-pass-through of the CALL before a normal return)',
    design_ref='DESIGN.md §3 C10',
)

TBL = 'instances_free_cores_mcpu'
COL = 'free_cores_mcpu'
INST_STATES = ['pending', 'active', 'inactive', 'deleted']
ALLOWED = {'sql:add_attempt': '-', 'sql:mark_job_complete': '+', 'sql:unschedule_job': '+', 'sql:deactivate_instance': 'reset'}


def _free_core_writes(body) -> List[Tuple[N, tuple, N]]:
    out = []
    for st, guard in sf.guarded_statements(body):
        if st.kind == 'update':
            names = [t.lower() for t in sf.table_names(st.frm)]
            for c, v in st.sets:
                if c.kind == 'col' and c.parts[-1].lower() == COL and (TBL in names):
                    out.append((st, guard, v))
        elif st.kind in ('insert', 'delete') and any(t.lower() == TBL for t, _ in sf.written_tables(st)):
            out.append((st, guard, N('lit', value=None)))
    return out


def _cores_vars(routine: N, key: Optional[Tuple[str, str]] = None) -> Set[str]:
    """variables holding jobs.cores_mcpu of the job row `key` = (X, Y) (`.. FROM jobs WHERE batch_id = X AND job_id = Y`); default key: the routine's
    own (in_batch_id, in_job_id).  Variable names are not interpreted."""
    key = key or ('in_batch_id', 'in_job_id')
    out = set()
    for st in sf.all_statements(routine.body):
        if st.kind == 'select' and st.into and st.frm is not None and [t.lower() for t in sf.table_names(st.frm)] == ['jobs'] and cf4.job_key(st.where) == key:
            for (c, _), v in zip(st.cols, st.into):
                if c.kind == 'col' and c.parts[-1].lower() == 'cores_mcpu' and sr.is_var(v):
                    out.add(v.parts[0].lower())
    return out


def _name_key(where: Optional[N]) -> Optional[str]:
    """X when the conjuncts contain `name = X` (either order, optional qualifier), X a bare variable / parameter."""
    for c in sf.conjuncts(where):
        if c.kind == 'bin' and c.op == '=':
            for a_, b_ in ((c.left, c.right), (c.right, c.left)):
                if a_.kind == 'col' and a_.parts[-1].lower() == 'name' and sr.is_var(b_) and b_.parts[0].lower() != 'name':
                    return b_.parts[0].lower()
    return None


def _inst_state_vars(routine: N) -> Dict[str, str]:
    """variables bound to instances.state by `SELECT state INTO v FROM instances WHERE name = X` -> X."""
    out: Dict[str, str] = {}
    for st in sf.all_statements(routine.body):
        if st.kind == 'select' and st.into and st.frm is not None and [t.lower() for t in sf.table_names(st.frm)] == ['instances'] and _name_key(st.where) is not None:
            for (c, _), v in zip(st.cols, st.into):
                if c.kind == 'col' and c.parts[-1].lower() == 'state' and sr.is_var(v):
                    out[v.parts[0].lower()] = _name_key(st.where)
    return out


def _inst_states(guard, var) -> Set[str]:
    """instance states for which the path condition may hold; `var`: the variable(s) holding instances.state."""
    names = {var} if isinstance(var, str) else set(var)
    out = set()
    for s in INST_STATES:
        if all(pol in may(c, lambda n: s if (sr.is_var(n) and n.parts[0].lower() in names) else UNKNOWN) for c, pol in guard):
            out.add(s)
    return out


def _guard_vars(guard) -> Set[str]:
    return {n.parts[0].lower() for c, _ in guard for n in c.walk() if sr.is_var(n)}


def _clamped(v: N) -> bool:
    return any(n.kind == 'func' and n.name.upper() in ('GREATEST', 'LEAST', 'IF', 'ABS') for n in v.walk()) or any(n.kind == 'case' for n in v.walk())


def _prev_sibling(body: Sequence[N]) -> Dict[int, Optional[N]]:
    """id(statement) -> the statement directly before it in its own block."""
    out: Dict[int, Optional[N]] = {}

    def rec(block: Sequence[N]) -> None:
        prev = None
        for st in block:
            out[id(st)] = prev
            prev = st
            if st.kind == 'if':
                for _, b in st.branches:
                    rec(b)
                if st.orelse is not None:
                    rec(st.orelse)
            elif st.kind in ('loop', 'while', 'block'):
                rec(st.body)
    rec(body)
    return out


def _rowcount_values(c: N) -> Optional[Set[int]]:
    """For a condition built from ROW_COUNT() and integer literals only: the values v in {0, 1, 2} of ROW_COUNT() (INSERT .. ON DUPLICATE KEY UPDATE: 0 = duplicate
    left as it was, 1 = new row, 2 = duplicate changed) for which it holds.  None when the condition mentions anything else."""
    if not any(n.kind == 'func' and n.name.upper() == 'ROW_COUNT' for n in c.walk()):
        return None
    if any(n.kind in ('col', 'uvar', 'param', 'subq', 'exists', 'select') or (n.kind == 'func' and n.name.upper() != 'ROW_COUNT') for n in c.walk()):
        return None
    out = set()
    for k in (0, 1, 2):
        e = sf.subst(c, lambda n, k=k: N('lit', value=k) if (n.kind == 'func' and n.name.upper() == 'ROW_COUNT') else None)
        if True in may(e, lambda n: UNKNOWN):
            out.add(k)
    return out


def _flat_index(body, target: N) -> int:
    for i, st in enumerate(sf.all_statements(body)):
        if st is target:
            return i
    return -1


def _history(table: str, writer: str, sign: str, entry: str) -> str:
    if table == 'instances':
        return (f'History: session A executes {entry}(.., I) up to this read and sees I live; session B executes deactivate_instance(I) to COMMIT (attempts ended, state = '
                f"'inactive', free_cores_mcpu = cores_mcpu); A, which neither waited for B nor sees B's commit, goes on and writes free_cores_mcpu {sign} cores of the job: "
                'an inactive instance no longer reports all its cores free')
    if table == 'attempts':
        return (f'History: two reports for the same attempt (a retried mark_job_complete / unschedule_job) run {entry} concurrently; both read end_time NULL because neither '
                'read waits for the other, both pass the guard and the cores of the attempt are given back twice')
    return f'History: a concurrent transaction commits a change to {table} between this read and the write it guards, {writer} adjusts free_cores_mcpu on a condition that no longer holds'


def r7(ctx: Ctx, prog: sf.SqlProgram, writes: Dict[str, list]) -> None:
    """Violations are reported for recognised unsafe shapes; shapes that cannot be decided are collected and declined at the END
    (so that a violation established in one transaction is not lost to an undecidable sibling)."""
    entries, _called = cf.entry_procedures(prog)
    covered: Set[str] = set()
    declined: List[str] = []
    n_txn = 0
    for r in entries:
        if not any(_free_core_writes(x.ast.body) for x in _reachable(prog, r)):
            continue
        t = cf.Txn(prog, r)
        n_txn += 1
        for w, sign, v in cf.free_core_writes(t, TBL, COL):
            if sign == 'other':
                continue  # the reset to cores_mcpu is idempotent: repeating it on a stale guard leaves an inactive instance with all cores free (R5)
            writer = w.scope.name
            covered.add(writer)
            if w.in_loop:
                declined.append(f'{writer}: the free-core adjustment sits in a loop (lock discipline not decided for loops)')
                continue
            reads, unknown = t.guard_reads(w)
            if unknown:
                declined.append(f'{r.name}: the condition of the free-core adjustment in {writer} is not traceable to table reads: {unknown}')
                continue
            sg = '-' if sign == '-' else '+'
            for p, var, col in reads:
                tabs = sf.from_tables(p.st.frm)
                tnames = [x.name.lower() if x.kind == 'table' else '<derived>' for x in tabs]
                tn = tnames[0] if len(tnames) == 1 else '+'.join(tnames)
                cons = f'sql::{writer}::{sg} guard {var} <- {tn}.{col.lower().split(".")[-1]} read under lock' + ('' if writer == r.name else f' (in {r.name})')
                stmt = text(p.st)[:110]
                rfile, rline = p.scope.routine.file, p.line()
                lock = p.st.lock or ''
                head = f'`{stmt}` decides the {sg} adjustment of free_cores_mcpu in {writer}'
                hist = _history(tn, writer, sg, r.name)
                extra = {'transaction': r.name, 'read': text(p.st), 'write': text(w.st)}
                if 'SKIP LOCKED' in lock:
                    declined.append(f'{p.scope.name}: guard read `{stmt}` uses SKIP LOCKED')
                    continue
                bnd, how = t.boundary_between(p, w)
                if how == 'maybe':
                    declined.append(f'{r.name}: a {bnd.st.what} in another branch may run between `{stmt}` and the free-core write')
                    continue
                if how == 'definite':
                    ctx.bad('R7', cons, f'{head}, but `{bnd.st.what}` ({bnd.where()}) runs between the read and the write: whatever the read locked is released there and the '
                            f'decision is taken on a value other sessions may since have changed. {hist}', rfile, rline, extra)
                    continue
                start, status = t.txn_start_for(p)
                if status == 'unknown' or (status == 'out' and start is None):
                    declined.append(f'{r.name}: cannot tell whether `{stmt}` runs inside a transaction (no START TRANSACTION on every path before it; the caller\'s context is not known)')
                    continue
                if status == 'out':
                    ctx.bad('R7', cons, f'{head} but runs after `{start.st.what}` ({start.where()}), outside any transaction: its lock is gone when the statement returns. {hist}', rfile, rline, extra)
                    continue
                if cf.is_locking(lock):
                    ctx.ok('R7', cons, {'lock': lock, 'transaction': r.name})
                    continue
                # plain (consistent) read
                snaps = t.snapshots_before(p, start)
                lk, lstat = t.row_locked_before(p, start)
                stale = [x for x, k, d in snaps if d == 'definite']
                if lstat == 'unknown':
                    declined.append(f'{r.name}: a transaction boundary may separate `{stmt}` from the earlier lock on the same row')
                    continue
                if lstat == 'locked':
                    early = [(x, k, d) for x, k, d in snaps if x.idx < lk.idx]
                    sure = [x for x, k, d in early if k == 'read' and d == 'definite']
                    if not early:
                        # the row is locked by this transaction and the read view is younger than the lock: the plain read returns the locked row
                        ctx.ok('R7', cons, {'lock': f'row already locked by `{text(lk.st)[:80]}`', 'transaction': r.name})
                        continue
                    if not sure:
                        declined.append(f'{r.name}: cannot tell whether the read view exists before `{text(lk.st)[:80]}` locks the row that `{stmt}` re-reads')
                        continue
                    ctx.bad('R7', cons, f'{head}. It is a plain SELECT; the row was locked earlier by `{text(lk.st)[:80]}`, but the transaction\'s read view was created even earlier by '
                            f'`{text(sure[0].st)[:80]}` ({sure[0].where()}), so the plain SELECT returns the row as of THAT moment, not the locked one. {hist}', rfile, rline, extra)
                    continue
                if stale:
                    sn = stale[0]
                    what = f'`{text(sn.st)[:80]}`' + (' (the stored function it invokes reads tables without a lock)' if t.snapshot_kind(sn) == 'function' else '')
                    ctx.bad('R7', cons, f'{head}, but it is a plain SELECT and the read view of transaction {r.name} already exists when it runs (created by {what}, {sn.where()}): under '
                            f'REPEATABLE READ it returns {tn}.{col} as of that earlier statement, does not see anything committed since and waits for nobody. {hist}', rfile, rline, extra)
                    continue
                # plain read that opens (or may open) the read view itself: it returns the latest committed row but holds no lock; whether other locks of this
                # transaction happen to keep the writers of that row out until COMMIT is not decided here
                declined.append(f'{r.name}: `{stmt}` (guarding the {sg} adjustment in {writer}) takes no lock; no earlier consistent read makes it stale for certain, and whether other '
                                'locks held by the transaction exclude a concurrent change of the row is not decided')
    ctx.unit('transactions_linearised', n_txn)
    for name, ws in writes.items():
        if any(v.kind == 'bin' and v.op in ('+', '-') for st, g, v in ws) and name not in covered:
            declined.append(f'{name} adjusts free_cores_mcpu but is not reached from any procedure that starts a transaction')
    ctx.need(not declined, 'R7 lock discipline: ' + ' | '.join(declined))


def _hoist_test_calls(m: pf.Module, target: str, helpers: Set[str]) -> pf.Module:
    """`if helper(..): B` -> `t = helper(..); if t: B` in function `target` (same behaviour; makes the call a statement the inliner accepts)."""
    import copy
    tree = copy.deepcopy(m.tree)
    m2 = pf.Module(m.rel, m.path, m.src, tree)
    fn = m2.func(target)
    k = [0]

    def is_helper_call(x: ast.AST) -> bool:
        if isinstance(x, ast.Await):
            x = x.value
        return isinstance(x, ast.Call) and isinstance(x.func, ast.Name) and x.func.id in helpers

    def block(stmts: List[ast.stmt]) -> List[ast.stmt]:
        out: List[ast.stmt] = []
        for st in stmts:
            for fld in ('body', 'orelse', 'finalbody'):
                if hasattr(st, fld) and isinstance(getattr(st, fld), list) and not isinstance(st, (ast.FunctionDef, ast.AsyncFunctionDef, ast.ClassDef)):
                    setattr(st, fld, block(getattr(st, fld)))
            if isinstance(st, ast.Try):
                for h in st.handlers:
                    h.body = block(h.body)
            if isinstance(st, ast.If):
                t = st.test
                neg = isinstance(t, ast.UnaryOp) and isinstance(t.op, ast.Not)
                inner = t.operand if neg else t
                if is_helper_call(inner):
                    k[0] += 1
                    name = f'_hoisted_{k[0]}'
                    asg = ast.copy_location(ast.Assign(targets=[ast.Name(id=name, ctx=ast.Store())], value=inner, lineno=st.lineno), st)
                    ref: ast.expr = ast.Name(id=name, ctx=ast.Load())
                    st.test = ast.copy_location(ast.UnaryOp(op=ast.Not(), operand=ref), t) if neg else ast.copy_location(ref, t)
                    ast.fix_missing_locations(asg)
                    ast.fix_missing_locations(st)
                    out.append(asg)
            out.append(st)
        return out

    fn.body = block(fn.body)
    return m2


def _same_instance(fn: pf.FuncDef, recv: ast.expr, name_arg: ast.expr) -> Tuple[str, str]:
    """Is the object `recv` (receiver of adjust_free_cores_in_memory) the instance whose name is passed to the procedure as `name_arg`?
    ('same' | 'other' | 'unknown', explanation).  'other' needs positive evidence: the receiver is looked up under a different key, or the name
    is taken from a different object.  Locals are followed through all their definitions (None definitions cannot be receivers)."""
    want = pf.nsrc(pf.expand_locals(fn, name_arg))
    params = {a.arg for a in fn.args.posonlyargs + fn.args.args + fn.args.kwonlyargs}

    def src(e: ast.AST) -> str:
        return pf.nsrc(pf.expand_locals(fn, e))

    def owner_of_name() -> Optional[str]:
        a = pf.expand_locals(fn, name_arg)
        return pf.nsrc(a.value) if isinstance(a, ast.Attribute) and a.attr == 'name' else None

    def val(e: ast.AST, depth: int) -> Tuple[str, str]:
        if depth <= 0:
            return 'unknown', f'`{pf.nsrc(e)}` is defined through too many locals'
        if isinstance(e, ast.Constant) and e.value is None:
            return 'same', ''
        if isinstance(e, ast.IfExp):
            parts = [val(e.body, depth), val(e.orelse, depth)]
        elif isinstance(e, ast.BoolOp):
            parts = [val(e.values[-1], depth)] if isinstance(e.op, ast.And) else [val(v, depth) for v in e.values]
        elif isinstance(e, ast.Await):
            return val(e.value, depth)
        elif isinstance(e, ast.Call) and isinstance(e.func, ast.Attribute) and e.func.attr == 'get_instance' and len(e.args) == 1 and not e.keywords:
            k = src(e.args[0])
            return ('same', '') if k == want else ('other', f'which is looked up as get_instance({k}), not by `{want}`')
        elif isinstance(e, ast.Subscript) and isinstance(e.value, ast.Attribute) and e.value.attr == 'name_instance':
            k = src(e.slice)
            return ('same', '') if k == want else ('other', f'which is looked up as name_instance[{k}], not by `{want}`')
        elif isinstance(e, ast.Name):
            own = owner_of_name()
            if own is not None and own == e.id:
                return 'same', ''
            defs = pf.assignments(fn).get(e.id, [])
            if e.id in params and len(defs) == 1:
                if own is not None and own in params and len(pf.assignments(fn).get(own, [])) == 1:
                    return 'other', f'a different parameter than `{own}`, whose name is passed'
                return 'unknown', f'`{e.id}` is a parameter; its relation to `{want}` is not known'
            if not defs:
                return 'unknown', f'`{e.id}` has no definition in the function'
            parts = [val(d, depth - 1) if isinstance(d, ast.expr) else ('unknown', f'`{e.id}` is bound by `{pf.nsrc(d)[:40]}`') for d in defs]
        else:
            own = owner_of_name()
            if own is not None and pf.nsrc(e) == own:
                return 'same', ''
            return 'unknown', f'`{pf.nsrc(e)[:50]}` is not a recognised instance lookup'
        for v_, w_ in parts:
            if v_ == 'other':
                return v_, w_
        for v_, w_ in parts:
            if v_ == 'unknown':
                return v_, w_
        return 'same', ''
    return val(recv, 4)


MIRROR_ATTR = '_free_cores_mcpu'
INSTANCE_PY = 'batch/batch/driver/instance.py'


def _delta_result_names(mod: pf.Module, fn: pf.FuncDef, procs: Set[str]) -> Set[str]:
    """locals of fn assigned from `CALL <procedure returning delta_cores_mcpu>`."""
    out = set()
    for e in sf.embedded_in(mod):
        if e.fn is fn and e.sql_text is not None:
            sts = e.stmts()
            if len(sts) == 1 and sts[0].kind == 'call' and sts[0].name in procs:
                for n in pf.walk_shallow(fn):
                    if isinstance(n, ast.Assign) and len(n.targets) == 1 and isinstance(n.targets[0], ast.Name) and any(x is e.call for x in ast.walk(n.value)):
                        out.add(n.targets[0].id)
    return out


def _is_proc_delta(mod: pf.Module, fn: pf.FuncDef, call: ast.Call, procs: Set[str]) -> bool:
    """the argument of adjust_free_cores_in_memory is <rv>['delta_cores_mcpu'] where rv is the result of a delta-returning CALL in this function, or a
    parameter of a module-level helper every call of which passes such a result."""
    if len(call.args) != 1 or call.keywords:
        return False
    a = pf.expand_locals(fn, call.args[0])
    if isinstance(a, ast.Call) and isinstance(a.func, ast.Attribute) and a.func.attr == 'get' and isinstance(a.func.value, ast.Name) and a.args and not a.keywords \
            and pf.const_str(a.args[0]) == 'delta_cores_mcpu' and (len(a.args) == 1 or (len(a.args) == 2 and isinstance(a.args[1], ast.Constant) and a.args[1].value in (0, None))):
        rv = a.func.value.id
    elif isinstance(a, ast.Subscript) and isinstance(a.value, ast.Name) and pf.const_str(a.slice) == 'delta_cores_mcpu':
        rv = a.value.id
    else:
        return False
    if rv in _delta_result_names(mod, fn, procs):
        return True
    params = [x.arg for x in fn.args.args]
    if rv in params and fn in mod.tree.body:
        i = params.index(rv)
        sites = [(c, mod.enclosing_func(c)) for c in ast.walk(mod.tree) if isinstance(c, ast.Call) and isinstance(c.func, ast.Name) and c.func.id == fn.name]
        ok = bool(sites)
        for c, f2 in sites:
            v = c.args[i] if i < len(c.args) else next((k.value for k in c.keywords if k.arg == rv), None)
            ok = ok and f2 is not None and isinstance(v, ast.Name) and v.id in _delta_result_names(mod, f2, procs)
        return ok
    return False


def r8(ctx: Ctx, jobm: pf.Module, poolm: pf.Module, neg: list, pos: list, procs_with_delta: Set[str]) -> None:
    """Every statement that changes Instance._free_cores_mcpu is one of the mirrored events: construction (= the recorded value),
    deactivation (= total cores, with state inactive), adjust_free_cores_in_memory(+= delta); and adjust_free_cores_in_memory is called only
    with a delta returned by a stored procedure (R6 sites) or as the scheduler's optimistic decrement / its undo (R6 pair)."""
    im = pf.load(INSTANCE_PY)
    rels = list(pf.walk_py(['batch/batch'] if ctx.tier == 'quick' else ['batch', 'gear', 'ci', 'auth']))
    # The three mirrored events are methods of Instance; private helpers extracted from them (deactivate -> _mark_inactive_in_memory ..) are analysed
    # inlined into the method that calls them.  A helper is covered when every call of it in the class was inlined into an event method.
    EVENTS = ('__init__', 'deactivate', 'adjust_free_cores_in_memory')
    icls = im.cls('Instance')
    imethods = {f.name: f for f in icls.body if isinstance(f, (ast.FunctionDef, ast.AsyncFunctionDef))}
    inl: Dict[str, Tuple[pf.Module, pf.FuncDef]] = {}
    covered: Set[str] = set()
    uncovered_why: Dict[str, str] = {}
    for ev_ in EVENTS:
        if ev_ in imethods:
            m2_, il_ = inline.inline_methods(im, 'Instance', ev_, exclude=tuple(x for x in EVENTS if x != ev_))
            inl[ev_] = (m2_, m2_.func(f'Instance.{ev_}'))
            covered |= {nm for nm, _ in il_.inlined}
            for nm, line_, why_ in il_.skipped:
                uncovered_why[nm] = f'line {line_}: {why_}'
    for nm in list(covered):
        sites = [mod_fn for mod_fn in imethods.values() for c in ast.walk(mod_fn) if isinstance(c, ast.Call) and isinstance(c.func, ast.Attribute) and c.func.attr == nm
                 and isinstance(c.func.value, ast.Name) and mod_fn.args.args and c.func.value.id == mod_fn.args.args[0].arg]
        outside = False
        for rel_ in rels:
            mod_ = pf.load(rel_)
            if nm not in mod_.src:
                continue
            for c in ast.walk(mod_.tree):
                if isinstance(c, ast.Attribute) and c.attr == nm and isinstance(c.ctx, ast.Load):
                    f_ = mod_.enclosing_func(c)
                    in_cls = rel_ == INSTANCE_PY and f_ is not None and f_ in imethods.values() and isinstance(c.value, ast.Name) and f_.args.args and c.value.id == f_.args.args[0].arg
                    outside = outside or not in_cls
        if outside or any(f_.name not in EVENTS and f_.name not in covered for f_ in sites) or nm in uncovered_why:
            covered.discard(nm)
    scans: List[Tuple[str, pf.Module, Optional[pf.FuncDef]]] = []
    for rel in rels:
        mod = pf.load(rel)
        if MIRROR_ATTR not in mod.src and 'adjust_free_cores_in_memory' not in mod.src:
            continue
        scans.append((rel, mod, None))
    for ev_, (m2_, f2_) in inl.items():
        scans.append((INSTANCE_PY, m2_, f2_))
    for rel, mod, only in scans:
        for node in (ast.walk(only) if only is not None else ast.walk(mod.tree)):
            tgt = None
            if only is None and rel == INSTANCE_PY:
                f0 = mod.enclosing_func(node) if isinstance(node, (ast.Assign, ast.AugAssign, ast.AnnAssign)) else None
                if f0 is not None and f0 in imethods.values() and (f0.name in EVENTS or f0.name in covered):
                    continue  # judged in the inlined copy of the event method
            if isinstance(node, ast.Assign):
                tg = [t_ for t_ in node.targets if isinstance(t_, ast.Attribute) and t_.attr == MIRROR_ATTR]
                tgt = tg[0] if tg else None
            elif isinstance(node, (ast.AugAssign, ast.AnnAssign)) and isinstance(node.target, ast.Attribute) and node.target.attr == MIRROR_ATTR:
                tgt = node.target
            elif isinstance(node, ast.Call) and pf.dotted(node.func) in ('setattr',) and len(node.args) >= 2 and pf.const_str(node.args[1]) == MIRROR_ATTR:
                ctx.bad('R8', f'{rel}::setattr {MIRROR_ATTR}', 'the in-memory free cores are written through setattr', mod.path, node.lineno)
            if tgt is None:
                continue
            fn = mod.enclosing_func(node)
            q = mod.qualname(fn) if fn is not None else '<module>'
            cons = f'{rel}::{q}::{MIRROR_ATTR} {"+=" if isinstance(node, ast.AugAssign) else "="} {pf.nsrc(node.value) if node.value is not None else ""}'
            me = fn.args.args[0].arg if fn is not None and fn.args.args else 'self'
            own_params = [a.arg for a in fn.args.posonlyargs + fn.args.args + fn.args.kwonlyargs][1:] if fn is not None else []
            val = pf.expand_locals(fn, node.value) if fn is not None and node.value is not None else node.value
            on_self = pf.nsrc(tgt.value) == me
            if rel == INSTANCE_PY and q == 'Instance.__init__' and isinstance(node, (ast.Assign, ast.AnnAssign)):
                ok = on_self and isinstance(val, ast.Name) and val.id in own_params and len(pf.assignments(fn).get(val.id, [])) == 1
                ctx.check(ok, 'R8', cons, 'a new in-memory instance does not start from the recorded free cores passed to the constructor', mod.path, node.lineno)
            elif rel == INSTANCE_PY and q == 'Instance.deactivate' and isinstance(node, (ast.Assign, ast.AnnAssign)):
                ok = on_self and isinstance(val, ast.Attribute) and pf.nsrc(val.value) == me and val.attr in ('cores_mcpu', '_cores_mcpu')
                ctx.check(ok, 'R8', cons, 'deactivation does not set the in-memory free cores to the instance\'s total cores', mod.path, node.lineno)
            elif rel == INSTANCE_PY and q == 'Instance.adjust_free_cores_in_memory' and isinstance(node, (ast.AugAssign, ast.Assign)):
                if isinstance(node, ast.Assign):
                    # x = x + d  is the augmented assignment spelled out
                    v0 = node.value
                    mine = pf.nsrc(tgt)
                    add = isinstance(v0, ast.BinOp) and isinstance(v0.op, ast.Add) and mine in (pf.nsrc(v0.left), pf.nsrc(v0.right))
                    amount = (v0.right if pf.nsrc(v0.left) == mine else v0.left) if add else None
                else:
                    add, amount = isinstance(node.op, ast.Add), node.value
                amount = pf.expand_locals(fn, amount) if amount is not None else None
                ok = add and isinstance(amount, ast.Name) and amount.id in own_params and on_self
                ctx.check(ok, 'R8', cons, 'adjust_free_cores_in_memory does not add its argument to the in-memory free cores', mod.path, node.lineno)
            else:
                if rel == INSTANCE_PY and fn is not None and fn.name in uncovered_why:
                    raise AnalysisError(f'{cons}: helper `{fn.name}` writes the in-memory free cores and is called from a mirrored event in a form that cannot be inlined ({uncovered_why[fn.name]})')
                ctx.bad('R8', cons, f'{q} changes the in-memory free cores directly; the only mirrored events are construction, deactivation and adjust_free_cores_in_memory(delta)', mod.path, node.lineno)
        for node in (ast.walk(mod.tree) if only is None else []):
            if isinstance(node, ast.Call) and isinstance(node.func, ast.Attribute) and node.func.attr == 'adjust_free_cores_in_memory':
                fn = mod.enclosing_func(node)
                q = mod.qualname(fn) if fn is not None else '<module>'
                arg = pf.nsrc(node.args[0]) if len(node.args) == 1 and not node.keywords else '?'
                cons = f'{rel}::{q}::adjust_free_cores_in_memory({arg})'
                if mod.rel == jobm.rel and fn is not None and _is_proc_delta(mod, fn, node, procs_with_delta):
                    ctx.ok('R8', cons, 'delta returned by the stored procedure (R6)')
                elif mod.rel == poolm.rel and (node in neg or node in pos):
                    ctx.ok('R8', cons, 'optimistic decrement / undo pair (R6)')
                else:
                    ctx.bad('R8', cons, f'{q} adjusts an instance\'s in-memory free cores by `{arg}`, which is neither a delta_cores_mcpu returned by a stored procedure nor the pool scheduler\'s '
                            'optimistic decrement with its undo: the database counter does not move with it, so the two copies drift apart (e.g. a reservation made before scheduling that '
                            'is never given back when scheduling fails, or is counted again when the procedure reports its delta)', mod.path, node.lineno)
    # deactivation mirrors the reset: every normal completion of Instance.deactivate that reaches the state change also resets the cores
    fn = inl['deactivate'][1] if 'deactivate' in inl else im.func('Instance.deactivate')
    g = pf.cfg(fn)
    me = fn.args.args[0].arg if fn.args.args else 'self'
    st_nodes = g.find(lambda n: isinstance(n.ast, ast.Assign) and pf.nsrc(n.ast.targets[0]) == f'{me}._state' and pf.const_str(pf.expand_locals(fn, n.ast.value)) == 'inactive')
    rs_nodes = g.find(lambda n: isinstance(n.ast, ast.Assign) and pf.nsrc(n.ast.targets[0]) == f'{me}.{MIRROR_ATTR}' and pf.nsrc(pf.expand_locals(fn, n.ast.value)) in (f'{me}.cores_mcpu', f'{me}._cores_mcpu'))
    ctx.need(st_nodes, 'Instance.deactivate: `self._state = \'inactive\'` not found')
    ok = bool(rs_nodes) and all(g.path_avoiding(sn, lambda n: n is g.exit, lambda n: n in rs_nodes, edge_ok=lambda a, b, lab: lab != 'exc') is None
                                or any(g.dominated_by(sn, lambda n, r_=r_: n is r_) for r_ in rs_nodes) for sn in st_nodes)
    ctx.check(ok, 'R8', f'{INSTANCE_PY}::Instance.deactivate::inactive => all cores free', 'an instance that becomes inactive in memory keeps its old free-core count: it does not report all cores free '
              '(the database row was reset to cores_mcpu by deactivate_instance)', im.path, fn.lineno)
    # from_record / create pass the recorded value into the constructor's free_cores_mcpu parameter
    init = im.func('Instance.__init__')
    pnames = [a.arg for a in init.args.args][1:]
    ctx.need('free_cores_mcpu' in pnames and 'cores_mcpu' in pnames, 'Instance.__init__: parameters cores_mcpu / free_cores_mcpu not found')
    fi, ci = pnames.index('free_cores_mcpu'), pnames.index('cores_mcpu')
    def _from_row(f2: pf.FuncDef, x: ast.AST, col: str) -> bool:
        ps_ = {a_.arg for a_ in f2.args.posonlyargs + f2.args.args + f2.args.kwonlyargs}
        return isinstance(x, ast.Subscript) and isinstance(x.value, ast.Name) and x.value.id in ps_ and pf.const_str(x.slice) == col

    def _ctor_arg(call_: ast.Call, idx: int, name: str) -> Optional[ast.expr]:
        if idx < len(call_.args) and not any(isinstance(a_, ast.Starred) for a_ in call_.args[: idx + 1]):
            return call_.args[idx]
        return next((k.value for k in call_.keywords if k.arg == name), None)
    for q, want in (('Instance.from_record', lambda f2, a, c: _from_row(f2, a, 'free_cores_mcpu')), ('Instance.create', lambda f2, a, c: pf.nsrc(a) == pf.nsrc(c))):
        f2 = im.func(q)
        calls = [c for c in ast.walk(f2) if isinstance(c, ast.Call) and pf.dotted(c.func) in ('Instance', 'cls')]
        ctx.need(len(calls) == 1, f'{q}: constructor call not recognised')
        a, c = _ctor_arg(calls[0], fi, 'free_cores_mcpu'), _ctor_arg(calls[0], ci, 'cores_mcpu')
        ctx.need(a is not None and c is not None, f'{q}: constructor arguments for cores_mcpu / free_cores_mcpu not found')
        a, c = pf.expand_locals(f2, a), pf.expand_locals(f2, c)
        ctx.check(want(f2, a, c), 'R8', f'{INSTANCE_PY}::{q}::initial in-memory free cores', f'{q} builds the in-memory instance with free cores `{pf.nsrc(a)}` (total `{pf.nsrc(c)}`): '
                  + ('a loaded instance does not start from the recorded counter' if 'record' in q else 'a new instance does not start with all cores free'), im.path, calls[0].lineno)


JOB_PY = 'batch/batch/driver/job.py'
RESERVING = ('batch/batch/driver/instance_collection/pool.py', 'batch/batch/driver/instance_collection/job_private.py')


def _catches_exception(h: ast.ExceptHandler) -> bool:
    ts = [h.type] if not isinstance(h.type, ast.Tuple) else list(h.type.elts)
    return h.type is None or any(isinstance(t, ast.Name) and t.id in ('Exception', 'BaseException') for t in ts)


def r9(ctx: Ctx, prog: sf.SqlProgram, m: pf.Module, procs_with_delta: Set[str]) -> None:
    """Settlement of the scheduler's in-memory reservation.  The pool scheduler takes the job's cores from the in-memory copy BEFORE it calls
    schedule_job and gives them back in an `except` handler around that call.  The stored procedure schedule_job records the attempt (add_attempt) before
    it decides on rc and reports through delta_cores_mcpu how the in-memory copy has to move so that reservation and database agree; it has committed when
    the CALL returns.  Hence:  (a) the undo handler must catch every Exception;  (b) once the CALL has returned normally, schedule_job (helpers inlined) must
    not raise - the handler would return cores that a live attempt holds, and mark_job_complete returns them a second time;  (c) schedule_job must not return
    normally without having made the CALL - nobody would ever settle the reservation.  Exception sources considered: `raise` statements and awaited calls
    (a fault can fail any of them); awaited calls after the CALL are not judged but declined."""
    # ---- (a) the callers that hold a reservation across schedule_job ---------------------------------------------------------------------------------
    n_undo = 0
    for rel in RESERVING:
        mod = pf.load(rel)
        for tr in ast.walk(mod.tree):
            if not (isinstance(tr, ast.Try) and any(isinstance(x, ast.Call) and pf.dotted(x.func) == 'schedule_job' for b in tr.body for x in ast.walk(b))):
                continue
            fn = mod.enclosing_func(tr)
            q = mod.qualname(fn) if fn is not None else '<module>'
            undo = [h for h in tr.handlers if any(isinstance(c, ast.Call) and isinstance(c.func, ast.Attribute) and c.func.attr == 'adjust_free_cores_in_memory' for c in ast.walk(h))]
            fin = [c for b in tr.finalbody for c in ast.walk(b) if isinstance(c, ast.Call) and isinstance(c.func, ast.Attribute) and c.func.attr == 'adjust_free_cores_in_memory']
            if fin:
                ctx.bad('R9', f'{rel}::{q}::reservation undone on failure only', 'the in-memory reservation is given back in a `finally` clause, i.e. also when schedule_job succeeded and the attempt holds the cores',
                        mod.path, tr.lineno)
            for h in undo:
                n_undo += 1
                ctx.check(_catches_exception(h), 'R9', f'{rel}::{q}::undo handler catches every Exception', f'the handler that gives the reserved cores back only catches `{pf.nsrc(h.type) if h.type is not None else ""}`: '
                          'any other exception out of schedule_job (a database error, a timeout) leaves the in-memory free cores reduced by the job\'s cores although no attempt was placed', mod.path, h.lineno)
    if n_undo == 0:
        ctx.info('R9: no caller of schedule_job undoes an in-memory reservation in an except handler (R6 reports a missing undo)')
    # ---- schedule_job itself -----------------------------------------------------------------------------------------------------------------------
    toplevel = {f.name: f for f in m.tree.body if isinstance(f, (ast.FunctionDef, ast.AsyncFunctionDef))}
    ctx.need('schedule_job' in toplevel, f'{JOB_PY}::schedule_job not found')
    fn0 = toplevel['schedule_job']

    def _the_call(mod: pf.Module, fn: pf.FuncDef) -> ast.Call:
        cs = []
        for c in ast.walk(fn):
            if isinstance(c, ast.Call) and isinstance(c.func, ast.Attribute) and c.func.attr in sf.EXEC_METHODS and c.args:
                sql = (sf._sql_of_expr(fn, c.args[0])[0] or '').strip()   # literal, or a local / f-string holding the SQL
                if sql.upper().startswith('CALL ') and sql[5:].split('(')[0].strip() in procs_with_delta:
                    cs.append(c)
        ctx.need(len(cs) == 1, f'{JOB_PY}::schedule_job: expected exactly one CALL of a procedure returning delta_cores_mcpu, found {len(cs)}')
        return cs[0]

    def _normal(a, b, lab):
        return lab != 'exc'

    g0 = pf.cfg(fn0)
    cn0 = g0.node_of(_the_call(m, fn0))
    ctx.need(len(cn0) == 1, f'{JOB_PY}::schedule_job: CFG node of the CALL not found')
    after0 = g0.reachable_from(cn0[0], edge_ok=_normal)
    wanted: Set[str] = set()
    for n in g0.nodes:
        if n.id in after0 and n is not cn0[0]:
            for x in pf.node_exprs(n):
                wanted |= {c.func.id for c in ast.walk(x) if isinstance(c, ast.Call) and isinstance(c.func, ast.Name) and c.func.id in toplevel}
    changed = True
    while changed:
        changed = False
        for nm in list(wanted):
            for c in ast.walk(toplevel[nm]):
                if isinstance(c, ast.Call) and isinstance(c.func, ast.Name) and c.func.id in toplevel and c.func.id not in wanted and c.func.id != 'schedule_job':
                    wanted.add(c.func.id)
                    changed = True
    if wanted:
        m2, il = inline.inline_functions(_hoist_test_calls(m, 'schedule_job', wanted), 'schedule_job', exclude=tuple(n_ for n_ in toplevel if n_ not in wanted))
        fn = m2.func('schedule_job')
        mod2 = m2
    else:
        fn, mod2, il = fn0, m, None
    g = pf.cfg(fn)
    cn = g.node_of(_the_call(mod2, fn))
    ctx.need(len(cn) == 1, f'{JOB_PY}::schedule_job: CFG node of the CALL not found after inlining')
    call_node = cn[0]
    after = g.reachable_from(call_node, edge_ok=_normal)
    par = mod2.parents()

    def escapes(n, seen: Set[int]) -> bool:
        """an exception raised at n leaves the function."""
        if n.id in seen:
            return False
        seen.add(n.id)
        for t, lab in n.succ:
            if lab != 'exc':
                continue
            if t is g.raise_exit:
                return True
            for x in g.nodes:
                if x.id in g.reachable_from(t, edge_ok=_normal) and x.kind == 'raise' and escapes(x, seen):
                    return True
        return False

    def swallowed(node_ast: ast.AST) -> bool:
        cur = par.get(node_ast)
        child = node_ast
        while cur is not None and cur is not fn:
            if isinstance(cur, ast.Try) and child in cur.body and any(_catches_exception(h) and not any(isinstance(r_, ast.Raise) for r_ in ast.walk(h)) for h in cur.handlers):
                return True
            child, cur = cur, par.get(cur)
        return False

    raises = [n for n in g.nodes if n.id in after and n.kind == 'raise' and escapes(n, set())]
    cons = f'{JOB_PY}::schedule_job'
    proc = (sf._sql_of_expr(fn, _the_call(mod2, fn).args[0])[0] or '').strip()[5:].split('(')[0].strip()
    # what the procedure has done when it answers: the attempt is recorded (CALL add_attempt) on EVERY path, whatever rc it then reports
    acq = [(st, guard) for st, guard in sf.guarded_statements(prog.routine(proc).ast.body) if st.kind == 'call' and st.name.lower() == 'add_attempt']
    ctx.need(acq, f'sql::{proc}: CALL add_attempt not found')
    if raises and not all(guard == () for _, guard in acq):
        raise AnalysisError(f'R9 {cons}: `{pf.nsrc(raises[0].ast)[:60]}` follows CALL {proc}, and {proc} records the attempt only under {[text(c) for c, _ in acq[0][1]]}: whether the raise is '
                            'confined to answers without an attempt is not decided')
    ctx.check(not raises, 'R9', cons + f'::no exception after CALL {proc} returned',
              (f'`{pf.nsrc(raises[0].ast)[:90]}` (line {raises[0].ast.lineno}) is reached after CALL {proc} has returned. ' if raises else '') +
              f'The procedure has committed by then and calls add_attempt unconditionally, before it decides on rc (effective definition in {prog.routine(proc).file}): whatever rc says, the attempt holds the job\'s cores in the '
              'database and delta_cores_mcpu has already reconciled the in-memory copy with the scheduler\'s reservation. The pool scheduler treats every exception out of schedule_job as "nothing was placed" and '
              'adds the job\'s cores back in memory. History: job J (c mcpu) is selected as Ready; the worker accepts it; J\'s job group is cancelled; CALL schedule_job -> add_attempt (database free cores - c), '
              'rc = 1; the exception makes the pool handler add c back: in-memory free = truth + c while J\'s attempt is live; when the worker reports J complete, mark_job_complete returns '
              'delta_cores_mcpu = +c once more: the surplus of c stays for the life of the instance', m.path, raises[0].ast.lineno if raises else fn0.lineno,
              detail={'helpers inlined': sorted({x for x, _ in il.inlined}) if il is not None else []})
    undecided = []
    for n in g.nodes:
        if n.id not in after or n is call_node or n.ast is None:
            continue
        for x in pf.node_exprs(n):
            for a in pf.walk_shallow(x):
                if isinstance(a, ast.Await) and not swallowed(n.ast):
                    undecided.append(f'line {getattr(a, "lineno", 0)}: `{pf.nsrc(a)[:70]}` is awaited after CALL {proc} returned; whether it can fail is not decided')
                if isinstance(a, ast.Call) and isinstance(a.func, ast.Name) and a.func.id in toplevel and \
                        any(isinstance(r_, (ast.Raise, ast.Await)) for r_ in ast.walk(toplevel[a.func.id])) and not swallowed(n.ast):
                    undecided.append(f'line {getattr(a, "lineno", 0)}: helper `{a.func.id}` (contains raise / await) is called after CALL {proc} returned in a form that was not inlined')
    # ---- (c) a normal return implies the CALL was made ---------------------------------------------------------------------------------------------
    p = g.path_avoiding(g.entry, lambda n: n is g.exit, lambda n: n is call_node)
    via = [x for x in (p or []) if x.ast is not None][-3:]
    ctx.check(p is None, 'R9', cons + f'::returns normally only after CALL {proc}',
              f'schedule_job can return normally without having called {proc} (path through ' + ', '.join(f'line {getattr(x.ast, "lineno", 0)} `{pf.nsrc(x.ast)[:50]}`' for x in via) +
              '): the pool scheduler has already taken the job\'s cores from the in-memory copy; without the procedure\'s delta_cores_mcpu and without an exception for the undo handler nobody gives them back, '
              'so the in-memory free cores stay below total - live attempts (e.g. a worker that answers 403/503 to jobs/create)', m.path, getattr(via[-1].ast, 'lineno', fn0.lineno) if via else fn0.lineno)
    ctx.need(not undecided, 'R9 ' + cons + ': ' + ' | '.join(undecided[:4]))


def _reachable(prog: sf.SqlProgram, r: sf.Routine, seen: Optional[Set[str]] = None) -> List[sf.Routine]:
    seen = seen if seen is not None else set()
    if r.name in seen:
        return []
    seen.add(r.name)
    out = [r]
    for st in sf.all_statements(r.ast.body):
        if st.kind == 'call':
            c = prog.routines.get(st.name) or next((x for n, x in prog.routines.items() if n.lower() == st.name.lower()), None)
            if c is not None:
                out += _reachable(prog, c, seen)
    return out


def run(ctx: Ctx) -> None:
    ctx.explanation ='Acquire/release obligations on every writer of instances_free_cores_mcpu.free_cores_mcpu in the effective SQL program and its Python mirror.'
    ctx.rule('R1', 'closed world of writers of free_cores_mcpu with their direction (-, +, reset, init)', 5)
    ctx.rule('R2', 'acquire once: decrement dominated by ROW_COUNT() = 1 right after the idempotent attempts insert; amount = the job\'s cores at each CALL add_attempt', 8)
    ctx.rule('R3', 'release once: increment dominated by cur_end_time IS NULL read FOR UPDATE before end_time is written; amount = the job\'s cores; every single-attempt end releases', 13)
    ctx.rule('R4', 'acquire and release enabled for the same instance states', 2)
    ctx.rule('R5', 'deactivate_instance ends all attempts of the instance and resets free cores to total cores', 3)
    ctx.rule('R6', 'Python mirror applies delta_cores_mcpu at every call site, to the instance named in the CALL, before acting on rc; optimistic decrement undone on failure', 16)
    ctx.rule('R8', 'closed world of the in-memory mirror: _free_cores_mcpu changes only at construction (= recorded value), deactivation (= total) and through adjust_free_cores_in_memory, '
             'which is called only with a procedure\'s delta or as the optimistic decrement / undo pair', 13)
    ctx.rule('R9', 'the pool scheduler\'s in-memory reservation is settled exactly once: schedule_job raises only before CALL schedule_job has returned (undo handler catches every Exception) '
             'and returns normally only after it (delta_cores_mcpu applied)', 3)
    ctx.rule('R7', 'every table read deciding a free-core decrement / increment is a locking read inside the transaction (or re-reads a row locked earlier, before the read view existed)', 8)
    prog = sf.load_program()
    ctx.unit('effective_routines', len(prog.routines))

    # ---- R1 ---------------------------------------------------------------------------------
    writes: Dict[str, List[Tuple[N, tuple, N]]] = {}
    for name, r in sorted(prog.routines.items()):
        ws = _free_core_writes(r.ast.body)
        if ws:
            writes[name] = ws
            ctx.check('sql:' + name in ALLOWED, 'R1', f'{r.file}::{name}::writes {COL}', f'{name} writes {COL} but is not one of the accounting routines {sorted(ALLOWED)}', r.file, r.line_of(ws[0][0]))
    for rel in pf.walk_py(['batch/batch'] if ctx.tier == 'quick' else ['batch', 'gear', 'ci', 'auth']):
        m = pf.load(rel)
        if TBL not in m.src and COL not in m.src:
            continue
        for e in sf.embedded_in(m):
            if e.sql_text is None or (TBL not in e.sql_text and COL not in e.sql_text):
                continue
            if e.parse_error:
                raise AnalysisError(f'{rel}:{e.lineno}: SQL naming {TBL} does not parse: {e.parse_error}')
            for st in e.stmts():
                w = [t for t, _ in sf.written_tables(st) if t.lower() == TBL]
                setcol = st.kind == 'update' and any(c.kind == 'col' and c.parts[-1].lower() == COL for c, _ in st.sets)
                if w or setcol:
                    # the only Python writer is the creation of the row (a plain INSERT next to the INSERT of the instance itself, inside Instance.create or a
                    # helper nested in / extracted from it - the name of that helper is not interpreted); anything else is a direct write
                    scope_fns = {e.fn}
                    cur_ = e.fn
                    while cur_ is not None:
                        cur_ = m.enclosing_func(cur_)
                        scope_fns.add(cur_)
                    companions = [e2 for e2 in sf.embedded_in(m) if e2.sql_text and not e2.parse_error and len(e2.stmts()) == 1 and e2.stmts()[0].kind == 'insert'
                                  and e2.stmts()[0].table.lower() == 'instances' and (e2.fn in scope_fns or (e2.fn is not None and m.enclosing_func(e2.fn) in scope_fns - {None}))]
                    ok = st.kind == 'insert' and rel == INSTANCE_PY and bool(companions)
                    if ok:
                        # creation insert: free = the same value as instances.cores_mcpu
                        ins, _, _ = sr.insert_colmap(st)
                        elts = sr.args_tuple(e.fn, e.call.args[1])
                        params = sr.params_in_order(st)
                        bind = {id(p): pf.nsrc(pf.expand_locals(e.fn, x)) for p, x in zip(params, elts or [])}
                        free_arg = bind.get(id(ins.get(COL)))
                        cores_arg = None
                        for e2 in companions:
                            st2 = e2.stmts()[0]
                            ins2, _, _ = sr.insert_colmap(st2)
                            el2 = sr.args_tuple(e2.fn, e2.call.args[1])
                            b2 = {id(p): pf.nsrc(pf.expand_locals(e2.fn, x)) for p, x in zip(sr.params_in_order(st2), el2 or [])}
                            cores_arg = b2.get(id(ins2.get('cores_mcpu')))
                        ctx.need(free_arg is not None and cores_arg is not None, f'{rel}::{e.qual}: cannot bind the values inserted as instances.cores_mcpu / {COL}')
                        ctx.check(free_arg == cores_arg and not st.on_dup, 'R1', f'{rel}::instance creation::initial {COL}',
                                  f'a new instance starts with free cores `{free_arg}` but total cores `{cores_arg}`', m.path, e.lineno)
                    else:
                        ctx.bad('R1', f'{rel}::{e.qual}::writes {COL}', f'Python code writes {COL} directly: {text(st)[:100]}', m.path, e.lineno)
    for w in ALLOWED:
        if w.startswith('sql:') and w[4:] not in writes:
            ctx.info(f'expected writer {w} of {COL} not found (R3/R2 below decide whether that loses cores)')

    # ---- R2 acquire ---------------------------------------------------------------------------
    r = prog.routine('add_attempt')
    a = r.ast
    rl = cf4.RoutineLocals(a)
    ws = writes.get('add_attempt', [])
    ctx.need(len(ws) == 1, 'add_attempt: expected exactly one write of free_cores_mcpu')
    st, guard0, v = ws[0]
    guard = rl.expand_guard(guard0)
    aparams = [p_[1].lower() for p_ in a.params]
    in_params = {p_[1].lower() for p_ in a.params if (p_[0] or 'IN').upper() == 'IN'}
    cons = f'{r.file}::add_attempt::{text(st)[:70]}'
    d = sr.dup_increment(COL, v, {})
    if d is None:
        ctx.need(_clamped(v), f'add_attempt: free_cores_mcpu is set to `{text(v)}`, which is not recognised as free_cores_mcpu -/+ <amount>')
        ctx.bad('R2', cons + '::amount', f'acquire writes `{text(v)}` (a clamped / conditional value), expected free_cores_mcpu - <cores of the job>: a clamp hides an oversubscription that the release '
                'later turns into free > total - live', r.file, r.line_of(st))
        amount_param = None
    else:
        sign, amt = d
        amount_param = amt.parts[0].lower() if sr.is_var(amt) and amt.parts[0].lower() in in_params else None
        ctx.need(amount_param is not None or amt.kind == 'lit' or sr.is_var(amt), f'add_attempt: the amount `{text(amt)}` taken from free_cores_mcpu is not a parameter')
        ctx.check(sign == -1 and amount_param is not None, 'R2', cons + '::amount', f'acquire writes `{text(v)}`, expected free_cores_mcpu - <the cores parameter>', r.file, r.line_of(st))
    inst_param = _name_key(st.where)
    ctx.check(inst_param is not None and inst_param in in_params, 'R2', cons + '::key', f'acquire is not keyed by the attempt\'s instance: WHERE {text(st.where)}', r.file, r.line_of(st))
    # once: the decrement runs only when the idempotent INSERT of the attempt row really inserted (ROW_COUNT() = 1 evaluated directly after it, in the IF or in a local)
    prev = _prev_sibling(a.body)
    rc_sources: List[Tuple[N, Set[int]]] = []
    for c, pol in guard0:
        if not pol:
            continue
        owner = rl.cond_owner.get(id(c))
        for x in sf.conjuncts(c):
            vals_ = _rowcount_values(x)
            if vals_ is not None and owner is not None:
                rc_sources.append((owner, vals_))
            elif sr.is_var(x) or (x.kind == 'bin' and x.op in ('=', '<=>') and (sr.is_var(x.left) or sr.is_var(x.right))):
                # a local holding the test / the count:  SET is_new = ROW_COUNT() = 1; IF is_new  |  SET n = ROW_COUNT(); IF n = 1
                var_ = x if sr.is_var(x) else (x.left if sr.is_var(x.left) else x.right)
                asg = rl.assigns.get(var_.parts[0].lower(), [])
                if len(asg) == 1 and asg[0][1].kind == 'set' and asg[0][2] is not None:
                    rhs = asg[0][2]
                    full = rhs if sr.is_var(x) else sf.subst(x, lambda n, rhs=rhs, var_=var_: rhs if (sr.is_var(n) and n.parts[0].lower() == var_.parts[0].lower()) else None)
                    vals_ = _rowcount_values(full)
                    if vals_ is not None:
                        rc_sources.append((asg[0][1], vals_))
    once = [src for src, vals_ in rc_sources if vals_ == {1}]
    loose = [(src, vals_) for src, vals_ in rc_sources if vals_ != {1}]
    if not once and not loose:
        odd = sorted({x for c, _ in guard for x in rl.opaque_locals(c)})
        ctx.need(not odd, f'add_attempt: cannot decide whether the decrement runs once per attempt: the path condition tests {odd}, which are not resolved')
    ctx.check(bool(once), 'R2', cons + '::once', (f'the decrement is guarded by a ROW_COUNT() test that also holds for {sorted(loose[0][1] - {1})} (0 / 2 = the attempt row already existed)' if loose else
              f'the decrement is not guarded by ROW_COUNT() = 1 (path condition {[text(c) for c, _ in guard]})') + ': a repeated schedule/start/complete report for the same attempt would take the cores again',
              r.file, r.line_of(st))
    # the statement directly before the ROW_COUNT() test is the idempotent insert of this attempt
    ok_prev = False
    ins_roles: Dict[str, str] = {}
    for src in once or [x for x, _ in loose]:
        p = prev.get(id(src))
        if p is not None and p.kind == 'insert' and p.table.lower() == 'attempts' and bool(p.on_dup) and all(text(c).lower().split('.')[-1] == text(x).lower().split('.')[-1] and c.kind == 'col' and x.kind == 'col' for c, x in p.on_dup):
            ins, _, _ = sr.insert_colmap(p)
            roles = {k: (ins[k].parts[0].lower() if k in ins and sr.is_var(ins[k]) else None) for k in ('batch_id', 'job_id', 'attempt_id', 'instance_name')}
            if all(x is not None and x in in_params for x in roles.values()) and len(set(roles.values())) == 4 and roles['instance_name'] == inst_param:
                ok_prev = True
                ins_roles = roles  # type: ignore[assignment]
    if rc_sources:
        ctx.check(ok_prev, 'R2', f'{r.file}::add_attempt::ROW_COUNT source', 'ROW_COUNT() is not evaluated immediately after `INSERT INTO attempts .. ON DUPLICATE KEY UPDATE <no-op>` for this attempt '
                  '(keyed by the batch / job / attempt / instance parameters)', r.file, r.line)
    aivars = _inst_state_vars(a)
    acq_states = _inst_states(guard, set(aivars))
    # callers
    n_call = 0
    for name, rr in sorted(prog.routines.items()):
        for s_ in sf.all_statements(rr.ast.body):
            if s_.kind == 'call' and s_.name.lower() == 'add_attempt':
                n_call += 1
                ctx.need(len(s_.args) == len(aparams), f'{name}: CALL add_attempt passes {len(s_.args)} arguments, the procedure takes {len(aparams)}')
                ctx.need(bool(ins_roles) and amount_param is not None, f'{name}: the roles of the parameters of add_attempt are not resolved (see R2 on add_attempt)')
                arg = {role: s_.args[aparams.index(pn)] for role, pn in ins_roles.items()}
                amt_arg = s_.args[aparams.index(amount_param)]
                ctx.need(sr.is_var(arg['batch_id']) and sr.is_var(arg['job_id']), f'{name}: CALL add_attempt: the job key arguments are not plain variables')
                key = (arg['batch_id'].parts[0].lower(), arg['job_id'].parts[0].lower())
                cv = _cores_vars(rr.ast, key)
                ctx.need(bool(cv), f'{name}: jobs.cores_mcpu of job ({key[0]}, {key[1]}) is not read into a variable before CALL add_attempt')
                ok = sr.is_var(amt_arg) and amt_arg.parts[0].lower() in cv
                ctx.check(ok, 'R2', f'{rr.file}::{name}::CALL add_attempt', f'add_attempt is called with amount `{text(amt_arg)}`; the amount must be the cores_mcpu of job ({key[0]}, {key[1]}) '
                          f'(variables bound to it: {sorted(cv)})', rr.file, rr.line_of(s_))
    ctx.unit('add_attempt_call_sites', n_call)

    # ---- R3 release ---------------------------------------------------------------------------
    rel_states: Dict[str, Set[str]] = {}
    enders = []
    for name, rr in sorted(prog.routines.items()):
        for s_ in sf.all_statements(rr.ast.body):
            if s_.kind == 'update' and [t.lower() for t in sf.table_names(s_.frm)] == ['attempts'] and any(c.parts[-1].lower() == 'end_time' for c, _ in s_.sets if c.kind == 'col'):
                akey = next((b_.parts[0].lower() for c in sf.conjuncts(s_.where) if c.kind == 'bin' and c.op == '=' for a_, b_ in ((c.left, c.right), (c.right, c.left))
                             if a_.kind == 'col' and a_.parts[-1].lower() == 'attempt_id' and sr.is_var(b_) and b_.parts[0].lower() != 'attempt_id'), None)
                jkey = cf4.job_key(s_.where)
                enders.append((name, rr, s_, (jkey + (akey,)) if (jkey is not None and akey is not None) else None))
    ctx.need(len(enders) >= 3, 'fewer than three routines set attempts.end_time')
    for name, rr, s_, single in enders:
        cons = f'{rr.file}::{name}::ends attempt'
        if single is None:
            ctx.check(name == 'deactivate_instance', 'R3', cons, f'{name} sets end_time on many attempts at once without being the deactivation path', rr.file, rr.line_of(s_))
            continue
        rl = cf4.RoutineLocals(rr.ast)
        ws = writes.get(name, [])
        ctx.check(len(ws) == 1, 'R3', cons + '::releases', f'{name} ends an attempt but contains {len(ws)} release(s) of its cores' + (': the cores stay taken' if not ws else ''), rr.file, rr.line_of(s_))
        if len(ws) != 1:
            continue
        st, guard0, v = ws[0]
        guard = rl.expand_guard(guard0)
        cv = _cores_vars(rr.ast, single[:2])
        d = sr.dup_increment(COL, v, {})
        if d is None:
            ctx.need(_clamped(v), f'{name}: free_cores_mcpu is set to `{text(v)}`, which is not recognised as free_cores_mcpu + <amount>')
            ctx.bad('R3', cons + '::amount', f'release writes `{text(v)}` (a clamped / conditional value); expected free_cores_mcpu + <cores_mcpu of the job>', rr.file, rr.line_of(st))
        else:
            sign, amt = d
            ctx.need(bool(cv), f'{name}: jobs.cores_mcpu of job {single[:2]} is not read into a variable')
            ctx.check(sign == 1 and sr.is_var(amt) and amt.parts[0].lower() in cv, 'R3', cons + '::amount',
                      f'release writes `{text(v)}`; expected free_cores_mcpu + <cores_mcpu of job {single[:2]}> ({sorted(cv)})', rr.file, rr.line_of(st))
        rparams = {p_[1].lower() for p_ in rr.ast.params}
        nk = _name_key(st.where)
        if nk is not None and nk not in rparams:
            # keyed by a local: fine when it holds attempts.instance_name of this attempt, otherwise not decided
            from_attempt = any(q.kind == 'select' and q.into and q.frm is not None and [t.lower() for t in sf.table_names(q.frm)] == ['attempts'] and
                               any(c.kind == 'col' and c.parts[-1].lower() == 'instance_name' and sr.is_var(t_) and t_.parts[0].lower() == nk for (c, _), t_ in zip(q.cols, q.into))
                               for q in sf.all_statements(rr.ast.body))
            ctx.need(from_attempt, f'{name}: the release is keyed by `{nk}`, whose relation to the attempt\'s instance is not resolved')
        ctx.check(nk is not None, 'R3', cons + '::key', f'release is not keyed by the instance name: WHERE {text(st.where)}', rr.file, rr.line_of(st))
        # guard: <end_time of this attempt> IS NULL, read FOR UPDATE BEFORE the routine's UPDATE attempts
        evars = {}
        for q in sf.all_statements(rr.ast.body):
            if q.kind == 'select' and q.into and q.frm is not None and [t.lower() for t in sf.table_names(q.frm)] == ['attempts'] and cf4.job_key(q.where) == single[:2] and \
                    sr.has_eq(q.where, 'attempt_id', single[2]):
                for (c, _), var in zip(q.cols, q.into):
                    if c.kind == 'col' and c.parts[-1].lower() == 'end_time' and sr.is_var(var):
                        evars[var.parts[0].lower()] = q
        ivars = _inst_state_vars(rr.ast)
        opaque = sorted({x for c, _ in guard for x in rl.opaque_locals(c)})
        # may the release run for an attempt whose end_time was already set?
        again = all(pol in may(c, lambda n: 12345 if (sr.is_var(n) and n.parts[0].lower() in evars) else UNKNOWN) for c, pol in guard)
        if again:
            ctx.need(not opaque, f'{name}: cannot decide whether the release runs once per attempt: the path condition tests {opaque}, which are not resolved')
        ctx.check(not again, 'R3', cons + '::once', f'the release is not guarded by `<end_time read from this attempt> IS NULL` (path condition {[text(c) for c, _ in guard]}): '
                  'a second completion/unschedule report for the same attempt would free the cores twice', rr.file, rr.line_of(st))
        # the release may depend on nothing but the instance state and "this attempt had not ended yet": any further condition
        # (job state, current attempt id, ..) means some ending attempts never give their cores back
        extra = []
        for c, pol in guard:
            for x in sf.conjuncts(c) if pol else [c]:
                names = {n.parts[0].lower() for n in sf.cols_in(x) if sr.is_var(n)} | {text(n).lower() for n in sf.cols_in(x) if not sr.is_var(n)}
                if not names <= (set(ivars) | set(evars)):
                    extra.append(('' if pol else 'NOT ') + text(x))
        if extra:
            ctx.need(not opaque, f'{name}: the release additionally depends on {extra}; {opaque} are not resolved, so whether every ending attempt gives its cores back is not decided')
        ctx.check(not extra, 'R3', cons + '::unconditional', f'the release additionally requires {extra}: an attempt that ends when that does not hold (e.g. an attempt that is not the job\'s current '
                  'one) keeps its cores until the instance is deactivated', rr.file, rr.line_of(st))
        if evars:
            q = list(evars.values())[0]
            order_ok = 0 <= _flat_index(rr.ast.body, q) < _flat_index(rr.ast.body, s_) and q.lock == 'FOR UPDATE'
            ctx.check(order_ok, 'R3', cons + '::read before write', 'the attempt\'s end_time is not read FOR UPDATE before this routine overwrites it (the guard would always see the new value, or a stale one)',
                      rr.file, rr.line_of(q))
        rel_states[name] = _inst_states(guard, set(ivars))

    # ---- R4 symmetry of the instance-state guards ---------------------------------------------------
    for name, states in sorted(rel_states.items()):
        lost = sorted((acq_states & {'pending', 'active'}) - states)
        ctx.check(not lost, 'R4', f'sql::{name}::release enabled for acquire states',
                  f'cores are taken when the instance is in {sorted(acq_states & {"pending", "active"})} but {name} gives them back only when it is in {sorted(states & {"pending", "active"})}: '
                  f'an attempt that ends while its instance is {lost} leaves free_cores_mcpu below total - live attempts until the instance is deactivated',
                  prog.routine(name).file, prog.routine(name).line)

    # ---- R5 deactivation ------------------------------------------------------------------------------
    r = prog.routine('deactivate_instance')
    ws = writes.get('deactivate_instance', [])
    ctx.need(ws, 'deactivate_instance no longer writes free_cores_mcpu')
    st, guard, v = ws[0]
    cons = f'{r.file}::deactivate_instance'
    tabs = [t for t in sf.from_tables(st.frm) if t.kind == 'table']
    amap = {(t.alias or t.name).lower(): t.name.lower() for t in tabs}

    def tcol(n: N) -> Optional[Tuple[Optional[str], str]]:
        """(table or None when unqualified, column) with aliases resolved."""
        if n.kind != 'col':
            return None
        return (amap.get(n.parts[-2].lower(), n.parts[-2].lower()) if len(n.parts) > 1 else None, n.parts[-1].lower())
    vv = tcol(v)
    reset_ok = len(ws) == 1 and vv is not None and vv[1] == 'cores_mcpu' and vv[0] in (None, 'instances')
    ctx.check(reset_ok, 'R5', cons + '::reset', f'deactivation sets free cores to `{text(v)}`, expected the instance\'s cores_mcpu', r.file, r.line_of(st))
    conds = list(sf.conjuncts(st.where))
    for j in (st.frm.joins if st.frm is not None and st.frm.kind == 'from' else []):
        if getattr(j, 'on', None) is not None:
            conds += sf.conjuncts(j.on)
        using = getattr(j, 'using', None)
        if using and 'name' in [str(u).lower() for u in using]:
            conds.append(N('bin', op='=', left=N('col', parts=['instances', 'name']), right=N('col', parts=[TBL, 'name'])))
    joined = any(c.kind == 'bin' and c.op == '=' and {tcol(c.left), tcol(c.right)} == {('instances', 'name'), (TBL, 'name')} for c in conds)
    inst_key = any(c.kind == 'bin' and c.op == '=' and ((tcol(a_) == ('instances', 'name') and sr.is_var(b_)) or (tcol(a_) == (TBL, 'name') and sr.is_var(b_) and joined))
                   for c in conds for a_, b_ in ((c.left, c.right), (c.right, c.left)))
    sets_inactive = any(c.kind == 'col' and c.parts[-1].lower() == 'state' and x.kind == 'lit' and x.value == 'inactive' and (tcol(c)[0] in (None, 'instances')) for c, x in st.sets)
    ctx.check(joined and inst_key and sets_inactive, 'R5', cons + '::same statement as state', 'the reset is not done together with state = inactive for the same instance row', r.file, r.line_of(st))
    dparams = {p_[1].lower() for p_ in r.ast.params}
    ends_all = [s_ for n_, rr, s_, single in enders if n_ == 'deactivate_instance' and any(
        c.kind == 'bin' and c.op == '=' and a_.kind == 'col' and a_.parts[-1].lower() == 'instance_name' and sr.is_var(b_) and b_.parts[0].lower() in dparams
        for c in sf.conjuncts(s_.where) for a_, b_ in ((c.left, c.right), (c.right, c.left)))]
    ctx.check(len(ends_all) == 1, 'R5', cons + '::ends all attempts', 'deactivation does not set end_time on every attempt of the instance', r.file, r.line)

    # ---- R6 python mirror -----------------------------------------------------------------------------
    m = pf.load('batch/batch/driver/job.py')
    procs_with_delta = set()
    for name, rr in prog.routines.items():
        for s in sf.all_statements(rr.ast.body):
            if s.kind == 'select' and not s.into and any((al or text(c)).lower().split('.')[-1] == 'delta_cores_mcpu' for c, al in s.cols):
                procs_with_delta.add(name)
    n6 = 0
    declined6: List[str] = []
    # module-level helpers of job.py that (transitively) reach adjust_free_cores_in_memory: seen through by inlining
    toplevel = {f.name: f for f in m.tree.body if isinstance(f, (ast.FunctionDef, ast.AsyncFunctionDef))}
    reaches_adjust: Set[str] = set()
    changed = True
    while changed:
        changed = False
        for nm, f in toplevel.items():
            if nm in reaches_adjust:
                continue
            for c in ast.walk(f):
                if isinstance(c, ast.Call) and ((isinstance(c.func, ast.Attribute) and c.func.attr == 'adjust_free_cores_in_memory') or
                                                (isinstance(c.func, ast.Name) and c.func.id in reaches_adjust)):
                    reaches_adjust.add(nm)
                    changed = True
                    break
    # functions that themselves (or through callees) CALL a delta-returning procedure are call sites in their own right, not helpers
    site_fns: Set[str] = set()
    for e in sf.embedded_in(m):
        if e.sql_text is not None and e.fn is not None:
            sts = e.stmts()
            if len(sts) == 1 and sts[0].kind == 'call' and sts[0].name in procs_with_delta:
                site_fns.add(e.fn.name)
    changed = True
    while changed:
        changed = False
        for nm, f in toplevel.items():
            if nm not in site_fns and any(isinstance(c, ast.Call) and isinstance(c.func, ast.Name) and c.func.id in site_fns for c in ast.walk(f)):
                site_fns.add(nm)
                changed = True
    helpers = reaches_adjust - site_fns
    for e in sf.embedded_in(m):
        if e.sql_text is None:
            continue
        sts = e.stmts()
        if len(sts) == 1 and sts[0].kind == 'call' and sts[0].name in procs_with_delta:
            n6 += 1
            proc = sts[0].name
            cons = f'{m.rel}::{m.qualname(e.fn)}::CALL {proc}'
            ctx.need(e.fn is not None and e.fn.name in toplevel and toplevel[e.fn.name] is e.fn, f'{cons}: the call site is not a module-level function')
            m2, il = inline.inline_functions(_hoist_test_calls(m, e.fn.name, helpers), e.fn.name, exclude=tuple(n_ for n_ in toplevel if n_ not in helpers))
            fn = m2.func(e.fn.name)
            g = pf.cfg(fn)
            call2, rvn = cf4.result_local(m2, fn, proc)   # (AnalysisError -> declined) the result row may be bound to any local name
            cn = g.node_of(call2)
            ctx.need(len(cn) == 1, f'{cons}: CFG node of the CALL not found')
            want = f"{rvn}['delta_cores_mcpu']"

            def _delta_expr(x: ast.AST) -> bool:
                x = pf.expand_locals(fn, x)
                if isinstance(x, ast.Call) and isinstance(x.func, ast.Attribute) and x.func.attr == 'get' and x.args and not x.keywords:
                    return pf.nsrc(x.func.value) == rvn and pf.const_str(x.args[0]) == 'delta_cores_mcpu' and (len(x.args) == 1 or (isinstance(x.args[1], ast.Constant) and x.args[1].value in (0, None)))
                return pf.nsrc(x) == want

            def _is_adj(c: ast.Call, strict: bool = True) -> bool:
                if not (isinstance(c.func, ast.Attribute) and c.func.attr == 'adjust_free_cores_in_memory'):
                    return False
                return not strict or (len(c.args) == 1 and not c.keywords and _delta_expr(c.args[0]))
            adj = g.find(lambda n: any(_is_adj(c) for c in pf.node_calls(n)))
            anyadj = g.find(lambda n: any(_is_adj(c, False) for c in pf.node_calls(n)))
            hidden = [c for c in ast.walk(fn) if isinstance(c, ast.Call) and isinstance(c.func, ast.Name) and c.func.id in helpers]
            if hidden:
                declined6.append(f'{cons}: the in-memory adjustment is made by helper `{hidden[0].func.id}` called in a form that cannot be inlined (skipped: {il.skipped})')
                continue
            # names whose value derives from the result row
            tainted = {rvn}
            grew = True
            while grew:
                grew = False
                for nm_, vs_ in pf.assignments(fn).items():
                    if nm_ not in tainted and any(not isinstance(v_, ast.arg) and (pf.names_in(v_) & tainted) for v_ in vs_):
                        tainted.add(nm_)
                        grew = True
            if not anyadj:
                # the row (or its delta) handed to other code: the adjustment may be made there (a method extracted onto another object) - not seen through
                escapes = [c for c in ast.walk(fn) if isinstance(c, ast.Call) and c is not call2 and not (isinstance(c.func, ast.Attribute) and isinstance(c.func.value, ast.Name) and c.func.value.id in ('log', 'logging', 'logger'))
                           and any((isinstance(a_, ast.Name) and a_.id in tainted) or _delta_expr(a_) for a_ in list(c.args) + [k.value for k in c.keywords])]
                if escapes:
                    declined6.append(f'{cons}: no in-memory adjustment in the caller, but the procedure result is passed to `{pf.nsrc(escapes[0].func)}` (line {escapes[0].lineno}), which is not seen through')
                    continue
            odd = [n for n in anyadj if n not in adj]
            odd_tainted = [n for n in odd if any(pf.names_in(c.args[0] if c.args else c) & tainted for c in pf.node_calls(n) if _is_adj(c, False))]
            if odd_tainted or (len(adj) > 1 and not odd):
                twice = any(b_.id in g.reachable_from(a_, edge_ok=lambda x, y, lab: lab != 'exc') for a_ in adj for b_ in adj if a_ is not b_)
                if odd_tainted or not twice:
                    declined6.append(f'{cons}: {len(anyadj)} in-memory adjustments whose amounts / mutual exclusion are not resolved (line {(odd_tainted or adj)[0].lineno})')
                    continue
            ctx.check(len(adj) == 1 and len(anyadj) == 1, 'R6', cons + '::applies delta', f'the caller applies {want} to the in-memory free cores {len(adj)} time(s) '
                      f'({len(anyadj)} in-memory adjustment(s) in all), expected exactly once', m.path, e.lineno)
            if len(adj) == 1:
                call = [c for c in pf.node_calls(adj[0]) if _is_adj(c)][0]
                # a refused report must still be mirrored: no normal path from the CALL to the end of the function may skip the adjustment because of rc.
                # Tests on the delta itself, on the instance object and on the instance name are the legitimate reasons to skip it.
                root = call.func.value
                while isinstance(root, (ast.Attribute, ast.Subscript)):
                    root = root.value
                legit = ({root.id} if isinstance(root, ast.Name) else set())
                params = [p_[1].lower() for p_ in prog.routine(proc).ast.params]
                ipos = [i for i, p_ in enumerate(params) if p_ == 'in_instance_name']
                elts = sr.args_tuple(fn, call2.args[1]) if len(call2.args) > 1 else None
                ctx.need(len(ipos) == 1 and elts is not None and len(elts) == len(params), f'{cons}: cannot bind the CALL arguments to the procedure parameters')
                legit |= pf.names_in(elts[ipos[0]])   # the instance name handed to the procedure (and the object it is taken from)
                asg_ = pf.assignments(fn)
                grew = True
                while grew:   # aliases: `instance = target` makes a test of `target` a test of the instance
                    grew = False
                    for nm_, vs_ in asg_.items():
                        for v_ in vs_:
                            if isinstance(v_, ast.Name) and ((nm_ in legit) != (v_.id in legit)):
                                legit |= {nm_, v_.id}
                                grew = True

                def _explains(n) -> bool:
                    if n in adj:
                        return True
                    if n.kind != 'test' or n.ast is None:
                        return False
                    x = pf.expand_locals(fn, n.ast)
                    return bool((pf.names_in(x) | pf.names_in(n.ast)) & legit) or any(_delta_expr(s_) for s_ in ast.walk(x)) or any(_delta_expr(s_) for s_ in ast.walk(n.ast))
                skip = g.path_avoiding(cn[0], lambda n: n is g.exit, _explains, edge_ok=lambda a_, b_, lab: lab != 'exc')
                rc_tests = [n for n in (skip or []) if n.kind == 'test' and n.ast is not None and any(
                    (isinstance(s_, ast.Subscript) and isinstance(s_.value, ast.Name) and s_.value.id == rvn and pf.const_str(s_.slice) == 'rc') for s_ in ast.walk(pf.expand_locals(fn, n.ast)))]
                if skip is not None and not rc_tests:
                    via = [x for x in skip if x.kind in ('test', 'return')][-3:]
                    declined6.append(f'{cons}: a path from the CALL to the end of the function (' + ', '.join(f'line {x.lineno} `{pf.nsrc(x.ast)[:40]}`' for x in via) +
                                     ') skips the in-memory adjustment for a reason that is neither a test of rc, of the delta nor of the instance: not decided')
                    continue
                ctx.check(skip is None, 'R6', cons + '::before rc', 'the in-memory adjustment happens only after the rc test' +
                          (f' (line {rc_tests[0].lineno} `{pf.nsrc(rc_tests[0].ast)[:50]}` leaves the function first)' if rc_tests else '') + ': a refused report that still changed the database counter is not mirrored '
                          f'(e.g. {proc} returns rc = 1 with delta_cores_mcpu != 0 when the attempt was recorded but the job could not change state: the database row moved, the in-memory copy does not)',
                          m.path, adj[0].lineno)
                # the instance whose in-memory counter is adjusted is the instance named in the CALL (the database adjusted THAT row)
                recv = pf.nsrc(call.func.value)
                verdict, why = _same_instance(fn, call.func.value, elts[ipos[0]])
                ctx.need(verdict != 'unknown', f'{cons}: cannot decide whether the in-memory adjustment is applied to the instance named in the CALL: {why}')
                ctx.check(verdict == 'same', 'R6', cons + '::same instance', f'the procedure adjusts the database counter of instance `{pf.nsrc(elts[ipos[0]])}` but the in-memory adjustment is applied to `{recv}`, '
                          f'{why}: one instance\'s recorded free cores drift from its attempts', m.path, adj[0].lineno)
    ctx.need(not declined6, ' | '.join(declined6))
    ctx.need(n6 >= 5, f'only {n6} call sites of procedures returning delta_cores_mcpu found in driver/job.py')
    # optimistic decrement in the pool scheduler is undone on failure
    pm = pf.load('batch/batch/driver/instance_collection/pool.py')
    dec = [n for n in ast.walk(pm.tree) if isinstance(n, ast.Call) and pf.dotted(n.func) is not None and pf.dotted(n.func).endswith('.adjust_free_cores_in_memory')]
    def _job_cores(x: ast.AST, where: ast.AST) -> bool:
        """<row>['cores_mcpu'] of the job record being scheduled (whatever the row variable is called; a local holding it is followed)."""
        f_ = pm.enclosing_func(where)
        x = pf.expand_locals(f_, x) if f_ is not None else x
        return isinstance(x, ast.Subscript) and isinstance(x.value, ast.Name) and pf.const_str(x.slice) == 'cores_mcpu'
    one = [c for c in dec if len(c.args) == 1 and not c.keywords]
    neg = [c for c in one if isinstance(c.args[0], ast.UnaryOp) and isinstance(c.args[0].op, ast.USub) and _job_cores(c.args[0].operand, c)]
    pos = [c for c in one if _job_cores(c.args[0], c)]
    ctx.need(len(neg) == 1, 'pool.py: optimistic decrement not found')
    tries = [tr for tr in ast.walk(pm.tree) if isinstance(tr, ast.Try) and any(isinstance(x, ast.Call) and pf.dotted(x.func) == 'schedule_job' for b in tr.body for x in ast.walk(b))]
    sched_calls = [x for x in ast.walk(pm.tree) if isinstance(x, ast.Call) and pf.dotted(x.func) == 'schedule_job']
    ctx.need(bool(sched_calls), 'pool.py: call of schedule_job not found')
    in_handler = [c for tr in tries for h in tr.handlers for c in ast.walk(h) if c in dec]
    # an adjustment in the handler whose amount is not recognised as the job's cores is not judged
    ctx.need(all(c in pos for c in in_handler), f'pool.py: the except handler around schedule_job adjusts the in-memory free cores by `{pf.nsrc(in_handler[0].args[0]) if in_handler and in_handler[0].args else "?"}`, '
             'which is not recognised as the cores of the job record')
    ctx.check(len(in_handler) == 1, 'R6', f'{pm.rel}::schedule_loop_body::optimistic decrement undone',
              ('schedule_job is not called inside a try statement: ' if not tries else '') + f'the in-memory cores taken before schedule_job are given back {len(in_handler)} time(s) in the except handler(s) around schedule_job, expected once',
              pm.path, neg[0].lineno)

    # ---- R8 closed world of the in-memory mirror ----------------------------------------------------------
    r8(ctx, m, pm, neg, in_handler, procs_with_delta)

    # ---- R9 settlement of the scheduler's in-memory reservation -----------------------------------------------
    declined9: Optional[str] = None
    try:
        r9(ctx, prog, m, procs_with_delta)
    except AnalysisError as e_:
        declined9 = str(e_)

    # ---- R7 lock discipline of the guard reads (last: its declines must not hide verdicts of the other rules) ------
    try:
        r7(ctx, prog, writes)
    except AnalysisError as e_:
        if declined9 is not None:
            raise AnalysisError(f'{declined9} | {e_}')
        raise
    ctx.need(declined9 is None, declined9 or '')
