"""C10 Instance free-core accounting is exact  (structural clauses).

  R1  closed world: free_cores_mcpu is written only by add_attempt (-), mark_job_complete (+), unschedule_job (+),
      deactivate_instance (reset to cores_mcpu) and the creation insert (= worker cores)
  R2  acquire once: the decrement is dominated by ROW_COUNT() = 1 directly after the idempotent INSERT INTO attempts;
      the amount is the job's own cores_mcpu at every CALL add_attempt site
  R3  release once: each increment is dominated by `cur_end_time IS NULL` where cur_end_time was read FOR UPDATE from the
      same attempt row BEFORE the routine's UPDATE attempts SET end_time; the amount is the job's cores_mcpu; every routine
      that ends a single attempt contains the release
  R4  acquire and release are enabled for the same instance states (otherwise cores acquired in a state with no release stay lost
      until deactivation)
  R5  deactivation resets to the instance's total cores and ends every attempt on it; inactive instance => all cores free
  R6  Python mirror: every caller of a procedure returning delta_cores_mcpu applies it to the in-memory copy before acting on rc;
      the scheduler's optimistic decrement is undone on the exception path
Not decided: histories as such.
"""
from __future__ import annotations

import ast
from typing import Dict, List, Optional, Set, Tuple

from engines import pyfacts as pf
from engines import sqlfront as sf
from engines import sqlrules as sr
from engines.common import AnalysisError, Ctx
from engines.sqlast import N, text
from engines.sqleval import UNKNOWN, may

META = dict(
    category='other',
    text='Acquire/release pairing obligations decided on every writer of the free-core column in the effective SQL program, with the guards that make '
         'each of them happen at most once per attempt, plus the Python in-memory mirror. Static because each obligation is a dominance/ordering fact in the routine text.',
    note='Trusted: SQL parser, migration replay; MySQL ROW_COUNT() = 1 iff the INSERT..ON DUPLICATE KEY UPDATE inserted a new row. The inductive argument over histories is not decided.',
    technique='static analysis: closed-world writer scan + guard dominance and statement ordering in stored routines + CFG checks on Python callers',
    design_ref='DESIGN.md §3 C10',
)

TBL = 'instances_free_cores_mcpu'
COL = 'free_cores_mcpu'
INST_STATES = ['pending', 'active', 'inactive', 'deleted']
ALLOWED = {'sql:add_attempt': '-', 'sql:mark_job_complete': '+', 'sql:unschedule_job': '+', 'sql:deactivate_instance': 'reset',
           'py:batch/batch/driver/instance.py::Instance.create.insert': 'init'}


def _free_core_writes(body) -> List[Tuple[N, tuple, N]]:
    out = []
    for st, guard in sf.guarded_statements(body):
        if st.kind == 'update':
            names = [t.lower() for t in sf.table_names(st.frm)]
            for c, v in st.sets:
                if c.kind == 'col' and c.parts[-1].lower() == COL and (TBL in names):
                    out.append((st, guard, v))
        elif st.kind in ('insert', 'delete') and any(t.lower() == TBL for t, _ in sf.written_tables(st)):
            out.append((st, guard, N('lit', value=None)))
    return out


def _cores_vars(routine: N) -> Set[str]:
    """variables holding jobs.cores_mcpu of (in_batch_id, in_job_id)."""
    out = set()
    for st in sf.all_statements(routine.body):
        if st.kind == 'select' and st.into and st.frm is not None and [t.lower() for t in sf.table_names(st.frm)] == ['jobs'] \
                and sr.has_eq(st.where, 'batch_id', 'in_batch_id') and sr.has_eq(st.where, 'job_id', 'in_job_id'):
            for (c, _), v in zip(st.cols, st.into):
                if c.kind == 'col' and c.parts[-1].lower() == 'cores_mcpu' and sr.is_var(v):
                    out.add(v.parts[0].lower())
    return out


def _inst_states(guard, var: str) -> Set[str]:
    out = set()
    for s in INST_STATES:
        if all(pol in may(c, lambda n: s if (n.kind == 'col' and n.parts[-1].lower() == var) else UNKNOWN) for c, pol in guard):
            out.add(s)
    return out


def _flat_index(body, target: N) -> int:
    for i, st in enumerate(sf.all_statements(body)):
        if st is target:
            return i
    return -1


def run(ctx: Ctx) -> None:
    ctx.explanation = 'Acquire/release obligations on every writer of instances_free_cores_mcpu.free_cores_mcpu in the effective SQL program and its Python mirror.'
    ctx.rule('R1', 'closed world of writers of free_cores_mcpu with their direction (-, +, reset, init)', 5)
    ctx.rule('R2', 'acquire once: decrement dominated by ROW_COUNT() = 1 right after the idempotent attempts insert; amount = the job\'s cores at each CALL add_attempt', 8)
    ctx.rule('R3', 'release once: increment dominated by cur_end_time IS NULL read FOR UPDATE before end_time is written; amount = the job\'s cores; every single-attempt end releases', 13)
    ctx.rule('R4', 'acquire and release enabled for the same instance states', 2)
    ctx.rule('R5', 'deactivate_instance ends all attempts of the instance and resets free cores to total cores', 3)
    ctx.rule('R6', 'Python mirror applies delta_cores_mcpu at every call site before acting on rc; optimistic decrement undone on failure', 7)
    prog = sf.load_program()
    ctx.unit('effective_routines', len(prog.routines))

    # ---- R1 ---------------------------------------------------------------------------------
    writes: Dict[str, List[Tuple[N, tuple, N]]] = {}
    for name, r in sorted(prog.routines.items()):
        ws = _free_core_writes(r.ast.body)
        if ws:
            writes[name] = ws
            ctx.check('sql:' + name in ALLOWED, 'R1', f'{r.file}::{name}::writes {COL}', f'{name} writes {COL} but is not one of the accounting routines {sorted(ALLOWED)}', r.file, r.line_of(ws[0][0]))
    for rel in pf.walk_py(['batch/batch'] if ctx.tier == 'quick' else ['batch', 'gear', 'ci', 'auth']):
        m = pf.load(rel)
        if TBL not in m.src and COL not in m.src:
            continue
        for e in sf.embedded_in(m):
            if e.sql_text is None or (TBL not in e.sql_text and COL not in e.sql_text):
                continue
            if e.parse_error:
                raise AnalysisError(f'{rel}:{e.lineno}: SQL naming {TBL} does not parse: {e.parse_error}')
            for st in e.stmts():
                w = [t for t, _ in sf.written_tables(st) if t.lower() == TBL]
                setcol = st.kind == 'update' and any(c.kind == 'col' and c.parts[-1].lower() == COL for c, _ in st.sets)
                if w or setcol:
                    wid = f'py:{rel}::{e.qual}'
                    ok = wid in ALLOWED
                    if ok:
                        # creation insert: free = the same value as instances.cores_mcpu
                        ins, _, _ = sr.insert_colmap(st)
                        elts = sr.args_tuple(e.fn, e.call.args[1])
                        params = sr.params_in_order(st)
                        bind = {id(p): pf.nsrc(x) for p, x in zip(params, elts or [])}
                        free_arg = bind.get(id(ins.get(COL)))
                        cores_arg = None
                        for e2 in sf.embedded_in(m):
                            if e2.fn is e.fn and e2.sql_text and 'INSERT INTO instances ' in e2.sql_text:
                                st2 = e2.stmts()[0]
                                ins2, _, _ = sr.insert_colmap(st2)
                                el2 = sr.args_tuple(e2.fn, e2.call.args[1])
                                b2 = {id(p): pf.nsrc(x) for p, x in zip(sr.params_in_order(st2), el2 or [])}
                                cores_arg = b2.get(id(ins2.get('cores_mcpu')))
                        ctx.check(free_arg is not None and free_arg == cores_arg and not st.on_dup, 'R1', f'{rel}::{e.qual}::initial {COL}',
                                  f'a new instance starts with free cores `{free_arg}` but total cores `{cores_arg}`', m.path, e.lineno)
                    else:
                        ctx.bad('R1', f'{rel}::{e.qual}::writes {COL}', f'Python code writes {COL} directly: {text(st)[:100]}', m.path, e.lineno)
    for w in ALLOWED:
        if w.startswith('sql:') and w[4:] not in writes:
            ctx.info(f'expected writer {w} of {COL} not found (R3/R2 below decide whether that loses cores)')

    # ---- R2 acquire ---------------------------------------------------------------------------
    r = prog.routine('add_attempt')
    a = r.ast
    ws = writes.get('add_attempt', [])
    ctx.need(len(ws) == 1, 'add_attempt: expected exactly one write of free_cores_mcpu')
    st, guard, v = ws[0]
    cons = f'{r.file}::add_attempt::{text(st)[:70]}'
    ctx.check(text(v).lower() == f'({COL} - in_cores_mcpu)', 'R2', cons + '::amount', f'acquire writes `{text(v)}`, expected free_cores_mcpu - in_cores_mcpu', r.file, r.line_of(st))
    ctx.check(sr.has_eq(st.where, 'name', 'in_instance_name'), 'R2', cons + '::key', f'acquire is not keyed by the attempt\'s instance: WHERE {text(st.where)}', r.file, r.line_of(st))
    rc = [c for c, pol in guard if pol and text(c).upper() == '(ROW_COUNT() = 1)']
    ctx.check(bool(rc), 'R2', cons + '::once', f'the decrement is not guarded by ROW_COUNT() = 1 (path condition {[text(c) for c, _ in guard]}): a repeated schedule/start/complete '
              'report for the same attempt would take the cores again', r.file, r.line_of(st))
    # the statement directly before the IF ROW_COUNT() is the idempotent insert
    flat = list(sf.all_statements(a.body))
    ifs = [s for s in flat if s.kind == 'if' and any(text(c).upper() == '(ROW_COUNT() = 1)' for c, _ in s.branches)]
    ok_prev = False
    for blk in [a.body] + [b for s in flat if s.kind == 'if' for _, b in s.branches]:
        for i, s in enumerate(blk):
            if ifs and s is ifs[0] and i > 0:
                p = blk[i - 1]
                ok_prev = p.kind == 'insert' and p.table.lower() == 'attempts' and bool(p.on_dup) and all(text(c).lower() == text(x).lower() for c, x in p.on_dup)
                if ok_prev:
                    ins, _, _ = sr.insert_colmap(p)
                    ok_prev = [text(ins.get(k)).lower() for k in ('batch_id', 'job_id', 'attempt_id', 'instance_name')] == ['in_batch_id', 'in_job_id', 'in_attempt_id', 'in_instance_name']
    ctx.check(ok_prev, 'R2', f'{r.file}::add_attempt::ROW_COUNT source', 'ROW_COUNT() is not evaluated immediately after `INSERT INTO attempts .. ON DUPLICATE KEY UPDATE <no-op>` for this attempt',
              r.file, r.line)
    acq_states = _inst_states(guard, 'cur_instance_state')
    # callers
    n_call = 0
    for name, rr in sorted(prog.routines.items()):
        cv = _cores_vars(rr.ast)
        for s in sf.all_statements(rr.ast.body):
            if s.kind == 'call' and s.name.lower() == 'add_attempt':
                n_call += 1
                args = [text(x).lower() for x in s.args]
                ok = len(args) == 6 and args[:4] == ['in_batch_id', 'in_job_id', 'in_attempt_id', 'in_instance_name'] and args[4] in cv
                ctx.check(ok, 'R2', f'{rr.file}::{name}::CALL add_attempt', f'add_attempt is called with {args}; the amount must be the cores_mcpu of job (in_batch_id, in_job_id) '
                          f'(variables bound to it: {sorted(cv)})', rr.file, rr.line_of(s))
    ctx.unit('add_attempt_call_sites', n_call)

    # ---- R3 release ---------------------------------------------------------------------------
    rel_states: Dict[str, Set[str]] = {}
    enders = []
    for name, rr in sorted(prog.routines.items()):
        for s in sf.all_statements(rr.ast.body):
            if s.kind == 'update' and [t.lower() for t in sf.table_names(s.frm)] == ['attempts'] and any(c.parts[-1].lower() == 'end_time' for c, _ in s.sets if c.kind == 'col'):
                single = sr.has_eq(s.where, 'attempt_id', 'in_attempt_id') and sr.has_eq(s.where, 'batch_id', 'in_batch_id') and sr.has_eq(s.where, 'job_id', 'in_job_id')
                enders.append((name, rr, s, single))
    ctx.need(len(enders) >= 3, 'fewer than three routines set attempts.end_time')
    for name, rr, s, single in enders:
        cons = f'{rr.file}::{name}::ends attempt'
        if not single:
            ctx.check(name == 'deactivate_instance', 'R3', cons, f'{name} sets end_time on many attempts at once without being the deactivation path', rr.file, rr.line_of(s))
            continue
        ws = writes.get(name, [])
        ctx.check(len(ws) == 1, 'R3', cons + '::releases', f'{name} ends an attempt but contains {len(ws)} release(s) of its cores' + (': the cores stay taken' if not ws else ''), rr.file, rr.line_of(s))
        if len(ws) != 1:
            continue
        st, guard, v = ws[0]
        cv = _cores_vars(rr.ast)
        amount_ok = v.kind == 'bin' and v.op == '+' and text(v.left).lower().split('.')[-1] == COL and text(v.right).lower() in cv
        ctx.check(amount_ok, 'R3', cons + '::amount', f'release writes `{text(v)}`; expected free_cores_mcpu + <cores_mcpu of job (in_batch_id, in_job_id)> ({sorted(cv)})', rr.file, rr.line_of(st))
        ctx.check(sr.has_eq(st.where, 'name', 'in_instance_name'), 'R3', cons + '::key', f'release is not keyed by in_instance_name: WHERE {text(st.where)}', rr.file, rr.line_of(st))
        # guard: cur_end_time IS NULL, where cur_end_time <- attempts.end_time FOR UPDATE, read before the UPDATE attempts
        evars = {}
        for q in sf.all_statements(rr.ast.body):
            if q.kind == 'select' and q.into and q.frm is not None and [t.lower() for t in sf.table_names(q.frm)] == ['attempts'] and \
                    sr.has_eq(q.where, 'attempt_id', 'in_attempt_id') and sr.has_eq(q.where, 'batch_id', 'in_batch_id') and sr.has_eq(q.where, 'job_id', 'in_job_id'):
                for (c, _), var in zip(q.cols, q.into):
                    if c.kind == 'col' and c.parts[-1].lower() == 'end_time' and sr.is_var(var):
                        evars[var.parts[0].lower()] = q
        g_ok = [c for c, pol in guard if pol and any(text(x).lower() in [f'({ev_} is null)' for ev_ in evars] for x in sf.conjuncts(c))]
        ctx.check(bool(g_ok), 'R3', cons + '::once', f'the release is not guarded by `<end_time read from this attempt> IS NULL` (path condition {[text(c) for c, _ in guard]}): '
                  'a second completion/unschedule report for the same attempt would free the cores twice', rr.file, rr.line_of(st))
        # the release may depend on nothing but the instance state and "this attempt had not ended yet": any further condition
        # (job state, current attempt id, ..) means some ending attempts never give their cores back
        extra = []
        for c, pol in guard:
            for x in sf.conjuncts(c) if pol else [c]:
                names = {text(n).lower() for n in sf.cols_in(x)}
                if not names <= ({'cur_instance_state'} | set(evars)):
                    extra.append(('' if pol else 'NOT ') + text(x))
        ctx.check(not extra, 'R3', cons + '::unconditional', f'the release additionally requires {extra}: an attempt that ends when that does not hold (e.g. an attempt that is not the job\'s current '
                  'one) keeps its cores until the instance is deactivated', rr.file, rr.line_of(st))
        if evars:
            q = list(evars.values())[0]
            order_ok = 0 <= _flat_index(rr.ast.body, q) < _flat_index(rr.ast.body, s) and q.lock == 'FOR UPDATE'
            ctx.check(order_ok, 'R3', cons + '::read before write', 'the attempt\'s end_time is not read FOR UPDATE before this routine overwrites it (the guard would always see the new value, or a stale one)',
                      rr.file, rr.line_of(q))
        rel_states[name] = _inst_states(guard, 'cur_instance_state')

    # ---- R4 symmetry of the instance-state guards ---------------------------------------------------
    for name, states in sorted(rel_states.items()):
        lost = sorted((acq_states & {'pending', 'active'}) - states)
        ctx.check(not lost, 'R4', f'sql::{name}::release enabled for acquire states',
                  f'cores are taken when the instance is in {sorted(acq_states & {"pending", "active"})} but {name} gives them back only when it is in {sorted(states & {"pending", "active"})}: '
                  f'an attempt that ends while its instance is {lost} leaves free_cores_mcpu below total - live attempts until the instance is deactivated',
                  prog.routine(name).file, prog.routine(name).line)

    # ---- R5 deactivation ------------------------------------------------------------------------------
    r = prog.routine('deactivate_instance')
    ws = writes.get('deactivate_instance', [])
    ctx.need(ws, 'deactivate_instance no longer writes free_cores_mcpu')
    st, guard, v = ws[0]
    cons = f'{r.file}::deactivate_instance'
    ctx.check(len(ws) == 1 and text(v).lower().split('.')[-1] == 'cores_mcpu', 'R5', cons + '::reset', f'deactivation sets free cores to `{text(v)}`, expected the instance\'s cores_mcpu', r.file, r.line_of(st))
    j_ok = any(text(c).lower() in ('(instances.name = instances_free_cores_mcpu.name)', '(instances_free_cores_mcpu.name = instances.name)') for c in sf.conjuncts(st.where)) and \
        sr.has_eq(st.where, 'instances.name', 'in_instance_name', strip_qual=False)
    sets_inactive = any(c.parts[-1].lower() == 'state' and text(x) == "'inactive'" for c, x in st.sets if c.kind == 'col')
    ctx.check(j_ok and sets_inactive, 'R5', cons + '::same statement as state', 'the reset is not done together with state = inactive for the same instance row', r.file, r.line_of(st))
    ends_all = [s for n_, rr, s, single in enders if n_ == 'deactivate_instance' and sr.has_eq(s.where, 'instance_name', 'in_instance_name')]
    ctx.check(len(ends_all) == 1, 'R5', cons + '::ends all attempts', 'deactivation does not set end_time on every attempt of the instance', r.file, r.line)

    # ---- R6 python mirror -----------------------------------------------------------------------------
    m = pf.load('batch/batch/driver/job.py')
    procs_with_delta = set()
    for name, rr in prog.routines.items():
        for s in sf.all_statements(rr.ast.body):
            if s.kind == 'select' and not s.into and any((al or text(c)).lower().split('.')[-1] == 'delta_cores_mcpu' for c, al in s.cols):
                procs_with_delta.add(name)
    n6 = 0
    for e in sf.embedded_in(m):
        if e.sql_text is None:
            continue
        sts = e.stmts()
        if len(sts) == 1 and sts[0].kind == 'call' and sts[0].name in procs_with_delta:
            n6 += 1
            fn = e.fn
            g = pf.cfg(fn)
            cons = f'{m.rel}::{m.qualname(fn)}::CALL {sts[0].name}'
            adj = g.find(lambda n: any(pf.dotted(c.func) is not None and pf.dotted(c.func).endswith('.adjust_free_cores_in_memory')
                                       and [pf.nsrc(a) for a in c.args] == ["rv['delta_cores_mcpu']"] for c in pf.node_calls(n)))
            ctx.check(len(adj) == 1, 'R6', cons + '::applies delta', f'the caller applies delta_cores_mcpu to the in-memory free cores {len(adj)} time(s), expected once', m.path, e.lineno)
            if len(adj) == 1:
                # no return/raise that tests rc may come before the adjustment
                early = g.find(lambda n: n.kind == 'test' and "rv['rc']" in pf.nsrc(n.ast))
                dom = g.dominators()
                bad_early = [t for t in early if t.id in dom.get(adj[0].id, set())]
                ctx.check(not bad_early, 'R6', cons + '::before rc', 'the in-memory adjustment happens only after the rc test: a refused report that still changed the database counter is not mirrored',
                          m.path, adj[0].lineno)
    ctx.need(n6 >= 5, f'only {n6} call sites of procedures returning delta_cores_mcpu found in driver/job.py')
    # optimistic decrement in the pool scheduler is undone on failure
    pm = pf.load('batch/batch/driver/instance_collection/pool.py')
    dec = [n for n in ast.walk(pm.tree) if isinstance(n, ast.Call) and pf.dotted(n.func) is not None and pf.dotted(n.func).endswith('.adjust_free_cores_in_memory')]
    neg = [c for c in dec if pf.nsrc(c.args[0]) == "-record['cores_mcpu']"]
    pos = [c for c in dec if pf.nsrc(c.args[0]) == "record['cores_mcpu']"]
    ctx.need(len(neg) == 1, 'pool.py: optimistic decrement not found')
    in_handler = False
    for n in ast.walk(pm.tree):
        if isinstance(n, ast.ExceptHandler) and any(c in list(ast.walk(n)) for c in pos):
            tr = pm.parents().get(n)
            in_handler = isinstance(tr, ast.Try) and any(isinstance(x, ast.Call) and pf.dotted(x.func) == 'schedule_job' for b in tr.body for x in ast.walk(b))
    ctx.check(len(pos) == 1 and in_handler, 'R6', f'{pm.rel}::schedule_loop_body::optimistic decrement undone',
              'the in-memory cores taken before schedule_job are not given back in the except handler around schedule_job', pm.path, neg[0].lineno)
