"""C10 Instance free-core accounting is exact  (structural clauses).

  R1  closed world: free_cores_mcpu is written only by add_attempt (-), mark_job_complete (+), unschedule_job (+),
      deactivate_instance (reset to cores_mcpu) and the creation insert (= worker cores)
  R2  acquire once: the decrement is dominated by ROW_COUNT() = 1 directly after the idempotent INSERT INTO attempts;
      the amount is the job's own cores_mcpu at every CALL add_attempt site
  R3  release once: each increment is dominated by `cur_end_time IS NULL` where cur_end_time was read FOR UPDATE from the
      same attempt row BEFORE the routine's UPDATE attempts SET end_time; the amount is the job's cores_mcpu; every routine
      that ends a single attempt contains the release
  R4  acquire and release are enabled for the same instance states (otherwise cores acquired in a state with no release stay lost
      until deactivation)
  R5  deactivation resets to the instance's total cores and ends every attempt on it; inactive instance => all cores free
  R6  Python mirror: every caller of a procedure returning delta_cores_mcpu applies it to the in-memory copy before acting on rc;
      the scheduler's optimistic decrement is undone on the exception path
  R8  closed world of the in-memory mirror (Instance._free_cores_mcpu): written at construction (recorded value), deactivation (total cores,
      on every path that sets the state inactive) and by adjust_free_cores_in_memory only; that method is called only with a procedure's
      delta_cores_mcpu (R6 sites) or as the pool scheduler's optimistic decrement / undo pair
  R7  lock discipline: in every transaction (entry procedure with its CALLed procedures inlined) each table read whose result decides
      whether free_cores_mcpu is decremented / incremented is a locking read (FOR UPDATE / FOR SHARE / LOCK IN SHARE MODE) inside
      START TRANSACTION .. COMMIT with no COMMIT / ROLLBACK / START TRANSACTION before the write, or reads rows that an earlier
      statement of the same transaction already holds locked and no consistent read preceded that lock (REPEATABLE READ: a plain
      SELECT is answered from the read view created by the transaction's first plain SELECT, so it does not see a
      deactivate_instance that committed meanwhile)
  R9  settlement of the pool scheduler's in-memory reservation (taken before schedule_job, undone in an `except` handler around it): the undo handler
      catches every Exception; schedule_job (module-level helpers inlined) reaches no escaping `raise` once CALL schedule_job has returned - the
      procedure records the attempt unconditionally before it decides on rc, so an exception there makes the handler return cores a live attempt
      holds and mark_job_complete returns them again; schedule_job returns normally only on paths through the CALL (otherwise neither
      delta_cores_mcpu nor the handler ever settles the reservation).  Awaited calls after the CALL are declined, not judged.
Not decided: histories as such.
"""
from __future__ import annotations

import ast
from typing import Dict, List, Optional, Set, Tuple

from engines import c0910facts as cf
from engines import inline
from engines import pyfacts as pf
from engines import sqlfront as sf
from engines import sqlrules as sr
from engines.common import AnalysisError, Ctx
from engines.sqlast import N, text
from engines.sqleval import UNKNOWN, may

META = dict(
    category='other',
    text='Acquire/release pairing obligations decided on every writer of the free-core column in the effective SQL program, with the guards that make '
         'each of them happen at most once per attempt, plus the Python in-memory mirror. Static because each obligation is a dominance/ordering fact in the routine text.',
    note='Trusted: SQL parser, migration replay; MySQL ROW_COUNT() = 1 iff the INSERT..ON DUPLICATE KEY UPDATE inserted a new row; InnoDB REPEATABLE READ (plain SELECT = consistent read from the view created by the first plain SELECT; locking reads / UPDATE see and lock the latest row until COMMIT). The inductive argument over histories is not decided; a plain guard read that is not provably stale is declined, not judged.',
    technique='static analysis: closed-world writer scan + guard dominance and statement ordering in stored routines + lock-clause / read-view ordering facts over linearised transactions (CALLs inlined) + CFG checks on Python callers with helpers inlined (reachability of escaping raises after the committed CALL, must-pass-through of the CALL before a normal return)',
    design_ref='DESIGN.md §3 C10',
)

TBL = 'instances_free_cores_mcpu'
COL = 'free_cores_mcpu'
INST_STATES = ['pending', 'active', 'inactive', 'deleted']
ALLOWED = {'sql:add_attempt': '-', 'sql:mark_job_complete': '+', 'sql:unschedule_job': '+', 'sql:deactivate_instance': 'reset',
           'py:batch/batch/driver/instance.py::Instance.create.insert': 'init'}


def _free_core_writes(body) -> List[Tuple[N, tuple, N]]:
    out = []
    for st, guard in sf.guarded_statements(body):
        if st.kind == 'update':
            names = [t.lower() for t in sf.table_names(st.frm)]
            for c, v in st.sets:
                if c.kind == 'col' and c.parts[-1].lower() == COL and (TBL in names):
                    out.append((st, guard, v))
        elif st.kind in ('insert', 'delete') and any(t.lower() == TBL for t, _ in sf.written_tables(st)):
            out.append((st, guard, N('lit', value=None)))
    return out


def _cores_vars(routine: N) -> Set[str]:
    """variables holding jobs.cores_mcpu of (in_batch_id, in_job_id)."""
    out = set()
    for st in sf.all_statements(routine.body):
        if st.kind == 'select' and st.into and st.frm is not None and [t.lower() for t in sf.table_names(st.frm)] == ['jobs'] \
                and sr.has_eq(st.where, 'batch_id', 'in_batch_id') and sr.has_eq(st.where, 'job_id', 'in_job_id'):
            for (c, _), v in zip(st.cols, st.into):
                if c.kind == 'col' and c.parts[-1].lower() == 'cores_mcpu' and sr.is_var(v):
                    out.add(v.parts[0].lower())
    return out


def _inst_states(guard, var: str) -> Set[str]:
    out = set()
    for s in INST_STATES:
        if all(pol in may(c, lambda n: s if (n.kind == 'col' and n.parts[-1].lower() == var) else UNKNOWN) for c, pol in guard):
            out.add(s)
    return out


def _flat_index(body, target: N) -> int:
    for i, st in enumerate(sf.all_statements(body)):
        if st is target:
            return i
    return -1


def _history(table: str, writer: str, sign: str, entry: str) -> str:
    if table == 'instances':
        return (f'History: session A executes {entry}(.., I) up to this read and sees I live; session B executes deactivate_instance(I) to COMMIT (attempts ended, state = '
                f"'inactive', free_cores_mcpu = cores_mcpu); A, which neither waited for B nor sees B's commit, goes on and writes free_cores_mcpu {sign} cores of the job: "
                'an inactive instance no longer reports all its cores free')
    if table == 'attempts':
        return (f'History: two reports for the same attempt (a retried mark_job_complete / unschedule_job) run {entry} concurrently; both read end_time NULL because neither '
                'read waits for the other, both pass the guard and the cores of the attempt are given back twice')
    return f'History: a concurrent transaction commits a change to {table} between this read and the write it guards, {writer} adjusts free_cores_mcpu on a condition that no longer holds'


def r7(ctx: Ctx, prog: sf.SqlProgram, writes: Dict[str, list]) -> None:
    """Violations are reported for recognised unsafe shapes; shapes that cannot be decided are collected and declined at the END
    (so that a violation established in one transaction is not lost to an undecidable sibling)."""
    entries, _called = cf.entry_procedures(prog)
    covered: Set[str] = set()
    declined: List[str] = []
    n_txn = 0
    for r in entries:
        if not any(_free_core_writes(x.ast.body) for x in _reachable(prog, r)):
            continue
        t = cf.Txn(prog, r)
        n_txn += 1
        for w, sign, v in cf.free_core_writes(t, TBL, COL):
            if sign == 'other':
                continue  # the reset to cores_mcpu is idempotent: repeating it on a stale guard leaves an inactive instance with all cores free (R5)
            writer = w.scope.name
            covered.add(writer)
            if w.in_loop:
                declined.append(f'{writer}: the free-core adjustment sits in a loop (lock discipline not decided for loops)')
                continue
            reads, unknown = t.guard_reads(w)
            if unknown:
                declined.append(f'{r.name}: the condition of the free-core adjustment in {writer} is not traceable to table reads: {unknown}')
                continue
            sg = '-' if sign == '-' else '+'
            for p, var, col in reads:
                tabs = sf.from_tables(p.st.frm)
                tnames = [x.name.lower() if x.kind == 'table' else '<derived>' for x in tabs]
                tn = tnames[0] if len(tnames) == 1 else '+'.join(tnames)
                cons = f'sql::{writer}::{sg} guard {var} <- {tn}.{col.lower().split(".")[-1]} read under lock' + ('' if writer == r.name else f' (in {r.name})')
                stmt = text(p.st)[:110]
                rfile, rline = p.scope.routine.file, p.line()
                lock = p.st.lock or ''
                head = f'`{stmt}` decides the {sg} adjustment of free_cores_mcpu in {writer}'
                hist = _history(tn, writer, sg, r.name)
                extra = {'transaction': r.name, 'read': text(p.st), 'write': text(w.st)}
                if 'SKIP LOCKED' in lock:
                    declined.append(f'{p.scope.name}: guard read `{stmt}` uses SKIP LOCKED')
                    continue
                bnd, how = t.boundary_between(p, w)
                if how == 'maybe':
                    declined.append(f'{r.name}: a {bnd.st.what} in another branch may run between `{stmt}` and the free-core write')
                    continue
                if how == 'definite':
                    ctx.bad('R7', cons, f'{head}, but `{bnd.st.what}` ({bnd.where()}) runs between the read and the write: whatever the read locked is released there and the '
                            f'decision is taken on a value other sessions may since have changed. {hist}', rfile, rline, extra)
                    continue
                start, status = t.txn_start_for(p)
                if status == 'unknown' or (status == 'out' and start is None):
                    declined.append(f'{r.name}: cannot tell whether `{stmt}` runs inside a transaction (no START TRANSACTION on every path before it; the caller\'s context is not known)')
                    continue
                if status == 'out':
                    ctx.bad('R7', cons, f'{head} but runs after `{start.st.what}` ({start.where()}), outside any transaction: its lock is gone when the statement returns. {hist}', rfile, rline, extra)
                    continue
                if cf.is_locking(lock):
                    ctx.ok('R7', cons, {'lock': lock, 'transaction': r.name})
                    continue
                # plain (consistent) read
                snaps = t.snapshots_before(p, start)
                lk, lstat = t.row_locked_before(p, start)
                stale = [x for x, k, d in snaps if d == 'definite']
                if lstat == 'unknown':
                    declined.append(f'{r.name}: a transaction boundary may separate `{stmt}` from the earlier lock on the same row')
                    continue
                if lstat == 'locked':
                    early = [(x, k, d) for x, k, d in snaps if x.idx < lk.idx]
                    sure = [x for x, k, d in early if k == 'read' and d == 'definite']
                    if not early:
                        # the row is locked by this transaction and the read view is younger than the lock: the plain read returns the locked row
                        ctx.ok('R7', cons, {'lock': f'row already locked by `{text(lk.st)[:80]}`', 'transaction': r.name})
                        continue
                    if not sure:
                        declined.append(f'{r.name}: cannot tell whether the read view exists before `{text(lk.st)[:80]}` locks the row that `{stmt}` re-reads')
                        continue
                    ctx.bad('R7', cons, f'{head}. It is a plain SELECT; the row was locked earlier by `{text(lk.st)[:80]}`, but the transaction\'s read view was created even earlier by '
                            f'`{text(sure[0].st)[:80]}` ({sure[0].where()}), so the plain SELECT returns the row as of THAT moment, not the locked one. {hist}', rfile, rline, extra)
                    continue
                if stale:
                    sn = stale[0]
                    what = f'`{text(sn.st)[:80]}`' + (' (the stored function it invokes reads tables without a lock)' if t.snapshot_kind(sn) == 'function' else '')
                    ctx.bad('R7', cons, f'{head}, but it is a plain SELECT and the read view of transaction {r.name} already exists when it runs (created by {what}, {sn.where()}): under '
                            f'REPEATABLE READ it returns {tn}.{col} as of that earlier statement, does not see anything committed since and waits for nobody. {hist}', rfile, rline, extra)
                    continue
                # plain read that opens (or may open) the read view itself: it returns the latest committed row but holds no lock; whether other locks of this
                # transaction happen to keep the writers of that row out until COMMIT is not decided here
                declined.append(f'{r.name}: `{stmt}` (guarding the {sg} adjustment in {writer}) takes no lock; no earlier consistent read makes it stale for certain, and whether other '
                                'locks held by the transaction exclude a concurrent change of the row is not decided')
    ctx.unit('transactions_linearised', n_txn)
    for name, ws in writes.items():
        if any(v.kind == 'bin' and v.op in ('+', '-') for st, g, v in ws) and name not in covered:
            declined.append(f'{name} adjusts free_cores_mcpu but is not reached from any procedure that starts a transaction')
    ctx.need(not declined, 'R7 lock discipline: ' + ' | '.join(declined))


def _hoist_test_calls(m: pf.Module, target: str, helpers: Set[str]) -> pf.Module:
    """`if helper(..): B` -> `t = helper(..); if t: B` in function `target` (same behaviour; makes the call a statement the inliner accepts)."""
    import copy
    tree = copy.deepcopy(m.tree)
    m2 = pf.Module(m.rel, m.path, m.src, tree)
    fn = m2.func(target)
    k = [0]

    def is_helper_call(x: ast.AST) -> bool:
        if isinstance(x, ast.Await):
            x = x.value
        return isinstance(x, ast.Call) and isinstance(x.func, ast.Name) and x.func.id in helpers

    def block(stmts: List[ast.stmt]) -> List[ast.stmt]:
        out: List[ast.stmt] = []
        for st in stmts:
            for fld in ('body', 'orelse', 'finalbody'):
                if hasattr(st, fld) and isinstance(getattr(st, fld), list) and not isinstance(st, (ast.FunctionDef, ast.AsyncFunctionDef, ast.ClassDef)):
                    setattr(st, fld, block(getattr(st, fld)))
            if isinstance(st, ast.Try):
                for h in st.handlers:
                    h.body = block(h.body)
            if isinstance(st, ast.If):
                t = st.test
                neg = isinstance(t, ast.UnaryOp) and isinstance(t.op, ast.Not)
                inner = t.operand if neg else t
                if is_helper_call(inner):
                    k[0] += 1
                    name = f'_hoisted_{k[0]}'
                    asg = ast.copy_location(ast.Assign(targets=[ast.Name(id=name, ctx=ast.Store())], value=inner, lineno=st.lineno), st)
                    ref: ast.expr = ast.Name(id=name, ctx=ast.Load())
                    st.test = ast.copy_location(ast.UnaryOp(op=ast.Not(), operand=ref), t) if neg else ast.copy_location(ref, t)
                    ast.fix_missing_locations(asg)
                    ast.fix_missing_locations(st)
                    out.append(asg)
            out.append(st)
        return out

    fn.body = block(fn.body)
    return m2


MIRROR_ATTR = '_free_cores_mcpu'
INSTANCE_PY = 'batch/batch/driver/instance.py'


def _delta_result_names(mod: pf.Module, fn: pf.FuncDef, procs: Set[str]) -> Set[str]:
    """locals of fn assigned from `CALL <procedure returning delta_cores_mcpu>`."""
    out = set()
    for e in sf.embedded_in(mod):
        if e.fn is fn and e.sql_text is not None:
            sts = e.stmts()
            if len(sts) == 1 and sts[0].kind == 'call' and sts[0].name in procs:
                for n in pf.walk_shallow(fn):
                    if isinstance(n, ast.Assign) and len(n.targets) == 1 and isinstance(n.targets[0], ast.Name) and any(x is e.call for x in ast.walk(n.value)):
                        out.add(n.targets[0].id)
    return out


def _is_proc_delta(mod: pf.Module, fn: pf.FuncDef, call: ast.Call, procs: Set[str]) -> bool:
    """the argument of adjust_free_cores_in_memory is <rv>['delta_cores_mcpu'] where rv is the result of a delta-returning CALL in this function, or a
    parameter of a module-level helper every call of which passes such a result."""
    if len(call.args) != 1 or call.keywords:
        return False
    a = pf.expand_locals(fn, call.args[0])
    if not (isinstance(a, ast.Subscript) and isinstance(a.value, ast.Name) and pf.const_str(a.slice) == 'delta_cores_mcpu'):
        return False
    rv = a.value.id
    if rv in _delta_result_names(mod, fn, procs):
        return True
    params = [x.arg for x in fn.args.args]
    if rv in params and fn in mod.tree.body:
        i = params.index(rv)
        sites = [(c, mod.enclosing_func(c)) for c in ast.walk(mod.tree) if isinstance(c, ast.Call) and isinstance(c.func, ast.Name) and c.func.id == fn.name]
        ok = bool(sites)
        for c, f2 in sites:
            v = c.args[i] if i < len(c.args) else next((k.value for k in c.keywords if k.arg == rv), None)
            ok = ok and f2 is not None and isinstance(v, ast.Name) and v.id in _delta_result_names(mod, f2, procs)
        return ok
    return False


def r8(ctx: Ctx, jobm: pf.Module, poolm: pf.Module, neg: list, pos: list, procs_with_delta: Set[str]) -> None:
    """Every statement that changes Instance._free_cores_mcpu is one of the mirrored events: construction (= the recorded value),
    deactivation (= total cores, with state inactive), adjust_free_cores_in_memory(+= delta); and adjust_free_cores_in_memory is called only
    with a delta returned by a stored procedure (R6 sites) or as the scheduler's optimistic decrement / its undo (R6 pair)."""
    im = pf.load(INSTANCE_PY)
    rels = list(pf.walk_py(['batch/batch'] if ctx.tier == 'quick' else ['batch', 'gear', 'ci', 'auth']))
    for rel in rels:
        mod = pf.load(rel)
        if MIRROR_ATTR not in mod.src and 'adjust_free_cores_in_memory' not in mod.src:
            continue
        for node in ast.walk(mod.tree):
            tgt = None
            if isinstance(node, ast.Assign):
                tg = [t_ for t_ in node.targets if isinstance(t_, ast.Attribute) and t_.attr == MIRROR_ATTR]
                tgt = tg[0] if tg else None
            elif isinstance(node, (ast.AugAssign, ast.AnnAssign)) and isinstance(node.target, ast.Attribute) and node.target.attr == MIRROR_ATTR:
                tgt = node.target
            elif isinstance(node, ast.Call) and pf.dotted(node.func) in ('setattr',) and len(node.args) >= 2 and pf.const_str(node.args[1]) == MIRROR_ATTR:
                ctx.bad('R8', f'{rel}::setattr {MIRROR_ATTR}', 'the in-memory free cores are written through setattr', mod.path, node.lineno)
            if tgt is None:
                continue
            fn = mod.enclosing_func(node)
            q = mod.qualname(fn) if fn is not None else '<module>'
            cons = f'{rel}::{q}::{MIRROR_ATTR} {"+=" if isinstance(node, ast.AugAssign) else "="} {pf.nsrc(node.value) if node.value is not None else ""}'
            if rel == INSTANCE_PY and q == 'Instance.__init__' and isinstance(node, ast.Assign):
                ok = pf.nsrc(tgt.value) == 'self' and isinstance(node.value, ast.Name) and node.value.id in [a.arg for a in fn.args.args]
                ctx.check(ok, 'R8', cons, 'a new in-memory instance does not start from the recorded free cores passed to the constructor', mod.path, node.lineno)
            elif rel == INSTANCE_PY and q == 'Instance.deactivate' and isinstance(node, ast.Assign):
                g = pf.cfg(fn)
                ok = pf.nsrc(node.value) == 'self.cores_mcpu' and pf.nsrc(tgt.value) == 'self'
                ctx.check(ok, 'R8', cons, 'deactivation does not set the in-memory free cores to the instance\'s total cores', mod.path, node.lineno)
            elif rel == INSTANCE_PY and q == 'Instance.adjust_free_cores_in_memory' and isinstance(node, ast.AugAssign):
                ok = isinstance(node.op, ast.Add) and isinstance(node.value, ast.Name) and node.value.id in [a.arg for a in fn.args.args] and pf.nsrc(tgt.value) == 'self'
                ctx.check(ok, 'R8', cons, 'adjust_free_cores_in_memory does not add its argument to the in-memory free cores', mod.path, node.lineno)
            else:
                ctx.bad('R8', cons, f'{q} changes the in-memory free cores directly; the only mirrored events are construction, deactivation and adjust_free_cores_in_memory(delta)', mod.path, node.lineno)
        for node in ast.walk(mod.tree):
            if isinstance(node, ast.Call) and isinstance(node.func, ast.Attribute) and node.func.attr == 'adjust_free_cores_in_memory':
                fn = mod.enclosing_func(node)
                q = mod.qualname(fn) if fn is not None else '<module>'
                arg = pf.nsrc(node.args[0]) if len(node.args) == 1 and not node.keywords else '?'
                cons = f'{rel}::{q}::adjust_free_cores_in_memory({arg})'
                if mod.rel == jobm.rel and fn is not None and _is_proc_delta(mod, fn, node, procs_with_delta):
                    ctx.ok('R8', cons, 'delta returned by the stored procedure (R6)')
                elif mod.rel == poolm.rel and (node in neg or node in pos):
                    ctx.ok('R8', cons, 'optimistic decrement / undo pair (R6)')
                else:
                    ctx.bad('R8', cons, f'{q} adjusts an instance\'s in-memory free cores by `{arg}`, which is neither a delta_cores_mcpu returned by a stored procedure nor the pool scheduler\'s '
                            'optimistic decrement with its undo: the database counter does not move with it, so the two copies drift apart (e.g. a reservation made before scheduling that '
                            'is never given back when scheduling fails, or is counted again when the procedure reports its delta)', mod.path, node.lineno)
    # deactivation mirrors the reset: every normal completion of Instance.deactivate that reaches the state change also resets the cores
    fn = im.func('Instance.deactivate')
    g = pf.cfg(fn)
    st_nodes = g.find(lambda n: isinstance(n.ast, ast.Assign) and pf.nsrc(n.ast.targets[0]) == 'self._state' and pf.nsrc(n.ast.value) == "'inactive'")
    rs_nodes = g.find(lambda n: isinstance(n.ast, ast.Assign) and pf.nsrc(n.ast.targets[0]) == f'self.{MIRROR_ATTR}' and pf.nsrc(n.ast.value) == 'self.cores_mcpu')
    ctx.need(st_nodes, 'Instance.deactivate: `self._state = \'inactive\'` not found')
    ok = bool(rs_nodes) and all(g.path_avoiding(sn, lambda n: n is g.exit, lambda n: n in rs_nodes, edge_ok=lambda a, b, lab: lab != 'exc') is None
                                or any(g.dominated_by(sn, lambda n, r_=r_: n is r_) for r_ in rs_nodes) for sn in st_nodes)
    ctx.check(ok, 'R8', f'{INSTANCE_PY}::Instance.deactivate::inactive => all cores free', 'an instance that becomes inactive in memory keeps its old free-core count: it does not report all cores free '
              '(the database row was reset to cores_mcpu by deactivate_instance)', im.path, fn.lineno)
    # from_record / create pass the recorded value into the constructor's free_cores_mcpu parameter
    init = im.func('Instance.__init__')
    pnames = [a.arg for a in init.args.args][1:]
    ctx.need('free_cores_mcpu' in pnames and 'cores_mcpu' in pnames, 'Instance.__init__: parameters cores_mcpu / free_cores_mcpu not found')
    fi, ci = pnames.index('free_cores_mcpu'), pnames.index('cores_mcpu')
    for q, want in (('Instance.from_record', lambda a, c: pf.nsrc(a) == "record['free_cores_mcpu']"), ('Instance.create', lambda a, c: pf.nsrc(a) == pf.nsrc(c))):
        f2 = im.func(q)
        calls = [c for c in ast.walk(f2) if isinstance(c, ast.Call) and pf.dotted(c.func) == 'Instance']
        ctx.need(len(calls) == 1 and len(calls[0].args) > max(fi, ci) and not calls[0].keywords, f'{q}: constructor call not recognised')
        a, c = calls[0].args[fi], calls[0].args[ci]
        ctx.check(want(a, c), 'R8', f'{INSTANCE_PY}::{q}::initial in-memory free cores', f'{q} builds the in-memory instance with free cores `{pf.nsrc(a)}` (total `{pf.nsrc(c)}`): '
                  + ('a loaded instance does not start from the recorded counter' if 'record' in q else 'a new instance does not start with all cores free'), im.path, calls[0].lineno)


JOB_PY = 'batch/batch/driver/job.py'
RESERVING = ('batch/batch/driver/instance_collection/pool.py', 'batch/batch/driver/instance_collection/job_private.py')


def _catches_exception(h: ast.ExceptHandler) -> bool:
    ts = [h.type] if not isinstance(h.type, ast.Tuple) else list(h.type.elts)
    return h.type is None or any(isinstance(t, ast.Name) and t.id in ('Exception', 'BaseException') for t in ts)


def r9(ctx: Ctx, prog: sf.SqlProgram, m: pf.Module, procs_with_delta: Set[str]) -> None:
    """Settlement of the scheduler's in-memory reservation.  The pool scheduler takes the job's cores from the in-memory copy BEFORE it calls
    schedule_job and gives them back in an `except` handler around that call.  The stored procedure schedule_job records the attempt (add_attempt) before
    it decides on rc and reports through delta_cores_mcpu how the in-memory copy has to move so that reservation and database agree; it has committed when
    the CALL returns.  Hence:  (a) the undo handler must catch every Exception;  (b) once the CALL has returned normally, schedule_job (helpers inlined) must
    not raise - the handler would return cores that a live attempt holds, and mark_job_complete returns them a second time;  (c) schedule_job must not return
    normally without having made the CALL - nobody would ever settle the reservation.  Exception sources considered: `raise` statements and awaited calls
    (a fault can fail any of them); awaited calls after the CALL are not judged but declined."""
    # ---- (a) the callers that hold a reservation across schedule_job ---------------------------------------------------------------------------------
    n_undo = 0
    for rel in RESERVING:
        mod = pf.load(rel)
        for tr in ast.walk(mod.tree):
            if not (isinstance(tr, ast.Try) and any(isinstance(x, ast.Call) and pf.dotted(x.func) == 'schedule_job' for b in tr.body for x in ast.walk(b))):
                continue
            fn = mod.enclosing_func(tr)
            q = mod.qualname(fn) if fn is not None else '<module>'
            undo = [h for h in tr.handlers if any(isinstance(c, ast.Call) and isinstance(c.func, ast.Attribute) and c.func.attr == 'adjust_free_cores_in_memory' for c in ast.walk(h))]
            fin = [c for b in tr.finalbody for c in ast.walk(b) if isinstance(c, ast.Call) and isinstance(c.func, ast.Attribute) and c.func.attr == 'adjust_free_cores_in_memory']
            if fin:
                ctx.bad('R9', f'{rel}::{q}::reservation undone on failure only', 'the in-memory reservation is given back in a `finally` clause, i.e. also when schedule_job succeeded and the attempt holds the cores',
                        mod.path, tr.lineno)
            for h in undo:
                n_undo += 1
                ctx.check(_catches_exception(h), 'R9', f'{rel}::{q}::undo handler catches every Exception', f'the handler that gives the reserved cores back only catches `{pf.nsrc(h.type) if h.type is not None else ""}`: '
                          'any other exception out of schedule_job (a database error, a timeout) leaves the in-memory free cores reduced by the job\'s cores although no attempt was placed', mod.path, h.lineno)
    if n_undo == 0:
        ctx.info('R9: no caller of schedule_job undoes an in-memory reservation in an except handler (R6 reports a missing undo)')
    # ---- schedule_job itself -----------------------------------------------------------------------------------------------------------------------
    toplevel = {f.name: f for f in m.tree.body if isinstance(f, (ast.FunctionDef, ast.AsyncFunctionDef))}
    ctx.need('schedule_job' in toplevel, f'{JOB_PY}::schedule_job not found')
    fn0 = toplevel['schedule_job']

    def _the_call(mod: pf.Module, fn: pf.FuncDef) -> ast.Call:
        cs = []
        for c in ast.walk(fn):
            if isinstance(c, ast.Call) and isinstance(c.func, ast.Attribute) and c.func.attr in sf.EXEC_METHODS and c.args:
                sql = (pf.const_str(c.args[0]) or '').strip()
                if sql.upper().startswith('CALL ') and sql[5:].split('(')[0].strip() in procs_with_delta:
                    cs.append(c)
        ctx.need(len(cs) == 1, f'{JOB_PY}::schedule_job: expected exactly one CALL of a procedure returning delta_cores_mcpu, found {len(cs)}')
        return cs[0]

    def _normal(a, b, lab):
        return lab != 'exc'

    g0 = pf.cfg(fn0)
    cn0 = g0.node_of(_the_call(m, fn0))
    ctx.need(len(cn0) == 1, f'{JOB_PY}::schedule_job: CFG node of the CALL not found')
    after0 = g0.reachable_from(cn0[0], edge_ok=_normal)
    wanted: Set[str] = set()
    for n in g0.nodes:
        if n.id in after0 and n is not cn0[0]:
            for x in pf.node_exprs(n):
                wanted |= {c.func.id for c in ast.walk(x) if isinstance(c, ast.Call) and isinstance(c.func, ast.Name) and c.func.id in toplevel}
    changed = True
    while changed:
        changed = False
        for nm in list(wanted):
            for c in ast.walk(toplevel[nm]):
                if isinstance(c, ast.Call) and isinstance(c.func, ast.Name) and c.func.id in toplevel and c.func.id not in wanted and c.func.id != 'schedule_job':
                    wanted.add(c.func.id)
                    changed = True
    if wanted:
        m2, il = inline.inline_functions(_hoist_test_calls(m, 'schedule_job', wanted), 'schedule_job', exclude=tuple(n_ for n_ in toplevel if n_ not in wanted))
        fn = m2.func('schedule_job')
        mod2 = m2
    else:
        fn, mod2, il = fn0, m, None
    g = pf.cfg(fn)
    cn = g.node_of(_the_call(mod2, fn))
    ctx.need(len(cn) == 1, f'{JOB_PY}::schedule_job: CFG node of the CALL not found after inlining')
    call_node = cn[0]
    after = g.reachable_from(call_node, edge_ok=_normal)
    par = mod2.parents()

    def escapes(n, seen: Set[int]) -> bool:
        """an exception raised at n leaves the function."""
        if n.id in seen:
            return False
        seen.add(n.id)
        for t, lab in n.succ:
            if lab != 'exc':
                continue
            if t is g.raise_exit:
                return True
            for x in g.nodes:
                if x.id in g.reachable_from(t, edge_ok=_normal) and x.kind == 'raise' and escapes(x, seen):
                    return True
        return False

    def swallowed(node_ast: ast.AST) -> bool:
        cur = par.get(node_ast)
        child = node_ast
        while cur is not None and cur is not fn:
            if isinstance(cur, ast.Try) and child in cur.body and any(_catches_exception(h) and not any(isinstance(r_, ast.Raise) for r_ in ast.walk(h)) for h in cur.handlers):
                return True
            child, cur = cur, par.get(cur)
        return False

    raises = [n for n in g.nodes if n.id in after and n.kind == 'raise' and escapes(n, set())]
    cons = f'{JOB_PY}::schedule_job'
    proc = (pf.const_str(_the_call(mod2, fn).args[0]) or '').strip()[5:].split('(')[0].strip()
    # what the procedure has done when it answers: the attempt is recorded (CALL add_attempt) on EVERY path, whatever rc it then reports
    acq = [(st, guard) for st, guard in sf.guarded_statements(prog.routine(proc).ast.body) if st.kind == 'call' and st.name.lower() == 'add_attempt']
    ctx.need(acq, f'sql::{proc}: CALL add_attempt not found')
    if raises and not all(guard == () for _, guard in acq):
        raise AnalysisError(f'R9 {cons}: `{pf.nsrc(raises[0].ast)[:60]}` follows CALL {proc}, and {proc} records the attempt only under {[text(c) for c, _ in acq[0][1]]}: whether the raise is '
                            'confined to answers without an attempt is not decided')
    ctx.check(not raises, 'R9', cons + f'::no exception after CALL {proc} returned',
              (f'`{pf.nsrc(raises[0].ast)[:90]}` (line {raises[0].ast.lineno}) is reached after CALL {proc} has returned. ' if raises else '') +
              f'The procedure has committed by then and calls add_attempt unconditionally, before it decides on rc (effective definition in {prog.routine(proc).file}): whatever rc says, the attempt holds the job\'s cores in the '
              'database and delta_cores_mcpu has already reconciled the in-memory copy with the scheduler\'s reservation. The pool scheduler treats every exception out of schedule_job as "nothing was placed" and '
              'adds the job\'s cores back in memory. History: job J (c mcpu) is selected as Ready; the worker accepts it; J\'s job group is cancelled; CALL schedule_job -> add_attempt (database free cores - c), '
              'rc = 1; the exception makes the pool handler add c back: in-memory free = truth + c while J\'s attempt is live; when the worker reports J complete, mark_job_complete returns '
              'delta_cores_mcpu = +c once more: the surplus of c stays for the life of the instance', m.path, raises[0].ast.lineno if raises else fn0.lineno,
              detail={'helpers inlined': sorted({x for x, _ in il.inlined}) if il is not None else []})
    undecided = []
    for n in g.nodes:
        if n.id not in after or n is call_node or n.ast is None:
            continue
        for x in pf.node_exprs(n):
            for a in pf.walk_shallow(x):
                if isinstance(a, ast.Await) and not swallowed(n.ast):
                    undecided.append(f'line {getattr(a, "lineno", 0)}: `{pf.nsrc(a)[:70]}` is awaited after CALL {proc} returned; whether it can fail is not decided')
                if isinstance(a, ast.Call) and isinstance(a.func, ast.Name) and a.func.id in toplevel and \
                        any(isinstance(r_, (ast.Raise, ast.Await)) for r_ in ast.walk(toplevel[a.func.id])) and not swallowed(n.ast):
                    undecided.append(f'line {getattr(a, "lineno", 0)}: helper `{a.func.id}` (contains raise / await) is called after CALL {proc} returned in a form that was not inlined')
    # ---- (c) a normal return implies the CALL was made ---------------------------------------------------------------------------------------------
    p = g.path_avoiding(g.entry, lambda n: n is g.exit, lambda n: n is call_node)
    via = [x for x in (p or []) if x.ast is not None][-3:]
    ctx.check(p is None, 'R9', cons + f'::returns normally only after CALL {proc}',
              f'schedule_job can return normally without having called {proc} (path through ' + ', '.join(f'line {getattr(x.ast, "lineno", 0)} `{pf.nsrc(x.ast)[:50]}`' for x in via) +
              '): the pool scheduler has already taken the job\'s cores from the in-memory copy; without the procedure\'s delta_cores_mcpu and without an exception for the undo handler nobody gives them back, '
              'so the in-memory free cores stay below total - live attempts (e.g. a worker that answers 403/503 to jobs/create)', m.path, getattr(via[-1].ast, 'lineno', fn0.lineno) if via else fn0.lineno)
    ctx.need(not undecided, 'R9 ' + cons + ': ' + ' | '.join(undecided[:4]))


def _reachable(prog: sf.SqlProgram, r: sf.Routine, seen: Optional[Set[str]] = None) -> List[sf.Routine]:
    seen = seen if seen is not None else set()
    if r.name in seen:
        return []
    seen.add(r.name)
    out = [r]
    for st in sf.all_statements(r.ast.body):
        if st.kind == 'call':
            c = prog.routines.get(st.name) or next((x for n, x in prog.routines.items() if n.lower() == st.name.lower()), None)
            if c is not None:
                out += _reachable(prog, c, seen)
    return out


def run(ctx: Ctx) -> None:
    ctx.explanation ='Acquire/release obligations on every writer of instances_free_cores_mcpu.free_cores_mcpu in the effective SQL program and its Python mirror.'
    ctx.rule('R1', 'closed world of writers of free_cores_mcpu with their direction (-, +, reset, init)', 5)
    ctx.rule('R2', 'acquire once: decrement dominated by ROW_COUNT() = 1 right after the idempotent attempts insert; amount = the job\'s cores at each CALL add_attempt', 8)
    ctx.rule('R3', 'release once: increment dominated by cur_end_time IS NULL read FOR UPDATE before end_time is written; amount = the job\'s cores; every single-attempt end releases', 13)
    ctx.rule('R4', 'acquire and release enabled for the same instance states', 2)
    ctx.rule('R5', 'deactivate_instance ends all attempts of the instance and resets free cores to total cores', 3)
    ctx.rule('R6', 'Python mirror applies delta_cores_mcpu at every call site, to the instance named in the CALL, before acting on rc; optimistic decrement undone on failure', 16)
    ctx.rule('R8', 'closed world of the in-memory mirror: _free_cores_mcpu changes only at construction (= recorded value), deactivation (= total) and through adjust_free_cores_in_memory, '
             'which is called only with a procedure\'s delta or as the optimistic decrement / undo pair', 13)
    ctx.rule('R9', 'the pool scheduler\'s in-memory reservation is settled exactly once: schedule_job raises only before CALL schedule_job has returned (undo handler catches every Exception) '
             'and returns normally only after it (delta_cores_mcpu applied)', 3)
    ctx.rule('R7', 'every table read deciding a free-core decrement / increment is a locking read inside the transaction (or re-reads a row locked earlier, before the read view existed)', 8)
    prog = sf.load_program()
    ctx.unit('effective_routines', len(prog.routines))

    # ---- R1 ---------------------------------------------------------------------------------
    writes: Dict[str, List[Tuple[N, tuple, N]]] = {}
    for name, r in sorted(prog.routines.items()):
        ws = _free_core_writes(r.ast.body)
        if ws:
            writes[name] = ws
            ctx.check('sql:' + name in ALLOWED, 'R1', f'{r.file}::{name}::writes {COL}', f'{name} writes {COL} but is not one of the accounting routines {sorted(ALLOWED)}', r.file, r.line_of(ws[0][0]))
    for rel in pf.walk_py(['batch/batch'] if ctx.tier == 'quick' else ['batch', 'gear', 'ci', 'auth']):
        m = pf.load(rel)
        if TBL not in m.src and COL not in m.src:
            continue
        for e in sf.embedded_in(m):
            if e.sql_text is None or (TBL not in e.sql_text and COL not in e.sql_text):
                continue
            if e.parse_error:
                raise AnalysisError(f'{rel}:{e.lineno}: SQL naming {TBL} does not parse: {e.parse_error}')
            for st in e.stmts():
                w = [t for t, _ in sf.written_tables(st) if t.lower() == TBL]
                setcol = st.kind == 'update' and any(c.kind == 'col' and c.parts[-1].lower() == COL for c, _ in st.sets)
                if w or setcol:
                    wid = f'py:{rel}::{e.qual}'
                    ok = wid in ALLOWED
                    if ok:
                        # creation insert: free = the same value as instances.cores_mcpu
                        ins, _, _ = sr.insert_colmap(st)
                        elts = sr.args_tuple(e.fn, e.call.args[1])
                        params = sr.params_in_order(st)
                        bind = {id(p): pf.nsrc(x) for p, x in zip(params, elts or [])}
                        free_arg = bind.get(id(ins.get(COL)))
                        cores_arg = None
                        for e2 in sf.embedded_in(m):
                            if e2.fn is e.fn and e2.sql_text and 'INSERT INTO instances ' in e2.sql_text:
                                st2 = e2.stmts()[0]
                                ins2, _, _ = sr.insert_colmap(st2)
                                el2 = sr.args_tuple(e2.fn, e2.call.args[1])
                                b2 = {id(p): pf.nsrc(x) for p, x in zip(sr.params_in_order(st2), el2 or [])}
                                cores_arg = b2.get(id(ins2.get('cores_mcpu')))
                        ctx.check(free_arg is not None and free_arg == cores_arg and not st.on_dup, 'R1', f'{rel}::{e.qual}::initial {COL}',
                                  f'a new instance starts with free cores `{free_arg}` but total cores `{cores_arg}`', m.path, e.lineno)
                    else:
                        ctx.bad('R1', f'{rel}::{e.qual}::writes {COL}', f'Python code writes {COL} directly: {text(st)[:100]}', m.path, e.lineno)
    for w in ALLOWED:
        if w.startswith('sql:') and w[4:] not in writes:
            ctx.info(f'expected writer {w} of {COL} not found (R3/R2 below decide whether that loses cores)')

    # ---- R2 acquire ---------------------------------------------------------------------------
    r = prog.routine('add_attempt')
    a = r.ast
    ws = writes.get('add_attempt', [])
    ctx.need(len(ws) == 1, 'add_attempt: expected exactly one write of free_cores_mcpu')
    st, guard, v = ws[0]
    cons = f'{r.file}::add_attempt::{text(st)[:70]}'
    ctx.check(text(v).lower() == f'({COL} - in_cores_mcpu)', 'R2', cons + '::amount', f'acquire writes `{text(v)}`, expected free_cores_mcpu - in_cores_mcpu', r.file, r.line_of(st))
    ctx.check(sr.has_eq(st.where, 'name', 'in_instance_name'), 'R2', cons + '::key', f'acquire is not keyed by the attempt\'s instance: WHERE {text(st.where)}', r.file, r.line_of(st))
    rc = [c for c, pol in guard if pol and text(c).upper() == '(ROW_COUNT() = 1)']
    ctx.check(bool(rc), 'R2', cons + '::once', f'the decrement is not guarded by ROW_COUNT() = 1 (path condition {[text(c) for c, _ in guard]}): a repeated schedule/start/complete '
              'report for the same attempt would take the cores again', r.file, r.line_of(st))
    # the statement directly before the IF ROW_COUNT() is the idempotent insert
    flat = list(sf.all_statements(a.body))
    ifs = [s for s in flat if s.kind == 'if' and any(text(c).upper() == '(ROW_COUNT() = 1)' for c, _ in s.branches)]
    ok_prev = False
    for blk in [a.body] + [b for s in flat if s.kind == 'if' for _, b in s.branches]:
        for i, s in enumerate(blk):
            if ifs and s is ifs[0] and i > 0:
                p = blk[i - 1]
                ok_prev = p.kind == 'insert' and p.table.lower() == 'attempts' and bool(p.on_dup) and all(text(c).lower() == text(x).lower() for c, x in p.on_dup)
                if ok_prev:
                    ins, _, _ = sr.insert_colmap(p)
                    ok_prev = [text(ins.get(k)).lower() for k in ('batch_id', 'job_id', 'attempt_id', 'instance_name')] == ['in_batch_id', 'in_job_id', 'in_attempt_id', 'in_instance_name']
    ctx.check(ok_prev, 'R2', f'{r.file}::add_attempt::ROW_COUNT source', 'ROW_COUNT() is not evaluated immediately after `INSERT INTO attempts .. ON DUPLICATE KEY UPDATE <no-op>` for this attempt',
              r.file, r.line)
    acq_states = _inst_states(guard, 'cur_instance_state')
    # callers
    n_call = 0
    for name, rr in sorted(prog.routines.items()):
        cv = _cores_vars(rr.ast)
        for s in sf.all_statements(rr.ast.body):
            if s.kind == 'call' and s.name.lower() == 'add_attempt':
                n_call += 1
                args = [text(x).lower() for x in s.args]
                ok = len(args) == 6 and args[:4] == ['in_batch_id', 'in_job_id', 'in_attempt_id', 'in_instance_name'] and args[4] in cv
                ctx.check(ok, 'R2', f'{rr.file}::{name}::CALL add_attempt', f'add_attempt is called with {args}; the amount must be the cores_mcpu of job (in_batch_id, in_job_id) '
                          f'(variables bound to it: {sorted(cv)})', rr.file, rr.line_of(s))
    ctx.unit('add_attempt_call_sites', n_call)

    # ---- R3 release ---------------------------------------------------------------------------
    rel_states: Dict[str, Set[str]] = {}
    enders = []
    for name, rr in sorted(prog.routines.items()):
        for s in sf.all_statements(rr.ast.body):
            if s.kind == 'update' and [t.lower() for t in sf.table_names(s.frm)] == ['attempts'] and any(c.parts[-1].lower() == 'end_time' for c, _ in s.sets if c.kind == 'col'):
                single = sr.has_eq(s.where, 'attempt_id', 'in_attempt_id') and sr.has_eq(s.where, 'batch_id', 'in_batch_id') and sr.has_eq(s.where, 'job_id', 'in_job_id')
                enders.append((name, rr, s, single))
    ctx.need(len(enders) >= 3, 'fewer than three routines set attempts.end_time')
    for name, rr, s, single in enders:
        cons = f'{rr.file}::{name}::ends attempt'
        if not single:
            ctx.check(name == 'deactivate_instance', 'R3', cons, f'{name} sets end_time on many attempts at once without being the deactivation path', rr.file, rr.line_of(s))
            continue
        ws = writes.get(name, [])
        ctx.check(len(ws) == 1, 'R3', cons + '::releases', f'{name} ends an attempt but contains {len(ws)} release(s) of its cores' + (': the cores stay taken' if not ws else ''), rr.file, rr.line_of(s))
        if len(ws) != 1:
            continue
        st, guard, v = ws[0]
        cv = _cores_vars(rr.ast)
        amount_ok = v.kind == 'bin' and v.op == '+' and text(v.left).lower().split('.')[-1] == COL and text(v.right).lower() in cv
        ctx.check(amount_ok, 'R3', cons + '::amount', f'release writes `{text(v)}`; expected free_cores_mcpu + <cores_mcpu of job (in_batch_id, in_job_id)> ({sorted(cv)})', rr.file, rr.line_of(st))
        ctx.check(sr.has_eq(st.where, 'name', 'in_instance_name'), 'R3', cons + '::key', f'release is not keyed by in_instance_name: WHERE {text(st.where)}', rr.file, rr.line_of(st))
        # guard: cur_end_time IS NULL, where cur_end_time <- attempts.end_time FOR UPDATE, read before the UPDATE attempts
        evars = {}
        for q in sf.all_statements(rr.ast.body):
            if q.kind == 'select' and q.into and q.frm is not None and [t.lower() for t in sf.table_names(q.frm)] == ['attempts'] and \
                    sr.has_eq(q.where, 'attempt_id', 'in_attempt_id') and sr.has_eq(q.where, 'batch_id', 'in_batch_id') and sr.has_eq(q.where, 'job_id', 'in_job_id'):
                for (c, _), var in zip(q.cols, q.into):
                    if c.kind == 'col' and c.parts[-1].lower() == 'end_time' and sr.is_var(var):
                        evars[var.parts[0].lower()] = q
        g_ok = [c for c, pol in guard if pol and any(text(x).lower() in [f'({ev_} is null)' for ev_ in evars] for x in sf.conjuncts(c))]
        ctx.check(bool(g_ok), 'R3', cons + '::once', f'the release is not guarded by `<end_time read from this attempt> IS NULL` (path condition {[text(c) for c, _ in guard]}): '
                  'a second completion/unschedule report for the same attempt would free the cores twice', rr.file, rr.line_of(st))
        # the release may depend on nothing but the instance state and "this attempt had not ended yet": any further condition
        # (job state, current attempt id, ..) means some ending attempts never give their cores back
        extra = []
        for c, pol in guard:
            for x in sf.conjuncts(c) if pol else [c]:
                names = {text(n).lower() for n in sf.cols_in(x)}
                if not names <= ({'cur_instance_state'} | set(evars)):
                    extra.append(('' if pol else 'NOT ') + text(x))
        ctx.check(not extra, 'R3', cons + '::unconditional', f'the release additionally requires {extra}: an attempt that ends when that does not hold (e.g. an attempt that is not the job\'s current '
                  'one) keeps its cores until the instance is deactivated', rr.file, rr.line_of(st))
        if evars:
            q = list(evars.values())[0]
            order_ok = 0 <= _flat_index(rr.ast.body, q) < _flat_index(rr.ast.body, s) and q.lock == 'FOR UPDATE'
            ctx.check(order_ok, 'R3', cons + '::read before write', 'the attempt\'s end_time is not read FOR UPDATE before this routine overwrites it (the guard would always see the new value, or a stale one)',
                      rr.file, rr.line_of(q))
        rel_states[name] = _inst_states(guard, 'cur_instance_state')

    # ---- R4 symmetry of the instance-state guards ---------------------------------------------------
    for name, states in sorted(rel_states.items()):
        lost = sorted((acq_states & {'pending', 'active'}) - states)
        ctx.check(not lost, 'R4', f'sql::{name}::release enabled for acquire states',
                  f'cores are taken when the instance is in {sorted(acq_states & {"pending", "active"})} but {name} gives them back only when it is in {sorted(states & {"pending", "active"})}: '
                  f'an attempt that ends while its instance is {lost} leaves free_cores_mcpu below total - live attempts until the instance is deactivated',
                  prog.routine(name).file, prog.routine(name).line)

    # ---- R5 deactivation ------------------------------------------------------------------------------
    r = prog.routine('deactivate_instance')
    ws = writes.get('deactivate_instance', [])
    ctx.need(ws, 'deactivate_instance no longer writes free_cores_mcpu')
    st, guard, v = ws[0]
    cons = f'{r.file}::deactivate_instance'
    ctx.check(len(ws) == 1 and text(v).lower().split('.')[-1] == 'cores_mcpu', 'R5', cons + '::reset', f'deactivation sets free cores to `{text(v)}`, expected the instance\'s cores_mcpu', r.file, r.line_of(st))
    j_ok = any(text(c).lower() in ('(instances.name = instances_free_cores_mcpu.name)', '(instances_free_cores_mcpu.name = instances.name)') for c in sf.conjuncts(st.where)) and \
        sr.has_eq(st.where, 'instances.name', 'in_instance_name', strip_qual=False)
    sets_inactive = any(c.parts[-1].lower() == 'state' and text(x) == "'inactive'" for c, x in st.sets if c.kind == 'col')
    ctx.check(j_ok and sets_inactive, 'R5', cons + '::same statement as state', 'the reset is not done together with state = inactive for the same instance row', r.file, r.line_of(st))
    ends_all = [s for n_, rr, s, single in enders if n_ == 'deactivate_instance' and sr.has_eq(s.where, 'instance_name', 'in_instance_name')]
    ctx.check(len(ends_all) == 1, 'R5', cons + '::ends all attempts', 'deactivation does not set end_time on every attempt of the instance', r.file, r.line)

    # ---- R6 python mirror -----------------------------------------------------------------------------
    m = pf.load('batch/batch/driver/job.py')
    procs_with_delta = set()
    for name, rr in prog.routines.items():
        for s in sf.all_statements(rr.ast.body):
            if s.kind == 'select' and not s.into and any((al or text(c)).lower().split('.')[-1] == 'delta_cores_mcpu' for c, al in s.cols):
                procs_with_delta.add(name)
    n6 = 0
    declined6: List[str] = []
    # module-level helpers of job.py that (transitively) reach adjust_free_cores_in_memory: seen through by inlining
    toplevel = {f.name: f for f in m.tree.body if isinstance(f, (ast.FunctionDef, ast.AsyncFunctionDef))}
    reaches_adjust: Set[str] = set()
    changed = True
    while changed:
        changed = False
        for nm, f in toplevel.items():
            if nm in reaches_adjust:
                continue
            for c in ast.walk(f):
                if isinstance(c, ast.Call) and ((isinstance(c.func, ast.Attribute) and c.func.attr == 'adjust_free_cores_in_memory') or
                                                (isinstance(c.func, ast.Name) and c.func.id in reaches_adjust)):
                    reaches_adjust.add(nm)
                    changed = True
                    break
    # functions that themselves (or through callees) CALL a delta-returning procedure are call sites in their own right, not helpers
    site_fns: Set[str] = set()
    for e in sf.embedded_in(m):
        if e.sql_text is not None and e.fn is not None:
            sts = e.stmts()
            if len(sts) == 1 and sts[0].kind == 'call' and sts[0].name in procs_with_delta:
                site_fns.add(e.fn.name)
    changed = True
    while changed:
        changed = False
        for nm, f in toplevel.items():
            if nm not in site_fns and any(isinstance(c, ast.Call) and isinstance(c.func, ast.Name) and c.func.id in site_fns for c in ast.walk(f)):
                site_fns.add(nm)
                changed = True
    helpers = reaches_adjust - site_fns
    for e in sf.embedded_in(m):
        if e.sql_text is None:
            continue
        sts = e.stmts()
        if len(sts) == 1 and sts[0].kind == 'call' and sts[0].name in procs_with_delta:
            n6 += 1
            proc = sts[0].name
            cons = f'{m.rel}::{m.qualname(e.fn)}::CALL {proc}'
            ctx.need(e.fn is not None and e.fn.name in toplevel and toplevel[e.fn.name] is e.fn, f'{cons}: the call site is not a module-level function')
            m2, il = inline.inline_functions(_hoist_test_calls(m, e.fn.name, helpers), e.fn.name, exclude=tuple(n_ for n_ in toplevel if n_ not in helpers))
            fn = m2.func(e.fn.name)
            g = pf.cfg(fn)
            calls2 = [c for c in ast.walk(fn) if isinstance(c, ast.Call) and isinstance(c.func, ast.Attribute) and c.func.attr in sf.EXEC_METHODS and c.args
                      and (pf.const_str(c.args[0]) or '').strip().upper().startswith(f'CALL {proc.upper()}(')]
            ctx.need(len(calls2) == 1, f'{cons}: CALL statement not found again after inlining')
            call2 = calls2[0]
            cn = g.node_of(call2)
            ctx.need(len(cn) == 1 and isinstance(cn[0].ast, ast.Assign) and isinstance(cn[0].ast.targets[0], ast.Name), f'{cons}: the procedure result is not assigned to a local')
            rvn = cn[0].ast.targets[0].id
            want = f"{rvn}['delta_cores_mcpu']"

            def _is_adj(c: ast.Call, strict: bool = True) -> bool:
                if not (isinstance(c.func, ast.Attribute) and c.func.attr == 'adjust_free_cores_in_memory'):
                    return False
                return not strict or (len(c.args) == 1 and not c.keywords and pf.nsrc(pf.expand_locals(fn, c.args[0])) == want)
            adj = g.find(lambda n: any(_is_adj(c) for c in pf.node_calls(n)))
            anyadj = g.find(lambda n: any(_is_adj(c, False) for c in pf.node_calls(n)))
            hidden = [c for c in ast.walk(fn) if isinstance(c, ast.Call) and isinstance(c.func, ast.Name) and c.func.id in helpers]
            if hidden:
                declined6.append(f'{cons}: the in-memory adjustment is made by helper `{hidden[0].func.id}` called in a form that cannot be inlined (skipped: {il.skipped})')
                continue
            ctx.check(len(adj) == 1 and len(anyadj) == 1, 'R6', cons + '::applies delta', f'the caller applies {want} to the in-memory free cores {len(adj)} time(s) '
                      f'({len(anyadj)} in-memory adjustment(s) in all), expected exactly once', m.path, e.lineno)
            if len(adj) == 1:
                # no return/raise that tests rc may come before the adjustment
                early = g.find(lambda n: n.kind == 'test' and f"{rvn}['rc']" in pf.nsrc(n.ast))
                dom = g.dominators()
                bad_early = [t for t in early if t.id in dom.get(adj[0].id, set())]
                ctx.check(not bad_early, 'R6', cons + '::before rc', 'the in-memory adjustment happens only after the rc test: a refused report that still changed the database counter is not mirrored '
                          f'(e.g. {proc} returns rc = 1 with delta_cores_mcpu != 0 when the attempt was recorded but the job could not change state: the database row moved, the in-memory copy does not)',
                          m.path, adj[0].lineno)
                # the instance whose in-memory counter is adjusted is the instance named in the CALL (the database adjusted THAT row)
                call = [c for c in pf.node_calls(adj[0]) if _is_adj(c)][0]
                recv = pf.nsrc(call.func.value)
                params = [p_[1].lower() for p_ in prog.routine(proc).ast.params]
                ipos = [i for i, p_ in enumerate(params) if p_ == 'in_instance_name']
                elts = sr.args_tuple(fn, call2.args[1]) if len(call2.args) > 1 else None
                ctx.need(len(ipos) == 1 and elts is not None and len(elts) == len(params), f'{cons}: cannot bind the CALL arguments to the procedure parameters')
                arg = elts[ipos[0]]
                same = pf.nsrc(arg) == f'{recv}.name'
                if not same and isinstance(arg, ast.Name):
                    defs = [d for d in pf.assignments(fn).get(recv, []) if isinstance(d, ast.expr) and not (isinstance(d, ast.Constant) and d.value is None)]
                    same = bool(defs) and all(isinstance(d, ast.Call) and pf.dotted(d.func) is not None and pf.dotted(d.func).endswith('.get_instance')
                                              and [pf.nsrc(a) for a in d.args] == [arg.id] for d in defs)
                other = isinstance(arg, ast.Attribute) and arg.attr == 'name' and pf.nsrc(arg.value) != recv
                ctx.need(same or other or isinstance(arg, ast.Name), f'{cons}: instance argument `{pf.nsrc(arg)}` not recognised')
                ctx.check(same, 'R6', cons + '::same instance', f'the procedure adjusts the database counter of instance `{pf.nsrc(arg)}` but the in-memory adjustment is applied to `{recv}`, '
                          'which is not (provably) that instance: one instance\'s recorded free cores drift from its attempts', m.path, adj[0].lineno)
    ctx.need(not declined6, ' | '.join(declined6))
    ctx.need(n6 >= 5, f'only {n6} call sites of procedures returning delta_cores_mcpu found in driver/job.py')
    # optimistic decrement in the pool scheduler is undone on failure
    pm = pf.load('batch/batch/driver/instance_collection/pool.py')
    dec = [n for n in ast.walk(pm.tree) if isinstance(n, ast.Call) and pf.dotted(n.func) is not None and pf.dotted(n.func).endswith('.adjust_free_cores_in_memory')]
    neg = [c for c in dec if pf.nsrc(c.args[0]) == "-record['cores_mcpu']"]
    pos = [c for c in dec if pf.nsrc(c.args[0]) == "record['cores_mcpu']"]
    ctx.need(len(neg) == 1, 'pool.py: optimistic decrement not found')
    in_handler = False
    for n in ast.walk(pm.tree):
        if isinstance(n, ast.ExceptHandler) and any(c in list(ast.walk(n)) for c in pos):
            tr = pm.parents().get(n)
            in_handler = isinstance(tr, ast.Try) and any(isinstance(x, ast.Call) and pf.dotted(x.func) == 'schedule_job' for b in tr.body for x in ast.walk(b))
    ctx.check(len(pos) == 1 and in_handler, 'R6', f'{pm.rel}::schedule_loop_body::optimistic decrement undone',
              'the in-memory cores taken before schedule_job are not given back in the except handler around schedule_job', pm.path, neg[0].lineno)

    # ---- R8 closed world of the in-memory mirror ----------------------------------------------------------
    r8(ctx, m, pm, neg, pos, procs_with_delta)

    # ---- R9 settlement of the scheduler's in-memory reservation -----------------------------------------------
    declined9: Optional[str] = None
    try:
        r9(ctx, prog, m, procs_with_delta)
    except AnalysisError as e_:
        declined9 = str(e_)

    # ---- R7 lock discipline of the guard reads (last: its declines must not hide verdicts of the other rules) ------
    try:
        r7(ctx, prog, writes)
    except AnalysisError as e_:
        if declined9 is not None:
            raise AnalysisError(f'{declined9} | {e_}')
        raise
    ctx.need(declined9 is None, declined9 or '')
