"""C11 Fair-share allocation is max-min fair  (PARTIAL claim: the local proof obligations of water filling).

Anchors: PoolScheduler._compute_fair_share (batch/driver/instance_collection/pool.py) and its sibling
JobPrivateInstanceManager.compute_fair_share (job_private.py, same algorithm over job counts); both are checked against the same obligations.

The statement quantifies over all multisets of (running, ready) demands and all free amounts; that cannot be settled by sampling and
a static analysis cannot run the loop.  What is decided here, from the syntax tree only (nothing is run, no input is sampled, no solver),
is the set of *step obligations* under which the standard water-filling invariant is inductive.  The loop body is executed abstractly (symbolic transfer functions, no solver)
once per branch combination over polynomial normal forms (engines/polysym.py); every test atom becomes a constraint, and a finite table
over  emptiness(pending) x emptiness(allocating) x rel(head running, mark) x rel(head total, mark) x rel(cost, free)  selects the unique
path each situation takes.  Any shape outside the recognised fragment is declined (exit 2), never alarmed on.

Invariant I (at the loop head; P = pending set, A = allocating set, Z = users already finalised, M = mark, F = free):
    F >= 0;   for u in A: running[u] <= M <= total[u];   for u in P: running[u] >= M;
    for u in Z: allocated[u] = total[u] - running[u] = ready[u];   every record is in exactly one of P, A, Z and in `result`;
    conservation (before rounding):  F0 = F + sum_{u in A}(M - running[u]) + sum_{u in Z} allocated[u].
On exit every u in A receives M - running[u], every u in P keeps 0.  I + the exit condition (F == 0 or P, A both empty) give the
clauses of the statement: (a) no user above its demand [M <= total], (b) non-negative [running <= M], (c) total within rounding of
the free amount [conservation], (d) everything handed out when demand allows [exit condition], (e) users left short sit at the
common level [all of A end at the same M].

Obligations decided (rule ids; the clause each one is necessary for in brackets):
  R1 (O1) keys are stable and mean what the statement says: the dicts read by the two SortedSet key functions are written only in the
          record loop, before the user is inserted; running = the held fields, total - running = the ready field (linear forms); every
          record starts at allocation 0, is put in `result` and in the pending set.                                   [a, b, e]
  R2 (O2) a pending user is moved to the allocating set exactly when its running level equals the mark: head [0] of the set ordered
          by running, remove + add of the same user, no other change, loop re-entered; never for running > mark.        [b, e, termination]
  R3 (O3) an allocating user is finalised exactly when its total equals the mark: head of the set ordered by total, removed and
          allocate(user, mark) for the same user; the helper stores mark - running (rounded to nearest / exact).       [a, d]
  R4 (O4) raise step: level = min over the present heads; cost = len(allocating) * (level - mark); cost is compared with free
          (full step iff cost <= free); full step: mark = level, free -= cost; exhausted step: mark += rounded(free / len(allocating))
          and the loop is left; the divisor is non-zero because cost >(=) free >(=) 0 with one strict and cost has the factor n. [c, d, e]
  R5 (O5) loop guard = free > 0 and (pending or allocating) (table over the sign of free x emptiness); after the loop every user
          still allocating is allocated with the final mark; no other writer of the allocation; every record returned.   [b, d, e]
  R6 (O6) the mark is only ever replaced by mark (no change), the new level, or mark + a non-negative increment.           [b]
  R7      use sites in the same module read the allocation field that the function writes (and nothing else); call shapes bind the free amount.
  R8      shortcut exits before the loop agree with the closed forms of water filling (finite order domain; see the section comment).
  R9      a non-positive free amount hands out nothing ("including zero/negative free cores": for free <= 0 the clauses non-negative and
          total <= free collapse to "every allocation is 0").  This one does NOT assume the two-SortedSet shape: engines/c11sign.py interprets
          the whole function abstractly (intervals + the interval of the free-derived part of every value, container emptiness, test
          refinement, loop fixpoints, local / module-level / same-class helpers interpreted at the call) once per sign case of the free
          amount on entry; a read of a definitely negative free amount that is reachable and flows unclamped into a stored allocation is a
          violation, "no reachable store receives a free-derived part" is the proof, anything relational is declined.  It is evaluated
          before the shape is looked for, so a rewritten algorithm that loses the test of the free amount is reported (exit 1) although
          its step obligations R1-R8 are declined.                                                                  [b, c for free <= 0]
The situation table ranges over head >= mark only (== and >): head < mark is excluded by I itself (pending/allocating users are at or
above the mark), which is re-established by every step once R1-R6 hold; cost-vs-free ranges over <, ==, > (for cost == free both
branches are accepted: they coincide).  Accepted as equivalent and therefore not alarmed on: `<=` for the two equality tests,
`>=` for the exhaustion test (as long as the guard stays strict), a dead `free = 0` before `break`, either order of the two steps,
int()/round()/floor of the quotient, no `+ 0.5` in the helper (integers).
Argued, not mechanised: the induction itself (each step re-establishes I given R1-R6; in the raise step level > mark because both
heads are >= mark by I and != mark by R2/R3, so cost >= 0, n = 0 => cost = 0 <= free), termination (every iteration moves a user or
raises the mark to the next of finitely many breakpoints or leaves), and the rounding bounds: with integer inputs mark stays integer
(int(x + 0.5) of a quotient), cost > free gives free/n < level - mark hence the rounded increment <= level - mark (clause a survives
rounding), and the handed-out total differs from free by at most n/2.
Not decided for a rewritten algorithm (any shape other than the two-SortedSet state machine): R1-R8, i.e. everything about free > 0 - the
upper bound by the ready demand, the total, exhaustion, the common level; these are relational (mark <= total[u], conservation) and no
interval/sign domain decides them; R9 only covers free <= 0.
Not decided: that the SQL query returns one row per user with non-negative integer counters; sortedcontainers.SortedSet semantics;
whether the free amount passed by callers is the pool's real free capacity (and its unit).
"""
from __future__ import annotations

import ast
from fractions import Fraction
from typing import Dict, List, Optional, Sequence, Tuple

from engines import asyncfacts as af
from engines import c11sign as sg
from engines import linform
from engines import polysym as ps
from engines import pyfacts as pf
from engines.common import AnalysisError, Ctx
from engines.polysym import Elem, Mix, Poly, Quot, Rnd, Trunc, UserVar

META = dict(
    category='other',
    text='Partial: the step obligations of the water-filling invariant are decided on the syntax tree by path-wise abstract execution (extraction of symbolic transfer functions) of the '
         'loop body over polynomial normal forms and a finite table over emptiness x order relations (which path each situation takes, and '
         'what it does to the sets, the mark and the free amount), plus linear forms of the key definitions and of the stored allocation. '
         'The induction over loop iterations and the rounding bounds are argued in the module docstring, not mechanised; this is the right '
         'level because the property quantifies over numeric multisets (no sampling) while each step is a closed-form update.  Independently of the loop '
         'shape, the case "zero/negative free cores" is decided by a sign/interval abstract interpretation of the whole function (R9): nothing derived '
         'from a non-positive free amount reaches a stored allocation.',
    note='Trusted: CPython ast; engines/polysym.py, c11sign.py, linform.py, asyncfacts.TestEval; SortedSet keeps its elements ordered by key while keys '
         'are stable. Not decided: the SQL rows (one per user, non-negative integers), the callers\' free amount and its unit, float precision '
         'beyond 2**53.',
    technique='static analysis: per-path symbolic transfer functions of the loop body over polynomial normal forms (abstract interpretation, no solver) + finite truth tables over the order relation + '
              'linear-form comparison + writer closure + interval abstract interpretation with a free-derived-part component (fixpoint with widening, test refinement)',
    design_ref='DESIGN.md §3 C11 (partial claim; design given with the task)',
)

POOL = 'batch/batch/driver/instance_collection/pool.py'
JP = 'batch/batch/driver/instance_collection/job_private.py'

TARGETS = [
    dict(file=POOL, cls='PoolScheduler', func='_compute_fair_share', wrappers=('compute_fair_share',),
         held=('running_cores_mcpu',), ready='ready_cores_mcpu', unit='mCPU', free_call=None),
    dict(file=JP, cls='JobPrivateInstanceManager', func='compute_fair_share', wrappers=(),
         held=('n_creating_jobs', 'n_running_jobs'), ready='n_ready_jobs', unit='jobs', free_call='max_instances_to_create'),
]

MUTATORS = ('pop', 'popitem', 'clear', 'update', 'setdefault', '__setitem__', '__delitem__')


class Shape:
    pass


class Rep:
    """Collects one verdict per (rule, role) so that instance counts do not depend on how many table rows hit a problem."""

    def __init__(self, ctx: Ctx, m: pf.Module, q: str):
        self.ctx, self.m, self.q = ctx, m, q
        self.roles: List[Tuple[str, str]] = []
        self.problems: Dict[Tuple[str, str], Tuple[str, int]] = {}
        self.details: Dict[Tuple[str, str], object] = {}

    def role(self, rule: str, role: str, detail: object = None) -> None:
        if (rule, role) not in self.roles:
            self.roles.append((rule, role))
        if detail is not None:
            self.details[(rule, role)] = detail

    def bad(self, rule: str, role: str, msg: str, line: int = 0) -> None:
        self.role(rule, role)
        self.problems.setdefault((rule, role), (msg, line))

    def flush(self) -> None:
        for rule, role in self.roles:
            cons = f'{self.m.rel}::{self.q}::{role}'
            if (rule, role) in self.problems:
                msg, line = self.problems[(rule, role)]
                self.ctx.bad(rule, cons, msg, self.m.path, line)
            else:
                self.ctx.ok(rule, cons, self.details.get((rule, role)))


# ======================================================================================
# discovery of the water-filling shape
# ======================================================================================


def _name_target(st: ast.stmt) -> Optional[Tuple[str, ast.expr]]:
    if isinstance(st, ast.Assign) and len(st.targets) == 1 and isinstance(st.targets[0], ast.Name):
        return st.targets[0].id, st.value
    if isinstance(st, ast.AnnAssign) and isinstance(st.target, ast.Name) and st.value is not None:
        return st.target.id, st.value
    return None


def discover(ctx: Ctx, m: pf.Module, T: dict) -> Shape:
    S = Shape()
    cls = m.cls(T['cls'])
    fn = af.method(m, cls, T['func'])
    q = f"{T['cls']}.{T['func']}"
    S.fn, S.q, S.cls = fn, q, cls
    body = af.body_no_doc(fn)
    S.body = body
    # the two ordered sets and their key dicts
    sets: Dict[str, str] = {}
    for st in body:
        nt = _name_target(st)
        if nt and isinstance(nt[1], ast.Call) and (pf.dotted(nt[1].func) or '').split('.')[-1] == 'SortedSet':
            c = nt[1]
            ctx.need(not c.args and len(c.keywords) == 1 and c.keywords[0].arg == 'key', f'{q}: SortedSet `{nt[0]}` is not built empty with a key function')
            k = c.keywords[0].value
            ok = isinstance(k, ast.Lambda) and len(k.args.args) == 1 and isinstance(k.body, ast.Subscript) and isinstance(k.body.value, ast.Name) \
                and isinstance(k.body.slice, ast.Name) and k.body.slice.id == k.args.args[0].arg
            ctx.need(ok, f'{q}: key function of `{nt[0]}` is not `lambda u: D[u]`')
            sets[nt[0]] = k.body.value.id  # type: ignore[union-attr]
    ctx.need(len(sets) == 2, f'{q}: expected two SortedSets keyed by dict lookups, found {sorted(sets)}')
    S.sets = sets
    # loops
    rec_loops = [st for st in body if isinstance(st, (ast.For, ast.AsyncFor))
                 and any(isinstance(c, ast.Call) and isinstance(c.func, ast.Attribute) and c.func.attr == 'add'
                         and isinstance(c.func.value, ast.Name) and c.func.value.id in sets for c in ast.walk(st))]
    ctx.need(len(rec_loops) == 1 and not rec_loops[0].orelse, f'{q}: expected one record loop inserting into a SortedSet, found {len(rec_loops)}')
    S.rec = rec_loops[0]
    whiles = [st for st in body if isinstance(st, ast.While)]
    ctx.need(len(whiles) == 1 and not whiles[0].orelse, f'{q}: expected one top-level while loop, found {len(whiles)}')
    S.loop = whiles[0]
    ctx.need(body.index(S.rec) < body.index(S.loop), f'{q}: the record loop does not precede the allocation loop')
    ctx.need(not any(isinstance(n, (ast.While, ast.For, ast.AsyncFor, ast.Try, ast.With, ast.AsyncWith, ast.Return, ast.Await)) for st in S.loop.body for n in ast.walk(st)),
             f'{q}: the allocation loop body contains a nested loop / try / with / return / await (not analysed)')
    # helper storing the allocation
    helpers = []
    for st in body:
        if isinstance(st, ast.FunctionDef):
            hb = af.body_no_doc(st)
            if len(hb) == 1 and isinstance(hb[0], ast.Assign) and len(hb[0].targets) == 1:
                t = hb[0].targets[0]
                if isinstance(t, ast.Subscript) and isinstance(t.slice, ast.Constant) and isinstance(t.slice.value, str) \
                        and isinstance(t.value, ast.Subscript) and isinstance(t.value.value, ast.Name) and isinstance(t.value.slice, ast.Name):
                    helpers.append(st)
    ctx.need(len(helpers) == 1, f'{q}: expected one local helper `def f(user, mark): result[user][FIELD] = ...`, found {len(helpers)}')
    H = helpers[0]
    ctx.need(len(H.args.args) == 2 and not H.args.vararg and not H.args.kwarg and not H.args.defaults, f'{q}: helper {H.name} does not take (user, mark)')
    ht = af.body_no_doc(H)[0].targets[0]  # type: ignore[attr-defined]
    ctx.need(ht.value.slice.id == H.args.args[0].arg, f'{q}: helper {H.name} does not index the result by its first parameter')
    S.helper, S.alloc_field, S.result = H, ht.slice.value, ht.value.value.id
    ctx.need(body.index(H) < body.index(S.loop), f'{q}: helper defined after the loop')
    # the per-user dicts: bound to an empty dict before the record loop (the result excluded)
    S.dicts = []
    for st in body[:body.index(S.rec)]:
        nt = _name_target(st)
        if nt and nt[0] != S.result and ((isinstance(nt[1], ast.Dict) and not nt[1].keys) or
                                         (isinstance(nt[1], ast.Call) and pf.dotted(nt[1].func) == 'dict' and not nt[1].args and not nt[1].keywords)):
            S.dicts.append(nt[0])
    ctx.need(all(d in S.dicts for d in sets.values()), f'{q}: a SortedSet key reads a dict that is not bound to an empty dict before the record loop')
    # roles of the sets: pending = the one filled by the record loop
    added = {c.func.value.id for c in ast.walk(S.rec) if isinstance(c, ast.Call) and isinstance(c.func, ast.Attribute) and c.func.attr == 'add'
             and isinstance(c.func.value, ast.Name) and c.func.value.id in sets}
    ctx.need(len(added) == 1, f'{q}: the record loop inserts into {sorted(added)} (expected exactly one set)')
    S.P = added.pop()
    S.A = [s for s in sets if s != S.P][0]
    # the free amount: the name compared with 0 in the loop guard
    frees = set()
    for a in ast.walk(S.loop.test):
        if isinstance(a, ast.Compare) and len(a.ops) == 1:
            l, r = a.left, a.comparators[0]
            for x, y in ((l, r), (r, l)):
                if isinstance(x, ast.Name) and isinstance(y, ast.Constant) and isinstance(y.value, (int, float)) and not isinstance(y.value, bool) and y.value == 0:
                    frees.add(x.id)
    ctx.need(len(frees) == 1, f'{q}: the loop guard `{pf.nsrc(S.loop.test)}` does not compare exactly one name with 0')
    S.free = frees.pop()
    # the mark: assigned before the loop at top level and inside the loop, and not the free amount
    in_loop = set()
    for st in S.loop.body:
        for n in ast.walk(st):
            if isinstance(n, ast.Name) and isinstance(n.ctx, ast.Store):
                in_loop.add(n.id)
    before = {}
    for st in body[:body.index(S.loop)]:
        nt = _name_target(st)
        if nt:
            before.setdefault(nt[0], []).append(nt[1])
    marks = [n for n in in_loop if n in before and n != S.free and n not in sets and n not in sets.values()]
    ctx.need(len(marks) == 1, f'{q}: cannot identify the water-level variable (candidates {sorted(marks)})')
    S.mark = marks[0]
    init = before[S.mark]
    ctx.need(len(init) == 1 and isinstance(init[0], ast.Constant) and init[0].value == 0 and not isinstance(init[0].value, bool),
             f'{q}: `{S.mark}` is not initialised once with the literal 0 before the loop')
    params = [a.arg for a in fn.args.args]
    ctx.need(S.free in params or S.free in before, f'{q}: the free amount `{S.free}` is neither a parameter nor assigned before the loop')
    S.free_is_param = S.free in params
    S.free_defs = before.get(S.free, [])
    ctx.need(S.free in in_loop, f'{q}: `{S.free}` is never updated in the loop')
    # shortcut exits: top-level `if` statements between the record loop and the allocation loop (analysed by R8); every other
    # top-level statement that is not one of the recognised parts must not touch the quantities the analysis speaks about
    S.shortcuts = [st for st in body[body.index(S.rec) + 1:body.index(S.loop)] if isinstance(st, ast.If)]
    relevant = {S.free, S.mark, S.result, H.name} | set(sets) | set(S.dicts)
    for st in body:
        if st is S.rec or st is H or st is S.loop or st in S.shortcuts or isinstance(st, ast.Return):
            continue
        if isinstance(st, (ast.For, ast.AsyncFor)) and any(isinstance(c, ast.Call) and pf.dotted(c.func) == H.name for c in ast.walk(st)):
            continue   # the final loop (judged by R5)
        nt = _name_target(st)
        if nt is not None:
            if nt[0] == S.mark:
                ctx.need(body.index(st) < body.index(S.loop), f'{q}: `{pf.nsrc(st)[:70]}` rebinds the water level after the allocation loop (not analysed)')
            if nt[0] == S.free:
                ctx.need(body.index(st) < body.index(S.rec), f'{q}: `{pf.nsrc(st)[:70]}` rebinds the free amount after the records are read (not analysed)')
            if nt[0] in sets or nt[0] == H.name:
                ctx.need(sum(1 for x in body if (_name_target(x) or ('',))[0] == nt[0]) == 1, f'{q}: `{nt[0]}` is bound more than once')
            continue
        if isinstance(st, ast.Expr) and (isinstance(st.value, ast.Constant) or (isinstance(st.value, ast.Call) and (pf.dotted(st.value.func) or '').startswith('log.'))):
            continue
        for n in ast.walk(st):
            touched = (isinstance(n, ast.Name) and n.id in relevant and isinstance(n.ctx, (ast.Store, ast.Del))) \
                or (isinstance(n, ast.Subscript) and isinstance(n.ctx, (ast.Store, ast.Del))) \
                or (isinstance(n, ast.Call) and isinstance(n.func, ast.Attribute) and isinstance(n.func.value, ast.Name) and n.func.value.id in relevant) \
                or isinstance(n, (ast.Return, ast.Await, ast.Yield, ast.YieldFrom))
            ctx.need(not touched, f'{q}: top-level statement `{pf.nsrc(st)[:70]}` at line {st.lineno} touches the allocation state outside the recognised parts (not analysed)')
    return S


# ======================================================================================
# R1: record loop and key stability
# ======================================================================================


def check_records(ctx: Ctx, rep: Rep, m: pf.Module, T: dict, S: Shape) -> Dict[str, linform.Lin]:
    q, rec = S.q, S.rec
    ctx.need(isinstance(rec.target, ast.Name), f'{q}: record loop target is not a plain name')
    rv = rec.target.id
    dicts = sorted(S.dicts)
    env: Dict[str, ast.AST] = {}
    user_names = set()
    writes: Dict[str, List[Tuple[int, ast.expr]]] = {}
    add_pos: List[int] = []
    init_pos: List[int] = []
    res_pos: List[int] = []
    for i, st in enumerate(rec.body):
        ctx.need(isinstance(st, (ast.Assign, ast.AnnAssign, ast.Expr)), f'{q}: record loop contains `{pf.nsrc(st)[:60]}` (only straight-line statements are analysed)')
        nt = _name_target(st)
        if nt:
            name, val = nt
            if pf.nsrc(val) == f"{rv}['user']":
                user_names.add(name)
            else:
                env[name] = val
            continue
        if isinstance(st, ast.Assign) and len(st.targets) == 1 and isinstance(st.targets[0], ast.Subscript) and isinstance(st.targets[0].value, ast.Name):
            t = st.targets[0]
            base = t.value.id  # type: ignore[attr-defined]
            if base in dicts or base == S.result:
                ctx.need((isinstance(t.slice, ast.Name) and t.slice.id in user_names) or pf.nsrc(t.slice) == f"{rv}['user']",
                         f'{q}: `{pf.nsrc(st)}` is not keyed by the record\'s user')
                if base == S.result:
                    ctx.need(isinstance(st.value, ast.Name) and st.value.id == rv, f'{q}: `{pf.nsrc(st)}` does not store the record itself')
                    res_pos.append(i)
                else:
                    writes.setdefault(base, []).append((i, st.value))
                continue
            if base == rv and isinstance(t.slice, ast.Constant) and t.slice.value == S.alloc_field:
                ctx.need(isinstance(st.value, ast.Constant) and not isinstance(st.value.value, bool) and isinstance(st.value.value, (int, float)),
                         f'{q}: `{pf.nsrc(st)}` does not initialise the allocation with a literal')
                if st.value.value == 0:
                    init_pos.append(i)
                else:
                    rep.bad('R1', 'record loop::allocation starts at 0', f'`{pf.nsrc(st)}`: a user that is never admitted (running above the final level) keeps '
                            f'{st.value.value} instead of 0: e.g. users {{a: running 0 ready 4000, b: running 9000 ready 1000}} and 1000 free', st.lineno)
                    init_pos.append(i)
                continue
            if base == rv and isinstance(t.slice, ast.Constant) and isinstance(t.slice.value, str):
                continue   # some other field of the record (not read by the allocation)
            raise AnalysisError(f'{q}: unrecognised store `{pf.nsrc(st)}` in the record loop')
        if isinstance(st, ast.Expr) and isinstance(st.value, ast.Call) and isinstance(st.value.func, ast.Attribute) and st.value.func.attr == 'add' \
                and pf.nsrc(st.value.func.value) == S.P and len(st.value.args) == 1:
            a = st.value.args[0]
            ctx.need((isinstance(a, ast.Name) and a.id in user_names) or pf.nsrc(a) == f"{rv}['user']", f'{q}: `{pf.nsrc(st)}` does not insert the record\'s user')
            add_pos.append(i)
            continue
        if isinstance(st, ast.Expr) and isinstance(st.value, ast.Constant):
            continue
        raise AnalysisError(f'{q}: unrecognised statement `{pf.nsrc(st)[:80]}` in the record loop')
    ctx.need(len(add_pos) == 1, f'{q}: the record loop inserts into {S.P} {len(add_pos)} times')
    # record loop completeness
    role = 'record loop::allocation starts at 0'
    rep.role('R1', role)
    if not init_pos:
        rep.bad('R1', role, f"the record loop never sets record['{S.alloc_field}'] = 0: users that are never admitted have no allocation field "
                f"(KeyError in the consumers / in the sort of the result), e.g. users {{a: running 0 ready 4000, b: running 9000 ready 1000}} and 1000 free", rec.lineno)
    role = 'record loop::every record is returned'
    rep.role('R1', role)
    if not res_pos:
        rep.bad('R1', role, f'the record loop does not store the record in `{S.result}`: the helper\'s `{S.result}[user]` raises KeyError for the first user admitted', rec.lineno)
    # key dict writes: in the record loop only, once, before the insertion
    lins: Dict[str, linform.Lin] = {}
    for d in dicts:
        role = f'key dict {d}::written once per record (before the insertion it orders), never afterwards'
        rep.role('R1', role)
        w = writes.get(d, [])
        ctx.need(len(w) <= 1, f'{q}: `{d}[user]` is written {len(w)} times in the record loop')
        if not w:
            rep.bad('R1', role, f'`{d}[user]` is never written in the record loop: the key function of the SortedSet raises KeyError at the first insertion', rec.lineno)
            continue
        if w[0][0] > add_pos[0] and d == S.sets[S.P]:   # only the key of the set being inserted into is evaluated at the insertion
            rep.bad('R1', role, f'`{d}[user]` is written after `{S.P}.add(user)`: the SortedSet evaluates its key at insertion (KeyError / stale order)', rec.body[w[0][0]].lineno)
        try:
            lins[d] = linform.lin(w[0][1], env)
        except AnalysisError as e:
            raise AnalysisError(f'{q}: definition of {d}[user] is not linear in the record fields ({e})')
        # no other writer anywhere in the function (nested defs included)
        for n in ast.walk(S.fn):
            line = getattr(n, 'lineno', 0)
            if isinstance(n, ast.Subscript) and isinstance(n.value, ast.Name) and n.value.id == d and isinstance(n.ctx, (ast.Store, ast.Del)):
                inside = any(n is x for st in rec.body for x in ast.walk(st))
                if not inside:
                    rep.bad('R1', role, f'`{d}[...]` is modified at line {line}, outside the record loop: the key of a user that is already in a SortedSet changes, '
                            'the set is no longer ordered and its head [0] is not the minimum any more', line)
            elif isinstance(n, ast.Call) and isinstance(n.func, ast.Attribute) and isinstance(n.func.value, ast.Name) and n.func.value.id == d and n.func.attr in MUTATORS:
                rep.bad('R1', role, f'`{pf.nsrc(n)}` mutates the key dict while users are in a SortedSet ordered by it', line)
            elif isinstance(n, ast.Name) and n.id == d and isinstance(n.ctx, ast.Store):
                defs = [st for st in S.body if (_name_target(st) or ('', None))[0] == d]
                ok = len(defs) == 1 and ((isinstance(defs[0].value, ast.Dict) and not defs[0].value.keys) or
                                         (isinstance(defs[0].value, ast.Call) and pf.dotted(defs[0].value.func) == 'dict' and not defs[0].value.args and not defs[0].value.keywords))
                ctx.need(ok and S.body.index(defs[0]) < S.body.index(rec), f'{q}: `{d}` is not bound exactly once to an empty dict before the record loop')
    S.rv = rv
    return lins


def check_meaning(ctx: Ctx, rep: Rep, T: dict, S: Shape, lins: Dict[str, linform.Lin], DP: Optional[str], DA: Optional[str], D3: Optional[str]) -> None:
    """Linear forms of the key definitions against the statement's quantities and against each other."""
    rv = S.rv
    held = linform.Lin({f"{rv}['{f}']": 1 for f in T['held']})
    ready = linform.Lin({f"{rv}['{T['ready']}']": 1})
    u = T['unit']
    role = 'running level = the fields the user already holds'
    rep.role('R1', role)
    if D3 is not None and D3 in lins and lins[D3] != held:
        rep.bad('R1', role, f'the level the allocation is measured from is `{lins[D3]}`, the statement\'s running amount is `{held}`: users are not levelled on '
                f'running + allocated; e.g. users {{a: running 0 ready 4000, b: running 3000 ready 4000}} and 2000 {u} free must give a 2000, b 0', S.rec.lineno)
    role = 'total = running + ready'
    rep.role('R1', role)
    if D3 is not None and DA is not None and D3 in lins and DA in lins and (lins[DA] - lins[D3]) != ready:
        rep.bad('R1', role, f'cap - level = `{lins[DA] - lins[D3]}` instead of `{ready}`: a user is finalised at mark = cap and receives cap - running, which is not its '
                f'ready demand; e.g. user {{a: running 0 ready 4000}} and 4000 {u} free must give a 4000', S.rec.lineno)
    role = 'pending set ordered by the level its head is tested on'
    rep.role('R2', role)
    kp = S.sets[S.P]
    if DP is not None and kp in lins and DP in lins and lins[kp] != lins[DP]:
        rep.bad('R2', role, f'{S.P} is ordered by `{kp}` (= {lins[kp]}) but its head is compared with the mark on `{DP}` (= {lins[DP]}): [0] is not the user with the '
                f'lowest running level, a user below it is passed over and never admitted; e.g. users {{a: running 0 ready 5000, b: running 1000 ready 1000}} and '
                f'2000 {u} free: b heads the set, the mark jumps to 1000, a (running 0 != mark) starves', S.rec.lineno)
    if DP is not None and D3 is not None and DP in lins and D3 in lins and lins[DP] != lins[D3]:
        rep.bad('R2', role, f'users are admitted when `{DP}` (= {lins[DP]}) equals the mark but charged from `{D3}` (= {lins[D3]}): at admission mark - {D3} is not 0, '
                'the allocation is negative or starts above zero', S.rec.lineno)
    role = 'allocating set ordered by the cap its head is tested on'
    rep.role('R3', role)
    ka = S.sets[S.A]
    if DA is not None and ka in lins and DA in lins and lins[ka] != lins[DA]:
        rep.bad('R3', role, f'{S.A} is ordered by `{ka}` (= {lins[ka]}) but its head is compared with the mark on `{DA}` (= {lins[DA]}): [0] is not the user with the '
                f'lowest total, the level is raised past a smaller total and that user is allocated more than its ready demand; e.g. users '
                f'{{a: running 0 ready 5000, b: running 500 ready 1000}} and 6000 {u} free: a heads the set, the mark goes 500 -> 3500, b receives 3000', S.rec.lineno)


# ======================================================================================
# R3 (helper), R5 (guard table)
# ======================================================================================


def check_helper(ctx: Ctx, rep: Rep, T: dict, S: Shape) -> Optional[str]:
    """The helper must store mark - running[user] (exactly, or rounded to an adjacent integer).  Returns the dict it reads."""
    H = S.helper
    q = f'{S.q}.{H.name}'
    u = T['unit']
    role = f'helper {H.name} stores mark - running'
    rep.role('R3', role)
    sx = ps.SymExec([], sorted(S.dicts), None, q)
    p = ps.Path({H.args.args[0].arg: UserVar('user'), H.args.args[1].arg: Poly.sym('mark')})
    st = af.body_no_doc(H)[0]
    v = sx.ev(st.value, p)  # type: ignore[attr-defined]
    mode = None
    if isinstance(v, Trunc):
        v, mode = v.poly, v.mode
    ctx.need(isinstance(v, Poly), f'{q}: stored value `{pf.nsrc(st.value)}` is not linear in mark and the running level')  # type: ignore[attr-defined]
    ctx.need(all(len(k) <= 1 for k in v.t), f'{q}: stored value is not linear')
    usyms = [s for s in v.symbols() if s in sx.valsyms]
    others = [s for s in v.symbols() if s not in sx.valsyms and s != 'mark']
    ctx.need(not others and len(usyms) <= 1, f'{q}: stored value mentions {others + usyms}')
    c = v.const_value()
    if v.coef('mark') != 1 or len(usyms) != 1 or v.coef(usyms[0]) != -1:
        rep.bad('R3', role, f'stores `{pf.nsrc(st.value)}` = {v}, not mark - running[user]: a finalised user (mark == total) must receive total - running = ready and a '  # type: ignore[attr-defined]
                f'user left short mark - running; e.g. user {{a: running 1000 ready 1000}} and 4000 {u} free must receive 1000', st.lineno)
        return sx.valsyms[usyms[0]][0] if usyms else None
    window = {None: c == 0, 'trunc': 0 <= c < 1, 'floor': 0 <= c < 1, 'round': -Fraction(1, 2) < c < Fraction(1, 2), 'ceil': -1 < c <= 0}[mode]
    if not window:
        rep.bad('R3', role, f'stores `{pf.nsrc(st.value)}`: with integer mark and running this is mark - running {"+" if c > 0 else "-"} {abs(int(c)) if mode else abs(float(c))} '  # type: ignore[attr-defined]
                f'or worse, not mark - running: a finalised user receives more (or less) than its ready demand; e.g. user {{a: running 0 ready 1000}} and 4000 {u} free', st.lineno)
    rep.details[('R3', role)] = {'stored': repr(v), 'rounding': mode or 'none'}
    return sx.valsyms[usyms[0]][0]


def check_guard(ctx: Ctx, rep: Rep, T: dict, S: Shape) -> bool:
    """Table of the loop guard over sign(free) x emptiness.  Returns True iff free == 0 keeps the loop out (strict guard)."""
    u = T['unit']
    role = 'loop guard = free > 0 and (pending or allocating)'
    rep.role('R5', role)
    rows = af.TestEval(S.free, '0', [S.P, S.A]).rows(S.loop.test)
    strict = True
    for rel, ne, val in rows:
        some = ne[S.P] or ne[S.A]
        if rel == '<' and val:
            rep.bad('R5', role, f'`{pf.nsrc(S.loop.test)}` enters the loop with a negative free amount: cost > free holds at once, the mark moves by int(free / n + 0.5) < 0 and '
                    f'users receive negative allocations (ZeroDivisionError when nobody is allocating yet); e.g. user {{a: running 0 ready 4000}} and -2000 {u} free', S.loop.lineno)
        elif val and not some:
            rep.bad('R5', role, f'`{pf.nsrc(S.loop.test)}` enters the loop with both sets empty: min() of an empty sequence raises ValueError; e.g. user {{a: running 0 ready 1000}} '
                    f'and 4000 {u} free, after a is finalised', S.loop.lineno)
        elif rel == '>' and some and not val:
            ex = (f'user {{a: running 0 ready 4000}} and 4000 {u} free: a is admitted, {S.P} is empty, the loop stops at mark 0 and a receives 0' if (ne[S.A] and not ne[S.P])
                  else f'user {{a: running 0 ready 4000}} and 4000 {u} free: {S.A} is empty at the start, the loop never runs and a receives 0' if (ne[S.P] and not ne[S.A])
                  else f'users with demand and {u} free')
            rep.bad('R5', role, f'`{pf.nsrc(S.loop.test)}` leaves the loop although free > 0 and a user is still waiting (pending non-empty: {ne[S.P]}, allocating non-empty: '
                    f'{ne[S.A]}): free capacity is not handed out; e.g. {ex}', S.loop.lineno)
        elif rel == '==' and val:
            strict = False
    rep.details[('R5', role)] = {'rows': len(rows), 'free == 0 enters': not strict}
    return strict


# ======================================================================================
# R2 / R3 / R4 / R6: the loop body, path by path and situation by situation
# ======================================================================================

RELV = {'<': -1, '==': 0, '>': 1}


class LoopFacts:
    pass


def _split_cost(diff: Poly) -> Optional[Tuple[Poly, int]]:
    """diff == sign * (X - F) with X free of F."""
    if any('F' in k and k != ('F',) for k in diff.t):
        return None
    cf = diff.coef('F')
    if cf == -1:
        return diff + Poly.sym('F'), 1
    if cf == 1:
        return Poly.sym('F') - diff, -1
    return None


def check_loop(ctx: Ctx, rep: Rep, T: dict, S: Shape, strict_guard: bool) -> Tuple[Optional[str], Optional[str]]:
    q, u, P, A = S.q, T['unit'], S.P, S.A
    M, F = Poly.sym('M'), Poly.sym('F')
    sx = ps.SymExec([P, A], sorted(S.dicts), S.helper.name, q)
    paths = sx.block(S.loop.body, ps.Path({S.mark: M, S.free: F}))
    ctx.need(paths, f'{q}: no path through the loop body')
    line = S.loop.lineno

    R2, R3 = 'transfer step (pending -> allocating iff head running == mark)', 'finalise step (allocating -> done iff head total == mark)'
    R4L, R4C, R4T = 'raise step::level = min over the present heads', 'raise step::cost = len(allocating) * (level - mark)', 'raise step::cost compared with free'
    R4F, R4E, R4D = 'raise step::full step (mark = level, free -= cost)', 'raise step::exhausted step (mark += rounded(free / n), loop left)', 'raise step::divisor non-zero'
    R6 = 'mark never decreases'
    for r, role in (('R2', R2), ('R3', R3), ('R4', R4L), ('R4', R4C), ('R4', R4T), ('R4', R4F), ('R4', R4E), ('R4', R4D), ('R6', R6)):
        rep.role(r, role)

    # ---- the head symbols ----------------------------------------------------------
    heads: Dict[str, Optional[str]] = {P: None, A: None}
    hdict: Dict[str, Optional[str]] = {P: None, A: None}
    for s, (d, st, idx) in sx.valsyms.items():
        ctx.need(st in (P, A), f'{q}: `{s}` is not a lookup of a set element')
        if idx != 0:
            rep.bad('R2' if st == P else 'R3', R2 if st == P else R3,
                    f'`{s}` reads element [{idx}] of {st}, not its head [0]: the user with the lowest key is not the one tested against the mark, the level is raised past it; '
                    f'e.g. users {{a: running 0 ready 1000, b: running 0 ready 4000}} and 5000 {u} free', line)
            raise AnalysisError(f'{q}: the loop does not work on the head of {st} (reported); the step table is not evaluated')
        ctx.need(heads[st] in (None, s), f'{q}: the head of {st} is looked up in two dicts ({heads[st]}, {s})')  # type: ignore[index]
        heads[st], hdict[st] = s, d  # type: ignore[index]
    hP, hA = heads[P], heads[A]

    # ---- static per-path facts -------------------------------------------------------
    for p in paths:
        p.cost = None
        for c, _ in p.cons:
            if c.kind == 'cmp' and 'F' in c.diff.symbols():
                sc = _split_cost(c.diff)
                if sc is None:
                    p.err = p.err or f'{q}: `{c.src}` is not a comparison of a cost with the free amount'
                    continue
                if not sc[0].is_const():
                    if p.cost is not None and p.cost != sc[0]:
                        p.err = p.err or f'{q}: two different costs are compared with the free amount'
                    p.cost = sc[0]

    def ev(c: ps.Constraint, sc: dict) -> bool:
        if c.kind == 'ne':
            return sc['ne'][c.set] == c.pol
        d = c.diff
        if 'F' in d.symbols():
            X, sign = _split_cost(d)  # type: ignore[misc]
            if X.is_const():
                c0 = X.const_value()
                if c0 < 0 or (c0 == 0 and strict_guard):
                    return ps.cmp0(-sign, c.op)
                raise AnalysisError(f'{q}: cannot decide `{c.src}` from the loop guard')
            return ps.cmp0(sign * RELV[sc['relc']], c.op)
        for h in (hP, hA):
            if h is None:
                continue
            for sg in (1, -1):
                if d == (Poly.sym(h) - M).scale(sg):
                    rel = sc['rel'][h]
                    if rel is None:
                        raise AnalysisError(f'{q}: `{c.src}` is evaluated although the set is empty (internal)')
                    return ps.cmp0(sg * RELV[rel], c.op)
        raise AnalysisError(f'{q}: test `{c.src}` is not a comparison head-vs-mark or cost-vs-free (not a recognised water-filling step)')

    def match(sc: dict):
        """(path, crash-set) for the unique path this situation takes."""
        found = []
        for p in paths:
            ok, crash = True, None
            for c, val in p.cons:
                if c.kind == 'head':
                    if not sc['ne'][c.set]:
                        crash = c
                        break
                    continue
                if ev(c, sc) != val:
                    ok = False
                    break
            if ok:
                found.append((p, crash))
        crashes = [f for f in found if f[1] is not None]
        if crashes:
            return crashes[0]   # execution stops at the failing read; the paths beyond it are not distinguished
        ctx.need(len(found) == 1, f'{q}: {len(found)} paths match one situation (internal)')
        return found[0]

    def describe(sc: dict) -> str:
        parts = []
        for st, h, nm in ((P, hP, 'running'), (A, hA, 'total')):
            if not sc['ne'][st]:
                parts.append(f'{st} empty')
            elif h is not None:
                parts.append(f'{st} non-empty with head {nm} {sc["rel"][h]} mark')
            else:
                parts.append(f'{st} non-empty')
        return ', '.join(parts)

    def match_cost(X: Poly):
        lens = [s for s in X.symbols() if s in sx.lensyms]
        if len(lens) == 1 and len(X.t) == 2:
            n = lens[0]
            if X.coef('M', n) == -1:
                others = [k for k in X.t if k != tuple(sorted(('M', n)))]
                k = others[0]
                if len(k) == 2 and n in k and X.t[k] == 1:
                    a = [s for s in k if s != n] or [n]
                    return n, a[0]
        if not lens and len(X.t) == 2 and X.coef('M') == -1:
            k = [k for k in X.t if k != ('M',)][0]
            if len(k) == 1 and X.t[k] == 1:
                return '', k[0]
        return None

    seen_full = seen_exh = False
    div_zero: Optional[str] = None
    exh_on_eq = False
    n_rows = 0
    for Pne in (True, False):
        for Ane in (True, False):
            if not (Pne or Ane):
                continue
            for rr in (('==', '>') if (Pne and hP) else (None,)):
                for rt in (('==', '>') if (Ane and hA) else (None,)):
                    for relc in ('<', '==', '>'):
                        sc = {'ne': {P: Pne, A: Ane}, 'rel': {hP: rr, hA: rt}, 'relc': relc}
                        p, crash = match(sc)
                        n_rows += 1
                        can_t, can_f = bool(Pne and rr == '=='), bool(Ane and rt == '==')
                        where = describe(sc)
                        if crash is not None:
                            rl, role = ('R2', R2) if crash.set == P else ('R3', R3)
                            rep.bad(rl, role, f'`{crash.src}` is read when {crash.set} is empty ({where}): IndexError; e.g. user {{a: running 0 ready 4000}} and 4000 {u} free '
                                    f'({P} is empty once a is admitted; {A} is empty at the start)', line)
                            continue
                        if p.err is not None:
                            raise AnalysisError(f'{p.err} [situation: {where}]')
                        dm, df = ps.as_poly(p.env[S.mark]), ps.as_poly(p.env[S.free])
                        rem = [(e[1], e[2]) for e in p.eff if e[0] == 'remove']
                        add = [(e[1], e[2]) for e in p.eff if e[0] == 'add']
                        alc = [(e[1], e[2]) for e in p.eff if e[0] == 'alloc']
                        eline = p.eff[0][3] if p.eff else line
                        unchanged = isinstance(dm, Poly) and dm == M and isinstance(df, Poly) and df == F
                        # ------------------------------------------------ steps that move a user
                        if rem or add or alc:
                            ctx.need(unchanged and p.outcome in ('fall', 'continue'), f'{q}: a path both moves a user and changes mark/free or leaves the loop (not analysed)')
                            eP, eA = Elem(P, 0), Elem(A, 0)
                            if (rem, add, alc) == ([(P, eP)], [(A, eP)], []):
                                kind = 'transfer'
                            elif (rem, add) == ([(A, eA)], []) and len(alc) == 1 and alc[0][0] == eA:
                                kind = 'final'
                                lv = alc[0][1]
                                if not (isinstance(lv, Poly) and (lv == M or (hA and lv == Poly.sym(hA)))):
                                    rep.bad('R3', R3, f'the finalised user is allocated with level `{lv}` instead of the mark: it must receive mark - running = total - running = ready', eline)
                            elif rem == [(P, eP)] and not add and not alc:
                                rep.bad('R2', R2, f'the head of {P} is removed but not added to {A}: the user is dropped and receives 0 although cores are free; '
                                        f'e.g. user {{a: running 0 ready 4000}} and 4000 {u} free', eline)
                                continue
                            elif not rem and add == [(A, eP)] and not alc:
                                rep.bad('R2', R2, f'the head of {P} is added to {A} but stays in {P}: the next iteration finds the same head with running == mark, the loop never ends', eline)
                                continue
                            elif rem == [(P, eP)] and add and not alc:
                                rep.bad('R2', R2, f'the head of {P} is removed but `{add[0][1]}` is added to {add[0][0]}: the admitted user is not the one taken from the pending set '
                                        '(one user dropped, another duplicated)', eline)
                                continue
                            elif rem == [(A, eA)] and not add and not alc:
                                rep.bad('R3', R3, f'the head of {A} is removed without recording its allocation: a user whose demand is met keeps 0; '
                                        f'e.g. users {{a: running 0 ready 1000, b: running 0 ready 4000}} and 5000 {u} free: a must receive 1000', eline)
                                continue
                            elif not rem and not add and len(alc) == 1 and alc[0][0] == eA:
                                rep.bad('R3', R3, f'the head of {A} is allocated but not removed: the next iteration finds the same head with total == mark, the loop never ends', eline)
                                continue
                            elif rem == [(A, eA)] and not add and len(alc) == 1:
                                rep.bad('R3', R3, f'the head of {A} is removed but the allocation is recorded for `{alc[0][0]}`: the finalised user keeps 0', eline)
                                continue
                            else:
                                raise AnalysisError(f'{q}: unrecognised combination of set operations {p.eff} [situation: {where}]')
                            if kind == 'transfer' and not can_t:
                                rep.bad('R2', R2, f'a pending user is admitted although its running level is above the mark ({where}): it is allocated mark - running < 0; '
                                        f'e.g. users {{a: running 4000 ready 1000, b: running 0 ready 4000}} and 1000 {u} free give a a negative allocation', eline)
                            if kind == 'final' and not can_f:
                                rep.bad('R3', R3, f'an allocating user is finalised although its total is above the mark ({where}): it leaves with mark - running < ready while cores '
                                        f'are still free; e.g. user {{a: running 0 ready 4000}} and 4000 {u} free: a is finalised at mark 0 and receives 0', eline)
                            continue
                        # ------------------------------------------------ steps that move nobody
                        if can_t or can_f:
                            rl, role = ('R2', R2) if can_t else ('R3', R3)
                            what = 'a pending user whose running level equals the mark is not admitted' if can_t else 'an allocating user whose total equals the mark is not finalised'
                            rep.bad(rl, role, f'{what} before the level is raised ({where}): the next level min(...) equals the mark, the step is 0 and the loop never ends '
                                    f'(or the user is skipped for good); e.g. user {{a: running 0 ready 4000}} and 4000 {u} free', line)
                            continue
                        if unchanged:
                            if p.outcome == 'break':
                                rep.bad('R5', 'loop guard = free > 0 and (pending or allocating)', f'the loop is left although free > 0 and users are waiting ({where})', line)
                            else:
                                rep.bad('R4', R4F, f'an iteration changes nothing ({where}): the loop never ends', line)
                            continue
                        # raise step
                        X = p.cost
                        if X is None:
                            rep.bad('R4', R4T, f'the level is raised without comparing the cost with the free amount ({where}): more than the free amount is handed out; '
                                    f'e.g. users {{a: running 0 ready 4000, b: running 0 ready 4000}} and 4000 {u} free give both 4000', line)
                            continue
                        mc = match_cost(X)
                        ctx.need(mc is not None, f'{q}: cost `{X}` is not of the form n * (level - mark) [situation: {where}]')
                        nsym, asym = mc  # type: ignore[misc]
                        if nsym == '' or sx.lensyms.get(nsym) != A:
                            rep.bad('R4', R4C, f'the cost of raising the level is `{X}`, not len({A}) * (level - mark): every allocating user (and nobody else) receives the '
                                    f'step; e.g. users {{a: running 0 ready 4000, b: running 0 ready 4000}} and 4000 {u} free: once both are admitted the cost of the step to 4000 '
                                    f'is 8000, not {"0" if nsym else "4000"}, and both would receive 4000', line)
                            continue
                        if not Ane and not (relc == '<' or (relc == '==' and not strict_guard)):
                            continue   # infeasible: n == 0 makes the cost 0, and free > 0
                        want = [Poly.sym(h) for h, ne in ((hP, Pne), (hA, Ane)) if ne and h]
                        kindc, cands = sx.aggs.get(asym, ('min', [Poly.sym(asym)]))
                        if kindc != 'min' or set(cands) != set(want):
                            rep.bad('R4', R4L, f'the next level is `{asym}`, not the minimum of {{{", ".join(map(repr, want))}}} ({where}): the level is raised past a user that has to '
                                    f'be admitted / finalised first; e.g. users {{a: running 0 ready 4000, b: running 1000 ready 1000}} and 3000 {u} free must give a 2000 and b 1000, '
                                    'a level raised to 4000 at once gives a 3000 and b 0', line)
                            continue
                        lvl = Poly.sym(asym)
                        exh = not isinstance(dm, Poly)
                        if exh:
                            if isinstance(dm, Rnd):
                                dm = Mix(Poly.const(0), dm, 1)
                            ctx.need(isinstance(dm, Mix), f'{q}: new mark `{dm}` not recognised')
                            if relc == '<':
                                rep.bad('R4', R4T, f'the exhausted branch is taken although cost < free ({where}): mark moves by free / n > level - mark, past the next user\'s total; '
                                        f'e.g. users {{a: running 0 ready 1000, b: running 0 ready 4000}} and 6000 {u} free: a receives 3000', line)
                                continue
                            if not Ane:
                                div_zero = where
                                continue
                            seen_exh = True
                            exh_on_eq = exh_on_eq or relc == '=='
                            if dm.poly == lvl and dm.sign == 1:
                                rep.bad('R4', R4E, f'when cost > free ({where}) the mark becomes `level + {dm.rnd}`: it is raised to the level whose cost exceeds the free amount and '
                                        f'then further; e.g. users {{a: running 0 ready 4000, b: running 0 ready 4000}} and 4000 {u} free must end at mark 2000, not 6000', line)
                                continue
                            if dm.poly != M or dm.sign != 1:
                                rep.bad('R6', R6, f'in the exhausted branch the mark becomes `{dm}`, not mark + increment: it can fall below the level already handed out; e.g. user '
                                        f'{{a: running 1000 ready 4000}} and 1000 {u} free: the mark is 1000 when a is admitted and must end at 2000', line)
                                continue
                            qd = dm.rnd.q
                            if qd.num != F or qd.den != Poly.sym(nsym):
                                rep.bad('R4', R4E, f'the exhausted increment is `{dm.rnd}`, not the free amount divided among the len({A}) allocating users: the handed-out total is '
                                        f'not the free amount; e.g. users {{a: running 0 ready 4000, b: running 0 ready 4000}} and 4000 {u} free must give 2000 each', line)
                                continue
                            off = qd.off
                            win = {'exact': off == 0, 'trunc': 0 <= off < 1, 'floor': 0 <= off < 1, 'round': -Fraction(1, 2) < off < Fraction(1, 2), 'ceil': -1 < off <= 0}[dm.rnd.mode]
                            if not win:
                                rep.bad('R4', R4E, f'the exhausted increment `{dm.rnd}` is not free / n rounded to an adjacent integer: it can exceed level - mark (a user above its '
                                        'demand) and the total exceeds the free amount by n or more', line)
                                continue
                            left = p.outcome == 'break' or (p.outcome in ('fall', 'continue') and isinstance(df, Poly) and df.is_const() and df.const_value() <= 0)
                            if not left:
                                rep.bad('R4', R4E, f'after the exhausted step the loop goes on with free = `{df}`: the same free amount is handed out again', line)
                                continue
                            rep.details[('R4', R4E)] = {'increment': repr(dm.rnd), 'leaves_by': p.outcome}
                        else:
                            if relc == '>':
                                if dm == lvl:
                                    rep.bad('R4', R4T, f'the full step (mark = level) is taken although cost > free ({where}): more than the free amount is handed out; e.g. users '
                                            f'{{a: running 0 ready 4000, b: running 0 ready 4000}} and 4000 {u} free give both 4000 instead of 2000', line)
                                else:
                                    rep.bad('R4', R4E, f'when cost > free ({where}) the mark becomes `{dm}`, not mark + free / len({A}): e.g. users {{a: running 0 ready 4000, b: running 0 '
                                            f'ready 4000}} and 4000 {u} free must end at mark 2000', line)
                                continue
                            seen_full = True
                            if dm != lvl:
                                rep.bad('R4' if (dm - M) != Poly.const(0) else 'R4', R4F, f'after a full step the mark is `{dm}`, not the level `{asym}` whose cost was paid', line)
                                continue
                            if not (isinstance(df, Poly) and df == F - X):
                                rep.bad('R4', R4F, f'after a full step free becomes `{df}`, not free - cost = `{F - X}`: the cores just handed out are not deducted and are handed out '
                                        f'again; e.g. users {{a: running 0 ready 1000, b: running 0 ready 4000}} and 3000 {u} free: the step to 1000 costs 2000, 1000 remain', line)
                                continue
                            if p.outcome == 'break':
                                rep.bad('R4', R4F, 'the loop is left after a full step although free cores and demand may remain', line)
                                continue
    ctx.need(seen_full or rep.problems, f'{q}: no situation takes a full raise step')
    ctx.need(seen_exh or rep.problems, f'{q}: no situation takes the exhausted step')
    if div_zero is not None or (exh_on_eq and not strict_guard):
        rep.bad('R4', R4D, f'the exhausted branch divides by len({A}) = 0: with nobody allocating the cost is 0 and the test `cost >= free` holds for free == 0 '
                f'({div_zero or "free == 0"}): ZeroDivisionError; e.g. user {{a: running 1000 ready 1000}} and 0 {u} free', line)
    rep.details[('R4', R4D)] = {'argument': 'cost = n * (level - mark) >(=) free >(=) 0 with at least one strict, hence n != 0', 'guard_strict': strict_guard, 'test_strict': not exh_on_eq}
    rep.details[('R2', R2)] = {'situations': n_rows, 'paths': len(paths)}
    S.n_rows, S.n_paths = n_rows, len(paths)
    return hdict[P], hdict[A]


# ======================================================================================
# R5: after the loop;  R7: use sites
# ======================================================================================


def _inside(node: ast.AST, roots) -> bool:
    return any(node is x for r in roots for x in ast.walk(r))


def check_after(ctx: Ctx, rep: Rep, T: dict, S: Shape) -> None:
    q, u, H = S.q, T['unit'], S.helper
    body = S.body
    after = body[body.index(S.loop) + 1:]
    role = 'after the loop every allocating user is allocated with the final mark'
    rep.role('R5', role)
    finals = [st for st in after if isinstance(st, (ast.For, ast.AsyncFor)) and any(isinstance(c, ast.Call) and pf.dotted(c.func) == H.name for c in ast.walk(st))]
    ctx.need(len(finals) <= 1, f'{q}: {len(finals)} loops call {H.name} after the allocation loop')
    hcalls = [c for c in ast.walk(S.fn) if isinstance(c, ast.Call) and pf.dotted(c.func) == H.name]
    for c in hcalls:
        ctx.need(_inside(c, S.loop.body) or _inside(c, finals), f'{q}: {H.name} is called at line {c.lineno}, outside the allocation loop and the final loop (not analysed)')
    hrefs = [n for n in ast.walk(S.fn) if isinstance(n, ast.Name) and n.id == H.name]
    ctx.need(len(hrefs) == len(hcalls), f'{q}: {H.name} is used other than by direct calls')
    if not finals:
        rep.bad('R5', role, f'no loop allocates the users still in {S.A} when the loop ends: users left short (the free amount ran out below their total) keep 0; '
                f'e.g. user {{a: running 0 ready 4000}} and 2000 {u} free must receive 2000', S.loop.lineno)
    else:
        fl = finals[0]
        ctx.need(not any(isinstance(st, ast.Return) for st in after[:after.index(fl)]), f'{q}: a return precedes the final allocation loop')
        it = fl.iter
        if isinstance(it, ast.Call) and pf.dotted(it.func) in ('list', 'tuple', 'sorted', 'iter') and len(it.args) == 1:
            it = it.args[0]
        ctx.need(isinstance(it, ast.Name) and it.id in S.sets and isinstance(fl.target, ast.Name) and not fl.orelse, f'{q}: final loop `for {pf.nsrc(fl.target)} in {pf.nsrc(fl.iter)}` not recognised')
        ctx.need(len(fl.body) == 1 and isinstance(fl.body[0], ast.Expr) and isinstance(fl.body[0].value, ast.Call) and pf.dotted(fl.body[0].value.func) == H.name
                 and len(fl.body[0].value.args) == 2 and not fl.body[0].value.keywords, f'{q}: final loop body is not a single call of {H.name}(user, mark)')
        a0, a1 = fl.body[0].value.args
        ctx.need(isinstance(a0, ast.Name) and isinstance(a1, ast.Name), f'{q}: final loop passes non-names to {H.name}')
        if it.id != S.A:
            rep.bad('R5', role, f'the final loop runs over {it.id}, not {S.A}: the users being filled keep 0 and pending users (running >= mark) receive mark - running <= 0; '
                    f'e.g. users {{a: running 0 ready 4000, b: running 3000 ready 1000}} and 2000 {u} free give a 0 and b -1000', fl.lineno)
        elif a0.id != fl.target.id or a1.id != S.mark:
            rep.bad('R5', role, f'the final loop calls `{pf.nsrc(fl.body[0])}`, not {H.name}(<each user of {S.A}>, {S.mark})', fl.lineno)
    # single writer of the allocation field
    role = 'allocation written only by the record loop (0) and the helper'
    rep.role('R5', role)
    for n in ast.walk(S.fn):
        if isinstance(n, ast.Subscript) and isinstance(n.ctx, (ast.Store, ast.Del)) and isinstance(n.slice, ast.Constant) and n.slice.value == S.alloc_field:
            ctx.need(_inside(n, [H]) or _inside(n, S.rec.body) or _inside(n, S.shortcuts),
                     f'{q}: `{pf.nsrc(n)}` at line {n.lineno} writes the allocation outside the helper (not analysed)')
    # the result
    role = 'every record is returned'
    rep.role('R5', role)
    for n in ast.walk(S.fn):
        if isinstance(n, ast.Name) and n.id == S.result and isinstance(n.ctx, (ast.Store, ast.Del)):
            par = [st for st in ast.walk(S.fn) if isinstance(st, (ast.Assign, ast.AnnAssign)) and any(n is x for x in ast.walk(st))]
            ctx.need(len(par) == 1 and _name_target(par[0]) is not None, f'{q}: `{S.result}` is rebound in an unrecognised way')
            v = _name_target(par[0])[1]  # type: ignore[index]
            empty = (isinstance(v, ast.Dict) and not v.keys) or (isinstance(v, ast.Call) and pf.dotted(v.func) == 'dict' and not v.args and not v.keywords)
            resort = isinstance(v, ast.Call) and pf.dotted(v.func) == 'dict' and len(v.args) == 1 and isinstance(v.args[0], ast.Call) and pf.dotted(v.args[0].func) == 'sorted' \
                and len(v.args[0].args) == 1 and pf.nsrc(v.args[0].args[0]) == f'{S.result}.items()'
            ctx.need(empty or resort, f'{q}: `{S.result} = {pf.nsrc(v)[:60]}` is neither the empty dict nor a re-sorted copy of all items')
        if isinstance(n, ast.Call) and isinstance(n.func, ast.Attribute) and isinstance(n.func.value, ast.Name) and n.func.value.id == S.result and n.func.attr in MUTATORS:
            raise AnalysisError(f'{q}: `{pf.nsrc(n)}` mutates the result (not analysed)')
        if isinstance(n, ast.Subscript) and isinstance(n.value, ast.Name) and n.value.id == S.result and isinstance(n.ctx, ast.Del):
            raise AnalysisError(f'{q}: a record is deleted from the result (not analysed)')
    rets = [n for n in pf.walk_shallow(S.fn) if isinstance(n, ast.Return) and not _inside(n, S.shortcuts)]     # the shortcuts' returns: R8
    ctx.need(len(rets) == 1 and rets[0] is body[-1] and isinstance(rets[0].value, ast.Name) and rets[0].value.id == S.result,
             f'{q}: the function does not end with a single `return {S.result}`')


def check_uses(ctx: Ctx, rep: Rep, m: pf.Module, T: dict, S: Shape) -> None:
    names = {T['func']} | set(T['wrappers'])
    fparams = [a.arg for a in S.fn.args.args if a.arg != 'self']
    if not S.free_is_param:
        ctx.need(len(S.free_defs) == 1, f'{S.q}: the free amount `{S.free}` has {len(S.free_defs)} definitions before the loop')
        rep.role('R7', f'free amount `{S.free}` defined before the loop', {'expression': pf.nsrc(S.free_defs[0])})
    n_cons = 0
    for gq, g in m.functions():
        if g is S.fn or _inside(g, [S.fn]):
            continue
        calls = [c for c in pf.walk_shallow(g) if isinstance(c, ast.Call) and isinstance(c.func, ast.Attribute) and c.func.attr in names]
        if not calls:
            continue
        for c in calls:
            if c.func.attr == T['func']:
                ctx.need(len(c.args) == len(fparams) and not c.keywords, f'{gq}: call `{pf.nsrc(c)[:80]}` does not bind the parameters {fparams} positionally')
                if S.free_is_param:
                    arg = c.args[fparams.index(S.free)]
                    full = pf.expand_locals(g, arg)
                    rep.role('R7', f'{gq}::passes the free amount', {'argument': pf.nsrc(arg), 'defined_as': pf.nsrc(full)[:200]})
                    # unit observation (not a rule): a *_mcpu parameter fed from worker_cores without the factor 1000
                    srcs = pf.nsrc(full)
                    if S.free.endswith('_mcpu') and 'worker_cores' in srcs and '_mcpu' not in srcs \
                            and not any(isinstance(k, ast.Constant) and k.value == 1000 for k in ast.walk(full)):
                        ctx.info(f'{m.rel}::{gq}: `{pf.nsrc(arg)}` = `{srcs[:120]}` is a number of cores (worker_cores is in cores, cf. `worker_cores * 1000` elsewhere) but is '
                                 f'bound to the parameter `{S.free}` (mCPU) of {S.q}: the fair share used by the autoscaler is computed for 1/1000 of the intended amount '
                                 '(outside the statement of C11, which takes the free amount as given)')
            else:
                ctx.need(not c.args and not c.keywords, f'{gq}: wrapper call `{pf.nsrc(c)[:80]}` passes arguments')
        if g.name in T['wrappers'] and any(g is st for st in S.cls.body):
            continue
        # consumer: which fields of the returned records does it read?
        holders = set()
        for st in pf.walk_shallow(g):
            nt = _name_target(st) if isinstance(st, ast.stmt) else None
            if nt and any(c is x for c in calls for x in ast.walk(nt[1])):
                v = nt[1].value if isinstance(nt[1], ast.Await) else nt[1]
                ctx.need(any(v is c for c in calls), f'{gq}: the fair-share result is used inside `{pf.nsrc(nt[1])[:60]}` (not analysed)')
                holders.add(nt[0])
        ctx.need(holders, f'{gq}: the fair-share result is not bound to a local name')
        recvars = set()
        for n in ast.walk(g):
            gens = []
            if isinstance(n, (ast.For, ast.AsyncFor)):
                gens = [(n.target, n.iter)]
            elif isinstance(n, (ast.ListComp, ast.SetComp, ast.DictComp, ast.GeneratorExp)):
                gens = [(x.target, x.iter) for x in n.generators]
            for tgt, it in gens:
                if isinstance(it, ast.Call) and isinstance(it.func, ast.Attribute) and isinstance(it.func.value, ast.Name) and it.func.value.id in holders and not it.args:
                    if it.func.attr == 'values' and isinstance(tgt, ast.Name):
                        recvars.add(tgt.id)
                    elif it.func.attr == 'items' and isinstance(tgt, ast.Tuple) and len(tgt.elts) == 2 and isinstance(tgt.elts[1], ast.Name):
                        recvars.add(tgt.elts[1].id)
        keys = {n.slice.value for n in ast.walk(g) if isinstance(n, ast.Subscript) and isinstance(n.value, ast.Name) and n.value.id in recvars
                and isinstance(n.slice, ast.Constant) and isinstance(n.slice.value, str)}
        ctx.need(keys, f'{gq}: no field of the fair-share records is read (consumer not recognised)')
        role = f'{gq}::reads the allocation field'
        rep.role('R7', role, {'fields': sorted(keys)})
        n_cons += 1
        if S.alloc_field not in keys:
            rep.bad('R7', role, f'the consumer reads {sorted(keys)} of the fair-share records but never `{S.alloc_field}`, the field the allocation is stored in: the share it '
                    'schedules with is not the water-filling allocation (KeyError if no such field exists)', g.lineno)
        else:
            ctx.need(keys == {S.alloc_field}, f'{gq}: the consumer also reads {sorted(keys - {S.alloc_field})} of the fair-share records (how they are used is not analysed)')
    ctx.need(n_cons >= 1, f'{S.q}: no consumer of the fair share found in {m.rel}')


# ======================================================================================
# R8: shortcut exits (fast paths) before the allocation loop
# ======================================================================================
#
# A top-level `if COND: ...; return result` between the record loop and the allocation loop replaces the water filling for the
# inputs COND selects.  It is compared with the closed forms of the water-filling allocation over a FINITE ABSTRACT domain; nothing
# is run on numbers.  A scenario fixes
#     nW, nZ in {0, 1, 2+}     how many users have ready > 0 (class W) / ready == 0 (class Z)
#     a total preorder of the atoms  0, F (free amount), R (ready demand of one representative W user), S (sum of all ready demands)
#     consistent with  R > 0,  S = 0 (nW = 0) | S = R (nW = 1) | S > R (nW >= 2)            (45 scenarios)
# Every expression of the shortcut is evaluated to one of the atoms by its rank in the preorder (min / max / comparisons / len() of a
# filtered user list / sum() of the ready demands); the allocation stored for a W user and for a Z user is then compared with
#     0                 if F <= 0                      (the loop guard keeps the loop out: everybody stays at 0)
#     R  (resp. 0)      if 0 < F and S <= F            (all demand fits: everybody is finalised at its total)
#     min(R, F)         if exactly one user has demand (it is the only one ever allocating)
# and, where no closed form exists (several competing users, S > F > 0), with the bounds 0 <= allocation <= R and "not all zero".
# Shapes outside this fragment are declined.


class _Decline(Exception):
    pass


class Scn:
    def __init__(self, nW: int, nZ: int, rank: Dict[str, int], chain: List[List[str]]):
        self.nW, self.nZ, self.rank, self.chain = nW, nZ, rank, chain

    def values(self) -> Dict[str, int]:
        z = self.rank['0']
        return {a: 2000 * (r - z) for a, r in self.rank.items()}

    def witness(self, unit: str) -> str:
        v = self.values()
        users = []
        if self.nW >= 1:
            users.append(f"a: running 1000 ready {v['R']}")
        if self.nW >= 2:
            users.append(f"b: running 0 ready {v['S'] - v['R']}")
        if self.nZ >= 1:
            users.append('z: running 3000 ready 0')
        if self.nZ >= 2:
            users.append('y: running 500 ready 0')
        return f"users {{{', '.join(users)}}} and {v['F']} {unit} free"


def shortcut_scenarios() -> List[Scn]:
    out = []
    for nW in (0, 1, 2):
        base = [['0', 'S']] if nW == 0 else ([['0'], ['R', 'S']] if nW == 1 else [['0'], ['R'], ['S']])
        for nZ in (0, 1, 2):
            for pos in range(2 * len(base) + 1):
                chain = [list(c) for c in base]
                if pos % 2 == 1:
                    chain[pos // 2].append('F')
                else:
                    chain.insert(pos // 2, ['F'])
                out.append(Scn(nW, nZ, {a: i for i, c in enumerate(chain) for a in c}, chain))
    return out


class VNum:
    def __init__(self, atom: str):
        self.atom = atom


class VConst:
    def __init__(self, v):
        self.v = v


class VCount:
    def __init__(self, n: int):
        self.n = n          # 0, 1, 2 (= two or more)


class VUsers:
    """a (filtered) collection of the users; elt: what one element is ('user' | 'record' | 'pair')"""

    def __init__(self, classes, elt: str):
        self.classes, self.elt = tuple(classes), elt


class VUser:
    def __init__(self, cls: str):
        self.cls = cls


class VRecord:
    def __init__(self, cls: str):
        self.cls = cls


class VPair:
    def __init__(self, cls: str):
        self.cls = cls


class VLin:
    def __init__(self, lin: linform.Lin):
        self.lin = lin


class VResult:
    pass


def _cmp_op(op: ast.cmpop, a, b) -> bool:
    return {ast.Lt: a < b, ast.LtE: a <= b, ast.Gt: a > b, ast.GtE: a >= b, ast.Eq: a == b, ast.NotEq: a != b}[type(op)]


class ShortcutEval:
    """Evaluates the statements of one shortcut under one scenario (see the section comment)."""

    def __init__(self, T: dict, S: Shape, lins: Dict[str, linform.Lin], scn: Scn, env: Dict[str, ast.AST], free_atom: str):
        self.T, self.S, self.lins, self.scn = T, S, lins, scn
        self.env: Dict[str, object] = dict(env)     # name -> ast expression (lazy) | value
        self.free_atom = free_atom
        self.writes: Dict[str, str] = {}
        self.free_now = free_atom
        self.no_free = False       # True while evaluating a filter: the user classes must not depend on F / S

    # ---- ranks ---------------------------------------------------------------------------
    def rank(self, atom: str, cls: Optional[str]) -> int:
        if self.no_free and atom in ('F', 'S'):
            raise _Decline('a user filter depends on the free amount or on the total demand')
        if atom == 'R':
            if cls is None:
                raise _Decline('a per-user quantity is read outside a loop over the users')
            if cls == 'W' and 'R' not in self.scn.rank:
                # no W user exists in this scenario; only a filter asks (R > 0 is all it may use: F and S are refused there)
                if not self.no_free:
                    raise _Decline('internal: demand of a user that does not exist')
                return self.scn.rank['0'] + 0.5
            return self.scn.rank['0'] if cls == 'Z' else self.scn.rank['R']
        return self.scn.rank[atom]

    def count(self, cls: str) -> int:
        return self.scn.nW if cls == 'W' else self.scn.nZ

    def canon(self, atom: str, cls: Optional[str]) -> str:
        """the atom as seen from outside the user loop (R of a Z user is 0)"""
        return '0' if (atom == 'R' and cls == 'Z') else atom

    # ---- expressions ---------------------------------------------------------------------
    def num(self, v, cls) -> str:
        if isinstance(v, VNum):
            return v.atom
        if isinstance(v, VConst) and v.v == 0:
            return '0'
        if isinstance(v, VLin):
            rv = self.S.rv
            ready = linform.Lin({f"{rv}['{self.T['ready']}']": 1})
            if v.lin == ready:
                return 'R'
            if v.lin == linform.Lin():
                return '0'
            raise _Decline(f'`{v.lin}` is not the ready demand')
        raise _Decline('a value is not one of 0 / free / ready / total demand')

    def ev(self, e: ast.AST, cls: Optional[str]):
        S, T = self.S, self.T
        if isinstance(e, ast.Constant):
            if isinstance(e.value, bool) or not isinstance(e.value, int):
                raise _Decline(f'literal {e.value!r}')
            return VConst(e.value)
        if isinstance(e, ast.UnaryOp) and isinstance(e.op, ast.USub) and isinstance(e.operand, ast.Constant) and isinstance(e.operand.value, int):
            return VConst(-e.operand.value)
        if isinstance(e, ast.Name):
            if e.id in self.env:
                v = self.env[e.id]
                return self.ev(v, cls) if isinstance(v, ast.AST) else v
            if e.id == S.free:
                return VNum(self.free_now)
            if e.id == S.result:
                return VResult()
            if e.id == S.P:
                return VUsers(('W', 'Z'), 'user')     # after the record loop every user is pending (R1)
            if e.id == S.A:
                return VUsers((), 'user')
            raise _Decline(f'name `{e.id}`')
        if isinstance(e, ast.Subscript):
            base = self.ev(e.value, cls)
            if isinstance(base, VRecord) and isinstance(e.slice, ast.Constant):
                if e.slice.value == T['ready']:
                    return VLin(linform.Lin({f"{S.rv}['{T['ready']}']": 1})) if base.cls == cls else self._foreign()
                if e.slice.value in T['held'] and base.cls == cls:
                    return VLin(linform.Lin({f"{S.rv}['{e.slice.value}']": 1}))
                raise _Decline(f'field {e.slice.value!r} of a record')
            if isinstance(base, VResult):
                k = self.ev(e.slice, cls)
                if isinstance(k, VUser):
                    return VRecord(k.cls)
                raise _Decline(f'`{pf.nsrc(e)}`')
            if isinstance(e.value, ast.Name) and e.value.id in self.lins and e.value.id not in self.env:
                k = self.ev(e.slice, cls)
                if isinstance(k, VUser) and k.cls == cls:
                    return VLin(self.lins[e.value.id])
                raise _Decline(f'`{pf.nsrc(e)}`')
            if isinstance(base, VPair) and isinstance(e.slice, ast.Constant) and e.slice.value in (0, 1):
                return VUser(base.cls) if e.slice.value == 0 else VRecord(base.cls)
            if isinstance(base, VUsers) and isinstance(e.slice, ast.Constant) and e.slice.value in (0, -1):
                live = [c for c in base.classes if self.count(c) >= 1]
                if len(live) != 1:
                    raise _Decline(f'`{pf.nsrc(e)}`: the element taken is not determined (or the list may be empty)')
                return {'user': VUser, 'record': VRecord, 'pair': VPair}[base.elt](live[0])
            raise _Decline(f'`{pf.nsrc(e)}`')
        if isinstance(e, ast.BinOp) and isinstance(e.op, (ast.Add, ast.Sub)):
            a, b = self.ev(e.left, cls), self.ev(e.right, cls)
            if isinstance(a, VLin) and isinstance(b, VLin):
                return VLin(a.lin + b.lin if isinstance(e.op, ast.Add) else a.lin - b.lin)
            raise _Decline(f'arithmetic `{pf.nsrc(e)}`')
        if isinstance(e, ast.IfExp):
            return self.ev(e.body if self.truth(e.test, cls) else e.orelse, cls)
        if isinstance(e, (ast.ListComp, ast.GeneratorExp, ast.SetComp)):
            return self.comp(e, cls)
        if isinstance(e, ast.Call):
            name = pf.dotted(e.func) or ''
            if isinstance(e.func, ast.Attribute) and e.func.attr in ('items', 'values', 'keys') and not e.args and not e.keywords:
                b = self.ev(e.func.value, cls)
                if isinstance(b, VResult):
                    return VUsers(('W', 'Z'), {'items': 'pair', 'values': 'record', 'keys': 'user'}[e.func.attr])
                raise _Decline(f'`{pf.nsrc(e)}`')
            if name in ('list', 'tuple', 'sorted', 'set', 'iter') and len(e.args) == 1:
                b = self.ev(e.args[0], cls)
                if isinstance(b, VResult):
                    return VUsers(('W', 'Z'), 'user')
                if isinstance(b, VUsers):
                    return b
                raise _Decline(f'`{pf.nsrc(e)}`')
            if name == 'len' and len(e.args) == 1 and not e.keywords:
                b = self.ev(e.args[0], cls)
                if isinstance(b, VResult):
                    b = VUsers(('W', 'Z'), 'user')
                if isinstance(b, VUsers):
                    return VCount(min(2, sum(self.count(c) for c in b.classes)))
                raise _Decline(f'`{pf.nsrc(e)}`')
            if name in ('int', 'round') and len(e.args) == 1 and not e.keywords:
                return VNum(self.num(self.ev(e.args[0], cls), cls))
            if name in ('min', 'max') and not e.keywords and (len(e.args) >= 2 or (len(e.args) == 1 and isinstance(e.args[0], (ast.List, ast.Tuple)))):
                args = e.args if len(e.args) >= 2 else e.args[0].elts
                atoms = [self.num(self.ev(a, cls), cls) for a in args]
                pick = (min if name == 'min' else max)(atoms, key=lambda a: self.rank(a, cls))
                return VNum(self.canon(pick, cls))
            if name == 'sum' and len(e.args) == 1 and not e.keywords and isinstance(e.args[0], (ast.GeneratorExp, ast.ListComp)):
                return self.total(e.args[0], cls)
            raise _Decline(f'call `{pf.nsrc(e)[:60]}`')
        raise _Decline(f'expression `{pf.nsrc(e)[:60]}`')

    def _foreign(self):
        raise _Decline('a record of another user is read inside a loop')

    def _bind(self, tgt: ast.AST, users: VUsers, c: str) -> Dict[str, object]:
        if isinstance(tgt, ast.Name):
            return {tgt.id: {'user': VUser, 'record': VRecord, 'pair': VPair}[users.elt](c)}
        if isinstance(tgt, ast.Tuple) and len(tgt.elts) == 2 and all(isinstance(x, ast.Name) for x in tgt.elts) and users.elt == 'pair':
            return {tgt.elts[0].id: VUser(c), tgt.elts[1].id: VRecord(c)}
        raise _Decline(f'loop target `{pf.nsrc(tgt)}`')

    def _gen(self, g: ast.AST):
        if len(g.generators) != 1 or g.generators[0].is_async:
            raise _Decline(f'`{pf.nsrc(g)[:60]}`')
        gen = g.generators[0]
        users = self.ev(gen.iter, None)
        if isinstance(users, VResult):
            users = VUsers(('W', 'Z'), 'user')
        if not isinstance(users, VUsers):
            raise _Decline(f'`{pf.nsrc(gen.iter)}` is not a collection of the users')
        kept = []
        for c in users.classes:
            saved = dict(self.env)
            self.env.update(self._bind(gen.target, users, c))
            self.no_free = True
            try:
                ok = all(self.truth(cond, c) for cond in gen.ifs)
            finally:
                self.no_free = False
            if ok:
                kept.append((c, dict(self.env)))
            self.env = saved
        return users, kept

    def comp(self, g: ast.AST, cls: Optional[str]) -> VUsers:
        users, kept = self._gen(g)
        elt = None
        for c, env in kept or [(x, None) for x in users.classes]:
            saved = self.env
            if env is None:
                self.env = dict(saved)
                self.env.update(self._bind(g.generators[0].target, users, c))
            else:
                self.env = env
            try:
                v = self.ev(g.elt, c)
            finally:
                self.env = saved
            k = 'user' if isinstance(v, VUser) else 'record' if isinstance(v, VRecord) else 'pair' if isinstance(v, VPair) else None
            if k is None and isinstance(g.elt, ast.Tuple) and len(g.elt.elts) == 2:
                k = 'pair'
            if k is None or (elt is not None and elt != k) or getattr(v, 'cls', c) != c:
                raise _Decline(f'element `{pf.nsrc(g.elt)}` of a comprehension')
            elt = k
        return VUsers([c for c, _ in kept], elt or users.elt)

    def total(self, g: ast.AST, cls: Optional[str]) -> VNum:
        users, kept = self._gen(g)
        has_w = False
        for c, env in kept:
            saved, self.env = self.env, env
            try:
                a = self.canon(self.num(self.ev(g.elt, c), c), c)
            finally:
                self.env = saved
            if a == 'R' and c == 'W':
                has_w = True
            elif a != '0':
                raise _Decline(f'`sum({pf.nsrc(g)[:60]})` is not the total ready demand')
        return VNum('S' if has_w else '0')

    # ---- tests ---------------------------------------------------------------------------
    def truth(self, t: ast.AST, cls: Optional[str]) -> bool:
        if isinstance(t, ast.BoolOp):
            vals = (self.truth(v, cls) for v in t.values)     # lazily: short circuit
            return all(vals) if isinstance(t.op, ast.And) else any(vals)
        if isinstance(t, ast.UnaryOp) and isinstance(t.op, ast.Not):
            return not self.truth(t.operand, cls)
        if isinstance(t, ast.Compare) and len(t.ops) == 1 and type(t.ops[0]) in (ast.Lt, ast.LtE, ast.Gt, ast.GtE, ast.Eq, ast.NotEq):
            a, b = self.ev(t.left, cls), self.ev(t.comparators[0], cls)
            op = t.ops[0]
            if isinstance(a, VConst) and isinstance(b, VCount):
                a, b, op = b, a, {ast.Lt: ast.Gt(), ast.LtE: ast.GtE(), ast.Gt: ast.Lt(), ast.GtE: ast.LtE(), ast.Eq: ast.Eq(), ast.NotEq: ast.NotEq()}[type(op)]
            if isinstance(a, VCount) and isinstance(b, VConst):
                if a.n < 2:
                    return _cmp_op(op, a.n, b.v)
                probes = {_cmp_op(op, m, b.v) for m in {2, max(b.v, 2), max(b.v, 2) + 1}}
                if len(probes) != 1:
                    raise _Decline(f'`{pf.nsrc(t)}` depends on the exact number of users')
                return probes.pop()
            if isinstance(a, VCount) or isinstance(b, VCount):
                raise _Decline(f'`{pf.nsrc(t)}`')
            # integers: x < 1 <=> x <= 0, x >= 1 <=> x > 0, x > -1 <=> x >= 0, x <= -1 <=> x < 0
            if isinstance(b, VConst) and b.v in (1, -1) and not isinstance(a, VConst):
                tr = {(1, ast.Lt): ast.LtE, (1, ast.GtE): ast.Gt, (-1, ast.Gt): ast.GtE, (-1, ast.LtE): ast.Lt}.get((b.v, type(op)))
                if tr is None:
                    raise _Decline(f'`{pf.nsrc(t)}`')
                op, b = tr(), VConst(0)
            x, y = self.num(a, cls), self.num(b, cls)
            return _cmp_op(op, self.rank(x, cls), self.rank(y, cls))
        v = self.ev(t, cls)
        if isinstance(v, VUsers):
            return any(self.count(c) >= 1 for c in v.classes)
        if isinstance(v, VResult):
            return self.scn.nW + self.scn.nZ >= 1
        if isinstance(v, VCount):
            return v.n >= 1
        if isinstance(v, (VNum, VLin)) or (isinstance(v, VConst) and v.v == 0):
            a = self.num(v, cls)
            return self.rank(a, cls) != self.rank('0', cls)
        raise _Decline(f'test `{pf.nsrc(t)[:60]}`')

    # ---- statements ----------------------------------------------------------------------
    def block(self, stmts: Sequence[ast.stmt], cls: Optional[str]) -> str:
        """'fall' | 'return' | 'continue'"""
        for st in stmts:
            r = self.stmt(st, cls)
            if r != 'fall':
                return r
        return 'fall'

    def stmt(self, st: ast.stmt, cls: Optional[str]) -> str:
        S = self.S
        if isinstance(st, ast.Pass) or (isinstance(st, ast.Expr) and (isinstance(st.value, ast.Constant) or
                                                                        (isinstance(st.value, ast.Call) and (pf.dotted(st.value.func) or '').startswith('log.')))):
            return 'fall'
        if isinstance(st, ast.Continue) and cls is not None:
            return 'continue'
        if isinstance(st, ast.Return):
            v = st.value
            resort = isinstance(v, ast.Call) and pf.dotted(v.func) == 'dict' and len(v.args) == 1 and isinstance(v.args[0], ast.Call) and pf.dotted(v.args[0].func) == 'sorted' \
                and len(v.args[0].args) == 1 and pf.nsrc(v.args[0].args[0]) == f'{S.result}.items()'
            if not ((isinstance(v, ast.Name) and v.id == S.result) or resort) or cls is not None:
                raise _Decline(f'`{pf.nsrc(st)[:60]}` does not return all the records')
            return 'return'
        nt = _name_target(st)
        if nt is not None:
            name, val = nt
            if name == S.free:
                if cls is not None:
                    raise _Decline('the free amount is rebound per user')
                self.free_now = self.num(self.ev(val, None), None)
                return 'fall'
            if name in (S.mark, S.result, S.P, S.A, S.helper.name) or name in S.dicts:
                raise _Decline(f'`{name}` is rebound in a shortcut')
            v = self.ev(val, cls)          # evaluated now: the binding is a value, not re-evaluated in another context
            self.env[name] = v
            return 'fall'
        if isinstance(st, ast.Assign) and len(st.targets) == 1 and isinstance(st.targets[0], ast.Tuple) and isinstance(st.value, ast.Tuple) \
                and len(st.targets[0].elts) == len(st.value.elts) and all(isinstance(x, ast.Name) for x in st.targets[0].elts):
            vals = [self.ev(x, cls) for x in st.value.elts]
            for x, v in zip(st.targets[0].elts, vals):
                if x.id in (S.free, S.mark, S.result, S.P, S.A) or x.id in S.dicts:
                    raise _Decline(f'`{x.id}` is rebound in a shortcut')
                self.env[x.id] = v
            return 'fall'
        if isinstance(st, ast.Assign) and len(st.targets) == 1 and isinstance(st.targets[0], ast.Subscript):
            t = st.targets[0]
            if isinstance(t.slice, ast.Constant) and t.slice.value == S.alloc_field:
                b = self.ev(t.value, cls)
                if not isinstance(b, VRecord):
                    raise _Decline(f'`{pf.nsrc(t)}` is not a field of a user record')
                a = self.canon(self.num(self.ev(st.value, b.cls), b.cls), b.cls)
                self.writes[b.cls] = a
                return 'fall'
            raise _Decline(f'store `{pf.nsrc(st)[:60]}`')
        if isinstance(st, ast.If):
            return self.block(st.body if self.truth(st.test, cls) else st.orelse, cls)
        if isinstance(st, ast.For) and not st.orelse and cls is None:
            users = self.ev(st.iter, None)
            if isinstance(users, VResult):
                users = VUsers(('W', 'Z'), 'user')
            if not isinstance(users, VUsers):
                raise _Decline(f'`{pf.nsrc(st.iter)}` is not a collection of the users')
            for c in users.classes:
                if self.count(c) < 1:
                    continue
                saved = dict(self.env)
                self.env.update(self._bind(st.target, users, c))
                r = self.block(st.body, c)
                self.env = saved
                if r == 'return':
                    raise _Decline('return inside a loop over the users')
            return 'fall'
        raise _Decline(f'statement `{pf.nsrc(st)[:60]}`')


def _expected(scn: Scn, cls: str) -> Optional[str]:
    """closed form of the water-filling allocation of a class-`cls` user in this scenario (None: no closed form)"""
    r = scn.rank
    if cls == 'Z' or r['F'] <= r['0']:
        return '0'
    if r['S'] <= r['F']:
        return 'R'
    if scn.nW == 1:
        return 'F'          # = min(R, F) as S = R > F
    return None


def analyse_shortcut(T: dict, S: Shape, lins: Dict[str, linform.Lin], sc: ast.If, env: Dict[str, ast.AST], free_atom_of) -> Tuple[Optional[str], Optional[str], int]:
    """(violation message | None, reason the shortcut cannot be decided | None, number of scenarios in which it is taken)"""
    u = T['unit']
    undecided: Optional[str] = None
    taken = 0
    for scn in shortcut_scenarios():
        fa = free_atom_of(scn)
        evl = ShortcutEval(T, S, lins, scn, env, fa)
        if not evl.truth(sc.test, None):
            continue
        taken += 1
        out = evl.block(sc.body, None)
        if out != 'return':
            if evl.writes or scn.rank[evl.free_now] != scn.rank[fa] and not (scn.rank[fa] <= scn.rank['0'] and scn.rank[evl.free_now] == scn.rank['0']):
                raise _Decline('the shortcut changes the allocation state and falls through to the allocation loop')
            continue
        v = scn.values()
        nothing = True
        for cls, n in (('W', scn.nW), ('Z', scn.nZ)):
            if n < 1:
                continue
            act = evl.writes.get(cls, '0')        # canonical: never 'R' for a Z user
            ra = scn.rank[act]
            nothing = nothing and ra == scn.rank['0']
            exp = _expected(scn, cls)
            who = 'a (ready > 0)' if cls == 'W' else 'z (ready == 0)'
            names = {'0': '0', 'F': 'the free amount', 'R': 'the ready demand', 'S': 'the total ready demand'}
            wrote = f'stores {names[act]} = {v[act]}' if cls in evl.writes else 'leaves the initial 0'
            if exp is not None:
                if ra != scn.rank[exp]:
                    why = ('the allocation is negative' if ra < scn.rank['0'] else
                           'the allocation exceeds the ready demand' if ra > (scn.rank['R'] if cls == 'W' else scn.rank['0']) else
                           'free capacity is withheld although demand allows' if ra < scn.rank[exp] else 'more than the free amount is handed out')
                    return (f'the shortcut `if {pf.nsrc(sc.test)[:90]}` is taken for {scn.witness(u)} and {wrote} for user {who}; water filling allocates '
                            f'{names[exp] if exp != "F" else "min(ready, free)"} = {v[exp]}: {why}'), None, taken
            else:
                hi = scn.rank['R']
                if ra < scn.rank['0'] or ra > hi:
                    why = 'the allocation is negative' if ra < scn.rank['0'] else 'the allocation exceeds the ready demand'
                    return (f'the shortcut `if {pf.nsrc(sc.test)[:90]}` is taken for {scn.witness(u)} and {wrote} for user {who}: {why}'), None, taken
                undecided = undecided or f'the shortcut is taken with several competing users and less free than demanded ({scn.witness(u)}): no closed form to compare with'
        if nothing and scn.nW >= 1 and scn.rank['F'] > scn.rank['0']:
            return (f'the shortcut `if {pf.nsrc(sc.test)[:90]}` is taken for {scn.witness(u)} and returns with every allocation 0 although {u} are free and a user has '
                    'ready demand: free capacity is not handed out'), None, taken
    return None, undecided, taken


def check_shortcuts(ctx: Ctx, rep: Rep, T: dict, S: Shape, lins: Dict[str, linform.Lin]) -> None:
    q = S.q
    body = S.body
    # locals a shortcut may refer to: single top-level definitions between the record loop and the allocation loop
    env: Dict[str, ast.AST] = {}
    relevant = {S.free, S.mark, S.result, S.helper.name} | set(S.sets) | set(S.dicts)
    for st in body[body.index(S.rec) + 1:body.index(S.loop)]:
        nt = _name_target(st)
        if nt and nt[0] not in relevant:
            ctx.need(nt[0] not in env, f'{q}: `{nt[0]}` is bound twice before the allocation loop')
            env[nt[0]] = nt[1]
    # a parameter re-bound before the records are read: only max(free, 0) / int(free) leave the allocation unchanged
    rebind = [v for v in S.free_defs] if S.free_is_param else []
    ctx.need(len(rebind) <= 1, f'{q}: the free amount is re-bound {len(rebind)} times')

    def free_atom_of(scn: Scn) -> str:
        if not rebind:
            return 'F'
        evl = ShortcutEval(T, S, lins, scn, {}, 'F')
        return evl.num(evl.ev(rebind[0], None), None)

    if rebind:
        role = f'free amount re-bound to `{pf.nsrc(rebind[0])[:60]}`'
        try:
            for scn in shortcut_scenarios():
                a = free_atom_of(scn)
                same = scn.rank[a] == scn.rank['F'] or (scn.rank['F'] <= scn.rank['0'] and scn.rank[a] == scn.rank['0'])
                ctx.need(same, f'{q}: the free amount is re-bound to `{pf.nsrc(rebind[0])[:60]}` before the allocation (a different amount is shared out; not analysed)')
        except _Decline as e:
            raise AnalysisError(f'{q}: the free amount is re-bound to `{pf.nsrc(rebind[0])[:60]}` ({e}; not analysed)')
        rep.role('R8', role, 'equals max(free, 0) / free in every sign scenario')
    # positive control: the same analysis on two synthetic shortcuts written with this function's names (one wrong, one right)
    ready, res = T['ready'], S.result
    cenv = {'_w': ast.parse(f"[u for u, r in {res}.items() if r['{ready}'] > 0]", mode='eval').body}
    store = f"    for u in _w:\n        {res}[u]['{S.alloc_field}'] = min({res}[u]['{ready}'], {S.free})\n    return {res}"
    try:
        bad = analyse_shortcut(T, S, lins, ast.parse(f'if len(_w) <= 1:\n{store}').body[0], cenv, lambda scn: 'F')
        good = analyse_shortcut(T, S, lins, ast.parse(f'if {S.free} > 0 and len(_w) <= 1:\n{store}').body[0], cenv, lambda scn: 'F')
    except _Decline as e:
        raise AnalysisError(f'{q}: R8 positive control not analysable ({e})')
    ctx.need(bad[0] is not None and 'negative' in bad[0] and good[0] is None and good[1] is None and good[2] > 0, f'{q}: R8 positive control failed ({bad}, {good})')
    ctx.ok('R8', f'positive-control::{q}::synthetic single-claimant fast path (unguarded: refused, guarded by free > 0: accepted)', nontrivial=False)
    if not S.shortcuts:
        rep.role('R8', 'no shortcut exit before the allocation loop', 'every input goes through the water-filling loop')
        return
    for sc in S.shortcuts:
        role = f'shortcut `if {pf.nsrc(sc.test)[:80]}` agrees with water filling'
        ctx.need(not sc.orelse, f'{q}: shortcut `if {pf.nsrc(sc.test)[:60]}` has an else branch (not analysed)')
        try:
            msg, undecided, taken = analyse_shortcut(T, S, lins, sc, env, free_atom_of)
        except _Decline as e:
            raise AnalysisError(f'{q}: shortcut `if {pf.nsrc(sc.test)[:60]}` at line {sc.lineno} is outside the analysed fragment ({e})')
        if msg is not None:
            rep.bad('R8', role, msg, sc.lineno)
            continue
        ctx.need(undecided is None, f'{q}: shortcut `if {pf.nsrc(sc.test)[:60]}` at line {sc.lineno}: {undecided}')
        rep.role('R8', role, {'scenarios': len(shortcut_scenarios()), 'taken_in': taken})


# ======================================================================================
# R9: a non-positive free amount hands out nothing  (sign / interval abstract interpretation; no loop shape is assumed)
# ======================================================================================
#
# The statement quantifies over "all free-core amounts, including zero/negative".  For free <= 0 its clauses collapse to "every
# allocation is 0" (non-negative, and the total does not exceed the free amount).  That is an interval fact, and it is decided here for
# ARBITRARY control flow by engines/c11sign.py: the function is interpreted abstractly once per sign case of the free amount on entry
# (free < 0, free == 0); record fields are non-negative integers, containers carry emptiness, every test refines the operands it
# mentions, loops are iterated to a fixpoint.  For every store into a field of the returned records that is still reachable, the stored
# interval and the interval of its *free-derived part* (the amount that was computed from the free amount) are judged:
#     part == 0                                    nothing derived from the (non-positive) free amount is handed out          -> holds
#     part may be < 0 and the stored value is      a negative free amount is consumed without a dominating test / clamp       -> VIOLATION
#       not clamped at 0   (case free < 0)         (reported at the statement that reads the free amount)
#     part > 0, or a constant != 0 is stored       cores are handed out although none is free                                 -> VIOLATION
#     anything else that is not 0                  not decided by intervals (relational)                                      -> declined
# Nothing is run; the example input in a message only illustrates a verdict the analysis has established.

SIGN_CASES = (('free amount < 0 on entry', sg.Itv(-sg.INF, Fraction(-1)), True), ('free amount == 0 on entry', sg.ZERO, False))

R9_CONTROL = """
def sweep(self, free):
    running = {}
    total = {}
    result = {}
    starts = defaultdict(list)
    ends = defaultdict(list)
    for record in self.records():
        user = record['user']
        running[user] = record['held']
        total[user] = record['held'] + record['ready']
        starts[running[user]].append(user)
        ends[total[user]].append(user)
        record['share'] = 0
        result[user] = record
    GUARD
    def give(user, mark):
        result[user]['share'] = int(mark - running[user] + 0.5)
    mark = 0
    filling = {}
    for level in sorted(starts.keys() | ends.keys()):
        n = len(filling)
        cost = n * (level - mark)
        if n and cost > free:
            mark += int(free / n + 0.5)
            break
        mark = level
        free -= cost
        for user in starts[level]:
            filling[user] = None
        for user in ends[level]:
            del filling[user]
            give(user, mark)
    for user in filling:
        give(user, mark)
    return result
"""


def sign_case(fn: ast.AST, q: str, unit: str, free_param: Optional[str], free_call: Optional[str], fields: Sequence[str], label: str, entry: 'sg.Itv',
              negative: bool, resolve=None, stored: Sequence[str] = ()) -> Tuple[List[Tuple[str, str, int]], Optional[str], dict]:
    """([(key, message, line)], reason it cannot be decided | None, detail) for one sign case of the free amount"""
    an = sg.Analyzer(fn, q, free_param, free_call, entry, fields, resolve)
    an.record_fields = set(stored)
    an.run()
    bads: List[Tuple[str, str, int]] = []
    und: Optional[str] = None
    seen = set()
    n_reach = 0
    for ev in sorted(an.events.values(), key=lambda x: (x['node'].lineno, [c.lineno for c in x['chain']])):
        v, st = ev['val'], ev['node']
        n_reach += 1
        store = f'`{pf.nsrc(st)[:90]}` at line {st.lineno}' + ''.join(f' (called by `{pf.nsrc(c)[:50]}` at line {c.lineno})' for c in ev['chain'])
        if isinstance(v, sg.Top):
            if v.tainted:
                und = und or f'a value derived from the free amount reaches {store} through a construct that is not interpreted'
            continue
        if not isinstance(v, sg.Num):
            continue
        if v.fc.is_zero():
            if v.itv.lo > 0 or v.itv.hi < 0:
                key = f'{label}::{pf.nsrc(st)[:80]}'
                if key not in seen:
                    seen.add(key)
                    bads.append((key, f'{label}: {store} is reachable and stores a value in {v.itv}, never 0: an allocation is made although nothing is free '
                                 f'(the property demands 0 for every user); e.g. user {{a: running 0 ready 4000}} and {-2000 if negative else 0} {unit} free', st.lineno))
            continue
        neg = ev.get('neg')          # a visit on which the negative part stems from a read of a definitely negative free amount
        w = neg if neg is not None else v
        orgs = sorted((an.origins[o] for o in w.origins if o in an.origins), key=lambda o: o['node'].lineno)
        direct = bool(orgs) and all(o['node'] is st for o in orgs)
        where = '; '.join(f'`{pf.nsrc(o["node"])[:90]}` at line {o["node"].lineno} (free amount there: {o.get("neg", o["first"])})' for o in orgs) or 'the store itself'
        okey = '|'.join(pf.nsrc(o['node'])[:80] for o in orgs) or pf.nsrc(st)[:80]
        if neg is not None:
            key = f'{label}::{okey}'
            if key not in seen:
                seen.add(key)
                how = (f'That statement stores a value in {neg.itv} (free-derived part {neg.fc}): the user is allocated a negative amount' if direct else
                       f'The amount derived from it (part {neg.fc}) reaches {store} (stored value {neg.itv}): the level the allocation is measured against drops below the '
                       f'running level of the users being filled and they are allocated a negative amount')
                bads.append((key, f'{label}: the free amount is consumed at {where}, which is reachable with a negative free amount: no test on the way to it excludes '
                             f'free < 0 and nothing clamps the result.  {how}, where the property demands 0 for everybody (non-negative, and nothing is free); '
                             f'e.g. user {{a: running 0 ready 4000}} and -2000 {unit} free', orgs[0]['node'].lineno if orgs else st.lineno))
        elif v.fc.lo > 0 and v.itv.hi > 0:
            key = f'{label}::{okey}'
            if key not in seen:
                seen.add(key)
                bads.append((key, f'{label}: the amount derived from the free amount at {where} is positive (part {v.fc}) and reaches {store}: cores are handed out although '
                             f'none is free; e.g. user {{a: running 0 ready 4000}} and {-2000 if negative else 0} {unit} free', orgs[0]['node'].lineno if orgs else st.lineno))
        elif (v.fc.lo < 0 and v.itv.lo < 0) or (v.fc.hi > 0 and v.itv.hi > 0):
            und = und or (f'{label}: a free-derived part {v.fc} reaches {store} (consumed at {where}); whether it is 0 is a relational fact the interval domain cannot decide')
    if an.opaque and not bads:
        und = und or f'{label}: {an.opaque[0]}'
    return bads, und, {'allocation_stores_reachable': n_reach, 'loops_iterated_to_fixpoint': an.n_loops, 'helper_calls_interpreted': an.n_calls,
                       'free_derived_part_of_every_stored_value': '0'}


def check_sign(ctx: Ctx, m: pf.Module, T: dict) -> None:
    q = f"{T['cls']}.{T['func']}"
    u = T['unit']
    fields = tuple(T['held']) + (T['ready'],)
    # positive control: a sweep over sorted break points (a different loop shape on purpose), without and with a dominating test
    ctl = {}
    for name, guard in (('unguarded', 'pass'), ('guarded', 'if free <= 0:\n        return result')):
        cfn = ast.parse(R9_CONTROL.replace('GUARD', guard)).body[0]
        ctl[name] = [sign_case(cfn, 'R9 control', u, 'free', None, ('held', 'ready'), lab, ent, neg) for lab, ent, neg in SIGN_CASES]
    ctx.need(ctl['unguarded'][0][0] and 'mark += int(free / n + 0.5)' in ctl['unguarded'][0][0][0][1] and all(not b and d is None for b, d, _ in ctl['guarded']),
             f'{q}: R9 positive control failed ({ctl})')
    ctx.ok('R9', f'positive-control::{q}::synthetic break-point sweep (free amount consumed without a test: refused; behind `if free <= 0: return`: accepted)', nontrivial=False)
    # the function; calls of module-level functions and of plain methods of the same class are interpreted at the call site (an extracted
    # helper must hide neither a store nor a test); every other call is opaque (declined when a free-derived value is passed to it)
    cls = m.cls(T['cls'])
    fn = af.method(m, cls, T['func'])
    excl = {T['func']} | {x for x in (T['free_call'],) if x}
    mod_funcs = {f.name: f for f in m.tree.body if isinstance(f, (ast.FunctionDef, ast.AsyncFunctionDef))}
    methods = {f.name: f for f in cls.body if isinstance(f, (ast.FunctionDef, ast.AsyncFunctionDef)) and f.name not in excl}
    recv = fn.args.args[0].arg if fn.args.args else 'self'

    def resolve(call: ast.Call):
        f = call.func
        if isinstance(f, ast.Name) and f.id in mod_funcs and not mod_funcs[f.id].decorator_list:
            return mod_funcs[f.id], False
        if isinstance(f, ast.Attribute) and isinstance(f.value, ast.Name) and f.value.id == recv and f.attr in methods:
            decs = pf.decorator_names(methods[f.attr])
            if not decs:
                return methods[f.attr], True
            if decs == ['staticmethod']:
                return methods[f.attr], False
        return None

    params = [a.arg for a in fn.args.args if a.arg not in ('self', 'cls')]
    free_param = None
    if T['free_call'] is None:
        ctx.need(len(params) >= 1 and not fn.args.vararg and not fn.args.kwarg, f'{q}: expected the free amount as the first parameter, found {params}')
        free_param = params[0]          # the callers bind it positionally (R7)
    else:
        ctx.need(any(isinstance(c, ast.Call) and isinstance(c.func, ast.Attribute) and c.func.attr == T['free_call'] for c in ast.walk(fn)),
                 f'{q}: the free amount is no longer taken from {T["free_call"]}()')
    # the fields of the returned records that the function, or a helper it calls, writes with a subscript store
    scope, todo = [], [fn]
    while todo and len(scope) < 12:
        g = todo.pop()
        if any(g is x for x in scope):
            continue
        scope.append(g)
        for c in ast.walk(g):
            if isinstance(c, ast.Call):
                r = resolve(c)
                if r is not None:
                    todo.append(r[0])
    stored = {n.slice.value for g in scope for n in ast.walk(g) if isinstance(n, ast.Subscript) and isinstance(n.ctx, ast.Store)
              and isinstance(n.slice, ast.Constant) and isinstance(n.slice.value, str)} - set(fields)
    n_stores = len(stored)
    ctx.need(n_stores >= 1, f'{q}: no store into a field of the returned records found')
    undecided: Optional[str] = None
    for label, entry, negative in SIGN_CASES:
        bads, und, detail = sign_case(fn, q, u, free_param, T['free_call'], fields, label, entry, negative, resolve, sorted(stored))
        cons = f'{m.rel}::{q}::{label} nothing is handed out'
        if bads:
            for key, msg, line in bads:
                ctx.bad('R9', f'{m.rel}::{q}::{key}', msg, m.path, line)
        elif und is not None:
            undecided = undecided or und
        else:
            detail['record_fields_written'] = sorted(stored)
            ctx.ok('R9', cons, detail)
    ctx.unit('sign_cases', len(SIGN_CASES))
    if undecided is not None:
        raise AnalysisError(f'{q}: {undecided}')


# ======================================================================================


def check_target(ctx: Ctx, T: dict) -> None:
    m = pf.load(T['file'])
    ctx.unit('files')
    # R9 does not depend on the two-SortedSet shape: it is evaluated first, so that what it establishes is reported even when the
    # step obligations below have to be declined (a rewritten algorithm); what it cannot decide is raised after them
    undecided: Optional[AnalysisError] = None
    try:
        check_sign(ctx, m, T)
    except AnalysisError as e:
        undecided = e
    S = discover(ctx, m, T)
    ctx.unit('functions')
    rep = Rep(ctx, m, S.q)
    try:
        lins = check_records(ctx, rep, m, T, S)
        check_shortcuts(ctx, rep, T, S, lins)
        D3 = check_helper(ctx, rep, T, S)
        strict = check_guard(ctx, rep, T, S)
        DP, DA = check_loop(ctx, rep, T, S, strict)
        check_meaning(ctx, rep, T, S, lins, DP, DA, D3)
        check_after(ctx, rep, T, S)
        check_uses(ctx, rep, m, T, S)
        ctx.unit('loop_paths', S.n_paths)
        ctx.unit('situation_table_rows', S.n_rows)
    finally:
        rep.flush()
    if undecided is not None:
        raise undecided


def run(ctx: Ctx) -> None:
    ctx.explanation = ('Path-wise abstract execution (symbolic transfer functions) of the two water-filling loops over polynomial normal forms; a finite table over emptiness of the two ordered sets x '
                       'relation of each head to the mark x relation of the step cost to the free amount selects the path each situation takes, whose effect on the sets, '
                       'the mark and the free amount is compared with the water-filling step; linear forms of the key definitions and of the stored allocation; writer '
                       'closure of the key dicts and of the allocation field.  The induction over iterations and the rounding bounds are argued, not mechanised.  '
                       'Shape-independent part: interval abstract interpretation of the whole function in the sign cases free < 0 / free == 0 (R9).')
    ctx.rule('R1', 'sorted-set key dicts are written once per record before insertion and never afterwards; running = held fields, total - running = ready; '
                   'every record starts at 0 and is stored in the result', 12)
    ctx.rule('R2', 'pending -> allocating exactly when the head running level equals the mark: same user removed and added, nothing else changes', 4)
    ctx.rule('R3', 'allocating -> finalised exactly when the head total equals the mark: removed and allocated mark - running (helper linear form, rounding window)', 6)
    ctx.rule('R4', 'raise step: level = min of present heads, cost = len(allocating) * (level - mark), full step iff cost <= free (mark = level, free -= cost), '
                   'otherwise mark += rounded(free / n) and the loop is left; divisor non-zero', 12)
    ctx.rule('R5', 'loop guard = free > 0 and (pending or allocating); final loop allocates everyone still allocating with the final mark; single writer; all records returned', 8)
    ctx.rule('R6', 'the mark never decreases (mark | level | mark + non-negative increment)', 2)
    ctx.rule('R7', 'use sites: the consumers read the allocation field the function writes; call shapes bind the free amount', 6)
    ctx.rule('R8', 'no input bypasses the water filling with a different result: a shortcut exit before the allocation loop (fast path / early return) stores, in every '
                   'scenario of the finite order domain {0, free, ready, total demand} x {no / one / several users with demand}, the closed-form water-filling allocation '
                   '(0 when free <= 0; ready when everything fits; min(ready, free) for a single claimant), within [0, ready] otherwise', 4)
    ctx.rule('R9', 'a non-positive free amount hands out nothing, whatever the shape of the loops: in the sign cases free < 0 and free == 0 on entry (interval abstract '
                   'interpretation with test refinement, container emptiness and loop fixpoints) every reachable store into the returned records stores a value whose '
                   'free-derived part is 0; a negative free amount consumed without a dominating test or clamp is a violation', 6)
    ctx.assume('the query returns one row per user (GROUP BY user) with non-negative integer counters (CAST ... AS SIGNED); the free amount is an integer')
    ctx.assume('sortedcontainers.SortedSet(key=f) keeps its elements ordered by f as long as f(x) does not change while x is in the set; [0] is a minimum')
    ctx.assume('the induction over loop iterations (invariant I in the module docstring) and the rounding bounds are argued by hand from the decided step obligations')
    for T in TARGETS:
        check_target(ctx, T)
    if ctx.tier == 'thorough':
        # closure scan: every other caller in the batch package (display handlers read further record fields; listed, not judged)
        names = {T['func'] for T in TARGETS} | {w for T in TARGETS for w in T['wrappers']}
        others = []
        for rel in pf.walk_py(['batch/batch']):
            if rel in (POOL, JP):
                continue
            m2 = pf.load(rel)
            ctx.unit('files_scanned')
            for gq, g in m2.functions():
                for c in pf.walk_shallow(g):
                    if isinstance(c, ast.Call) and isinstance(c.func, ast.Attribute) and c.func.attr in names:
                        others.append(f'{rel}::{gq}: {pf.nsrc(c)}')
        ctx.extra_cov['other_callers'] = sorted(set(others))
