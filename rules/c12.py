"""C12 Resource requests are never under-provisioned (selection structure).

Decides (from the syntax trees, nothing is run):
  R1  sibling filter agreement: every pool-selection method of InstanceCollectionConfigs that iterates `name_pool_config`
      reaches `pool.convert_requests_to_resources` only through branch edges that guarantee pool.cloud == cloud,
      pool.preemptible == preemptible, pool.label == pool_label (and pool.worker_type == worker_type when the method takes one);
      select_job_private rejects a foreign cloud
  R2  PoolConfig.convert_requests_to_resources: every placement it returns is guarded by `cores <= 1000 * self.worker_cores` (the bound compared as a
      monomial, locals followed) on the returned core count, its storage is `requested_storage_bytes_to_actual_storage_gib(self.cloud, storage_bytes, …)`
      and not None.  Memory clause, decided on CLOSED FORMS: every feasible path to a returned placement is executed symbolically (engines/c12sym: locals
      substituted, one case per branch combination, same-class helper methods spliced in, nothing is run) and pure helpers - per cloud or shared, of any
      module, with an if/else over the cloud inside or not - are seen through; the granted cores C must be >= max(requested cores, T(requested memory))
      and never lowered afterwards, the granted memory M must be E(C) of the FINAL C (not of an earlier stage) and never lowered, T and E must use the
      per-core memory of self.worker_type
  R3  a request is rejected only after all pools were considered (no `return None` / break inside the pool loops),
      `select_inst_coll` dispatches the four (worker_type, machine_type) cases to the right selector (truth table),
      and the front end turns `None` into HTTP 400 before using the placement
  R4  positional / keyword plumbing: placements are written and read as (name, cores, memory, storage) everywhere; arguments are
      passed to the like-named parameter at every call in the chain front end -> select_inst_coll -> selector -> convert
  R5  granted >= requested, numerically as far as normal forms go: the helper that raises the cores returns max(cores, <memory-driven minimum>) and that minimum
      rounds up; the WHOLE computation from the requested bytes to the core minimum (caller arguments composed with the helpers: a direction analysis
      exact | up | down | mixed over + - * / // >> ceil floor int round and the ceiling idioms) never rounds the request down - `memory_bytes >> 20` before a
      ceiling division is `mixed`; the monomial of request -> cores times the monomial of cores -> memory is >= 1 with the per-core quantities cancelling
      (a MB / MiB mix-up gives 15625/16384); every non-None return of <cloud>_requested_to_actual_storage_bytes is >= the request; bytes -> GiB rounds up
  R6  cloud dispatch agreement: in every `cloud == 'gcp'|'azure'` branch of the anchored modules only that cloud's helpers are used
  R2 (provenance)  reaching definitions of the returned cores / memory / storage: after being derived from the request they are never lowered (min / subtraction /
      division are violations) nor replaced by a value independent of the request unless every path to the replacement passes a test that bounds the request by
      what the replacement covers.  Tests are split into atomic facts (predicate helpers inlined across modules), a bound `request <= B` is compared with the
      replacement through RATIONAL INTERVALS of B over all values of the locals it uses (IvEval: an abstract domain, helpers followed; nothing is run):
      B's lower bound above the replacement = violation, upper bound below = fine, otherwise undecided.  Same for the job-private placement, for what the
      selectors and the front end do with the unpacked placement.
  R7  memoised selection (see _check_memo)
  R8  atomic replacement of the live configuration: typestate `emptied` of the containers the selectors read (self.name_pool_config, ...) along the CFG of refresh
      and of every function a live container is passed to (may-alias by reaching definitions, callee summaries): X.clear() / delete-every-key loop / an empty
      container published in self.<attr>, then a suspension point (await / async for / async with) before a synchronous refill = a submission handled in that
      window selects against an empty or partly filled configuration and rejects a satisfiable request.
Does not decide: float rounding error, adjust_cores_for_packability (log2; trusted to round up), the per-core memory tables; helpers that return tuples / loops (declined).
"""
from __future__ import annotations

import ast
from fractions import Fraction
from typing import Dict, List, Optional, Sequence, Set, Tuple

from engines import absdom, c12sym, guards, inline, pyfacts as pf
from engines.common import AnalysisError, Ctx, short
from engines.guards import Facts

META = dict(
    category='other',
    text='CFG must-pass-through with branch polarity for the pool filters and the fits-one-worker guard, a truth table of select_inst_coll, '
         'def-use plumbing checks (like-named argument/parameter, tuple role order) across the selection chain, and shape typing of the '
         'monotone helpers (max / ceil); reaching-definition provenance of the granted cores / memory / storage (never lowered, never replaced by a request-independent value '
         'unless a test bounds the request by it - bounds compared as rational intervals); path-wise symbolic execution of convert_requests_to_resources to closed forms of the '
         'granted cores / memory with helpers inlined, on which the order (raise before derive, derive from the final cores), the rounding direction of request -> core minimum and '
         'the unit monomials are decided; typestate of the live configuration containers across suspension points of refresh '
         'and its loaders.  Level `other`: float rounding error and the packability rounding are not decided.',
    note='Trusted: CPython ast; engines/pyfacts CFG; engines/guards. Not decided: float rounding in adjust_cores_for_packability and the cores<->memory conversions; '
         'contents of the machine-type tables.',
    technique='static analysis: CFG dominance with edge polarity + sibling agreement + truth table + def-use plumbing + reaching definitions with interval bounds + '
              'symbolic path execution to closed forms + rounding-direction and monomial (unit) normal forms + typestate over the CFG with callee summaries',
    design_ref='DESIGN.md §3 C12',
)

FI = 'batch/batch/inst_coll_config.py'
FU = 'batch/batch/cloud/resource_utils.py'
FG = 'batch/batch/cloud/gcp/resource_utils.py'
FA = 'batch/batch/cloud/azure/resource_utils.py'
FE = 'batch/batch/front_end/front_end.py'
CLOUDS = ('gcp', 'azure')


def _params(fn: pf.FuncDef) -> List[str]:
    return [a.arg for a in list(fn.args.posonlyargs) + list(fn.args.args)]


def _role(name: str) -> Optional[str]:
    n = name.lower()
    for r in ('cores', 'memory', 'storage'):
        if r in n or (r == 'cores' and 'cpu' in n):
            return r
    if 'name' in n:
        return 'name'
    return None


def _roles(elts: Sequence[ast.expr]) -> List[Optional[str]]:
    return [_role(pf.nsrc(e)) for e in elts]


WANT4 = ['name', 'cores', 'memory', 'storage']
WANT3 = ['cores', 'memory', 'storage']


# --------------------------------------------------------------------------------------
# R1 / R3a: pool loops
# --------------------------------------------------------------------------------------


def _pool_loops(fn: pf.FuncDef) -> List[ast.For]:
    out = []
    for n in pf.walk_shallow(fn):
        if isinstance(n, ast.For) and 'name_pool_config' in pf.nsrc(n.iter) and isinstance(n.target, ast.Name):
            out.append(n)
    return out


def _check_selectors(ctx: Ctx, m: pf.Module, facts: Facts) -> Dict[str, pf.FuncDef]:
    cls = m.cls('InstanceCollectionConfigs')
    selectors: Dict[str, pf.FuncDef] = {}
    conv = m.func('PoolConfig.convert_requests_to_resources')
    conv_params = _params(conv)[1:]
    # methods that place a request themselves are never inlined into their callers (the dispatcher is judged by R3's dispatch table)
    own_selectors = tuple(f.name for f in cls.body if isinstance(f, (ast.FunctionDef, ast.AsyncFunctionDef))
                          and any(isinstance(c.func, ast.Attribute) and c.func.attr == 'convert_requests_to_resources' for c in pf.calls_in(f)))
    for st0 in cls.body:
        if not isinstance(st0, (ast.FunctionDef, ast.AsyncFunctionDef)):
            continue
        if any(isinstance(x, (ast.Yield, ast.YieldFrom)) for x in pf.walk_shallow(st0)):
            continue  # a generator helper: judged where it is inlined into the selectors
        # selectors are analysed with their same-class helpers (incl. simple generators and next(gen, default)) inlined
        mi, il = inline.inline_methods(m, 'InstanceCollectionConfigs', st0.name, exclude=own_selectors)
        st = mi.func(f'InstanceCollectionConfigs.{st0.name}')
        loops = _pool_loops(st)
        if not loops:
            continue
        qual = f'InstanceCollectionConfigs.{st.name}'
        calls = [c for c in pf.calls_in(st) if isinstance(c.func, ast.Attribute) and c.func.attr == 'convert_requests_to_resources']
        if not calls:
            continue  # not a selection method (e.g. bookkeeping over pools)
        selectors[st.name] = st
        ctx.unit('selector_methods')
        params = _params(st)
        cfg = pf.cfg(st)
        want = [('cloud', 'cloud'), ('preemptible', 'preemptible'), ('label', 'pool_label')]
        if 'worker_type' in params:
            want.append(('worker_type', 'worker_type'))
        # R3a: nothing gives up inside the loop
        for lp in loops:
            early = []

            def scan(stmts, in_inner_loop):
                for x in stmts:
                    if isinstance(x, (ast.FunctionDef, ast.AsyncFunctionDef, ast.ClassDef)):
                        continue
                    if isinstance(x, ast.Return) and (x.value is None or (isinstance(x.value, ast.Constant) and x.value.value is None)):
                        early.append(x)
                    elif isinstance(x, ast.Break) and not in_inner_loop:
                        early.append(x)
                    inner = in_inner_loop or isinstance(x, (ast.For, ast.AsyncFor, ast.While))
                    for fld in ('body', 'orelse', 'finalbody'):
                        sub = getattr(x, fld, None)
                        if isinstance(sub, list) and sub and isinstance(sub[0], ast.stmt):
                            scan(sub, inner if fld == 'body' else in_inner_loop)
                    for h in getattr(x, 'handlers', []) or []:
                        scan(h.body, in_inner_loop)
            scan(lp.body, False)
            # leaving the loop AFTER a pool accepted the request is not giving up: exits lexically inside the true branch of a test of the
            # value returned by convert_requests_to_resources (`if result:` / `if result is not None:`) are fine
            res_names = {t.id for a in ast.walk(lp) if isinstance(a, ast.Assign) and isinstance(a.value, ast.Call) and isinstance(a.value.func, ast.Attribute)
                         and a.value.func.attr == 'convert_requests_to_resources' for t in a.targets if isinstance(t, ast.Name)}
            par = mi.parents()

            def after_success(x: ast.AST) -> bool:
                cur = x
                while cur is not lp and cur in par:
                    p = par[cur]
                    if isinstance(p, ast.If) and any(cur is b for b in p.body):
                        t = p.test
                        pos = (isinstance(t, ast.Name) and t.id in res_names) or \
                              (isinstance(t, ast.Compare) and isinstance(t.left, ast.Name) and t.left.id in res_names and len(t.ops) == 1
                               and isinstance(t.ops[0], ast.IsNot) and isinstance(t.comparators[0], ast.Constant) and t.comparators[0].value is None)
                        if pos:
                            return True
                    cur = p
                return False
            early = [x for x in early if not after_success(x)]
            # `break`/`return None` in nested loops over something else are still early exits of the selection
            cons = f'{FI}::{qual}::for {pf.nsrc(lp.target)} in {short(pf.nsrc(lp.iter), 40)}'
            ctx.check(not early, 'R3', cons,
                      (f'`{pf.nsrc(early[0])}` at line {early[0].lineno} leaves the pool loop early: ' if early else '')
                      + 'the request is rejected (or the search stopped) although a later matching pool could satisfy it', m.path, lp.lineno)
            if lp.orelse:
                raise AnalysisError(f'{qual}: for/else on the pool loop is not a recognised shape')
        for c in calls:
            ctx.need(isinstance(c.func.value, ast.Name), f'{qual}: receiver of convert_requests_to_resources is not a variable')
            pool = c.func.value.id  # type: ignore[union-attr]
            loop = [lp for lp in loops if lp.target.id == pool]  # type: ignore[union-attr]
            ctx.need(len(loop) == 1, f'{qual}: `{pool}` is not the variable of a loop over name_pool_config')
            starts = [n for n in cfg.nodes if n.kind == 'loop' and n.ast is loop[0]]
            goals = cfg.node_of(c)
            ctx.need(starts and goals, f'{qual}: loop / call not found in CFG')
            for attr, par in want:
                cons = f'{FI}::{qual}::{pool}.{attr} == {par}'
                ctx.need(par in params, f'{qual}: no parameter `{par}`')
                path = guards.unguarded_path(cfg, facts, starts, lambda n: any(n is g for g in goals),
                                             lambda e, pol: guards.is_eq_fact(e, pol, f'{pool}.{attr}', par))
                ctx.check(path is None, 'R1', cons,
                          f'`{pool}.convert_requests_to_resources` is reached without `{pool}.{attr} == {par}` {guards.fmt_path(path)}: a job is placed in a pool '
                          f'of a different {attr} than it asked for', m.path, c.lineno)
            # R4: like-named plumbing into convert_requests_to_resources
            _check_call_names(ctx, m, qual, c, conv_params, st, 'PoolConfig.convert_requests_to_resources')
    ctx.need(len(selectors) >= 2, f'expected at least two pool-selection methods, found {sorted(selectors)}')
    # job-private: cloud filter
    fn = m.func('InstanceCollectionConfigs.select_job_private')
    cfg = pf.cfg(fn)
    calls = [c for c in pf.calls_in(fn) if isinstance(c.func, ast.Attribute) and c.func.attr == 'convert_requests_to_resources']
    ctx.need(len(calls) == 1, 'select_job_private: convert_requests_to_resources call not found')
    recv = pf.nsrc(calls[0].func.value)  # type: ignore[union-attr]
    goals = cfg.node_of(calls[0])
    path = guards.unguarded_path(cfg, facts, [cfg.entry], lambda n: any(n is g for g in goals),
                                 lambda e, pol: guards.is_eq_fact(e, pol, f'{recv}.cloud', 'cloud'))
    ctx.check(path is None, 'R1', f'{FI}::InstanceCollectionConfigs.select_job_private::{recv}.cloud == cloud',
              f'the job-private collection is used without `{recv}.cloud == cloud` {guards.fmt_path(path)}', m.path, calls[0].lineno)
    jp = m.func('JobPrivateInstanceManagerConfig.convert_requests_to_resources')
    _check_call_names(ctx, m, 'InstanceCollectionConfigs.select_job_private', calls[0], _params(jp)[1:], fn, 'JobPrivateInstanceManagerConfig.convert_requests_to_resources')
    return selectors


def _check_call_names(ctx: Ctx, m: pf.Module, qual: str, c: ast.Call, callee_params: List[str], caller: pf.FuncDef, callee: str,
                      file: str = FI, strip: str = 'req_') -> None:
    """R4: each argument that is a plain variable must go to the like-named parameter (modulo a `req_` prefix)."""
    caller_params = set(_params(caller))
    pairs: List[Tuple[str, ast.expr]] = []
    for i, a in enumerate(c.args):
        ctx.need(not isinstance(a, ast.Starred) and i < len(callee_params), f'{qual}: call `{short(pf.nsrc(c), 50)}` does not match {callee}{callee_params}')
        pairs.append((callee_params[i], a))
    for k in c.keywords:
        ctx.need(k.arg is not None and k.arg in callee_params, f'{qual}: keyword `{k.arg}` is not a parameter of {callee}')
        pairs.append((k.arg, k.value))  # type: ignore[arg-type]
    norm = lambda s: s[len(strip):] if s.startswith(strip) else s  # noqa: E731
    wrong = []
    unknown = []
    for par, a in pairs:
        if not isinstance(a, ast.Name):
            continue
        if norm(a.id) == norm(par):
            continue
        if norm(a.id) in {norm(p) for p in callee_params}:
            wrong.append((par, a.id))
        elif a.id in caller_params and _role(a.id) is not None and _role(par) is not None and _role(a.id) != _role(par):
            wrong.append((par, a.id))
        else:
            unknown.append((par, a.id))
    cons = f'{file}::{qual}::args of {short(pf.nsrc(c.func), 60)}'
    if wrong:
        par, arg = wrong[0]
        ctx.bad('R4', cons, f'`{arg}` is passed as `{par}` of {callee}: the request\'s {_role(arg) or arg} is interpreted as its {_role(par) or par}, '
                'so the placement is computed for a different request than the job made', m.path, c.lineno)
        return
    ctx.need(not unknown, f'{qual}: cannot match argument(s) {unknown} of `{short(pf.nsrc(c), 50)}` to parameters of {callee}')
    ctx.need(len(pairs) == len(callee_params), f'{qual}: `{short(pf.nsrc(c), 50)}` passes {len(pairs)} of {len(callee_params)} parameters of {callee}')
    ctx.ok('R4', cons, {p: pf.nsrc(a) for p, a in pairs})


# --------------------------------------------------------------------------------------
# R2: convert_requests_to_resources
# --------------------------------------------------------------------------------------


def _fits_fact(e: ast.AST, pol: bool, var: str) -> Optional[str]:
    """'ok' if (e,pol) says var <= 1000 * self.worker_cores (the bound is compared as a monomial: any spelling of the product); 'strict' (<), 'loose' / 'tight' (another
    multiple of self.worker_cores), 'other' for related tests that are not understood; None if unrelated."""
    if not (isinstance(e, ast.Compare) and len(e.ops) == 1):
        return None
    if 'worker_cores' not in pf.nsrc(e):
        return None
    op = type(e.ops[0])
    a, b = e.left, e.comparators[0]
    if isinstance(a, ast.Name) and a.id == var:
        bound = b
        rel = {ast.LtE: ('ok', None), ast.Lt: ('strict', None), ast.Gt: (None, 'ok'), ast.GtE: (None, 'strict')}.get(op)
    elif isinstance(b, ast.Name) and b.id == var:
        bound = a
        rel = {ast.GtE: ('ok', None), ast.Gt: ('strict', None), ast.Lt: (None, 'ok'), ast.LtE: (None, 'strict')}.get(op)
    else:
        return 'other'
    mf = _monoform(bound, '__none__')
    if rel is None or mf is None or mf[1] != {'self.worker_cores': 1}:
        return 'other'
    got = (rel[0] if pol else rel[1]) or 'other-polarity'
    if got in ('ok', 'strict') and mf[0] != 1000:
        return 'loose' if mf[0] > 1000 else 'tight'
    return got


def _expand_except(fn: pf.FuncDef, e: ast.AST, keep: Sequence[str], depth: int = 3) -> ast.AST:
    """e with the single-definition locals of fn replaced by their definitions, except the names in `keep`"""
    import copy
    params = {a.arg for a in fn.args.posonlyargs + fn.args.args + fn.args.kwonlyargs}

    class S_(ast.NodeTransformer):
        def __init__(self, d: int):
            self.d = d

        def visit_Name(self, node: ast.Name):
            if isinstance(node.ctx, ast.Load) and node.id not in params and node.id not in keep and self.d > 0:
                dd = pf.single_def(fn, node.id)
                if dd is not None and isinstance(dd, ast.expr) and not isinstance(dd, (ast.Await, ast.Yield, ast.YieldFrom)):
                    return S_(self.d - 1).visit(copy.deepcopy(dd))
            return node

        def visit_Lambda(self, node):
            return node
    return S_(depth).visit(copy.deepcopy(e))


# --------------------------------------------------------------------------------------
# rational intervals (abstract domain): bounds of an arithmetic expression for ALL values of its free variables; pure helpers
# (straight-line / if-else bodies) are followed across repository modules, module constants are looked up where they are defined
# --------------------------------------------------------------------------------------

INF = float('inf')


class Iv:
    __slots__ = ('lo', 'hi')

    def __init__(self, lo, hi):
        self.lo, self.hi = lo, hi

    def top(self) -> bool:
        return self.lo == -INF and self.hi == INF

    def __repr__(self) -> str:
        return f'[{self.lo},{self.hi}]'


def _top() -> Iv:
    return Iv(-INF, INF)


def _hull(a: Optional[Iv], b: Optional[Iv]) -> Optional[Iv]:
    if a is None:
        return b
    if b is None:
        return a
    return Iv(min(a.lo, b.lo), max(a.hi, b.hi))


def _fin(x) -> bool:
    return x not in (INF, -INF)


def _mul(a, b):
    if a == 0 or b == 0:
        return Fraction(0)
    return a * b


def _mono(x, f):
    """apply a monotone non-decreasing integer-valued rounding to an endpoint (infinite endpoints stay)"""
    return x if not _fin(x) else Fraction(f(x))


def _resolve_symbol(m: pf.Module, name: str, depth: int = 3) -> Optional[Tuple[pf.Module, ast.AST]]:
    """(module, defining node) of the global `name` of m: a def, a module-level assignment, or the same in the repository module it is imported from."""
    import os
    from engines.common import repo_path
    for st in m.tree.body:
        if isinstance(st, (ast.FunctionDef, ast.AsyncFunctionDef)) and st.name == name:
            return m, st
        if isinstance(st, ast.Assign) and len(st.targets) == 1 and isinstance(st.targets[0], ast.Name) and st.targets[0].id == name:
            return m, st.value
        if isinstance(st, ast.AnnAssign) and isinstance(st.target, ast.Name) and st.target.id == name and st.value is not None:
            return m, st.value
    origin = m.imports().get(name)
    if origin is None or depth <= 0:
        return None
    level = len(origin) - len(origin.lstrip('.'))
    parts = origin.lstrip('.').split('.')
    sym, modparts = parts[-1], parts[:-1]
    if level == 0:
        cands = [os.path.join(root, *modparts) for root in ('batch', 'hail/python', 'gear', 'web_common', '')]
    else:
        base = os.path.dirname(m.rel)
        for _ in range(level - 1):
            base = os.path.dirname(base)
        cands = [os.path.join(base, *modparts)] if modparts else [base]
    for c in cands:
        for rel in (c + '.py', os.path.join(c, '__init__.py')):
            if os.path.isfile(repo_path(rel)):
                try:
                    return _resolve_symbol(pf.load(rel), sym, depth - 1)
                except AnalysisError:
                    return None
    return None


class IvEval:
    """Interval semantics of + - * / // ** max min int floor ceil round log2 over Fractions; anything else is TOP (no information)."""

    def __init__(self, mods: Sequence[pf.Module], env: Dict[str, Iv], depth: int = 5):
        self.mods, self.env, self.depth = list(mods), env, depth

    def name(self, n: str) -> Iv:
        if n in self.env:
            return self.env[n]
        for m in self.mods:
            r = _resolve_symbol(m, n)
            if r is not None and isinstance(r[1], ast.expr) and self.depth > 0:
                return IvEval([r[0]], {}, self.depth - 1).ev(r[1])
        return _top()

    def ev(self, e: ast.AST) -> Iv:
        try:
            return self._ev(e)
        except (ZeroDivisionError, OverflowError, ValueError, TypeError):
            return _top()

    def _ev(self, e: ast.AST) -> Iv:
        import math
        if isinstance(e, ast.Constant):
            if isinstance(e.value, bool) or not isinstance(e.value, (int, float)):
                return _top()
            return Iv(Fraction(e.value), Fraction(e.value))
        if isinstance(e, ast.Name):
            return self.name(e.id)
        if isinstance(e, ast.UnaryOp) and isinstance(e.op, ast.USub):
            a = self._ev(e.operand)
            return Iv(-a.hi, -a.lo)
        if isinstance(e, ast.UnaryOp) and isinstance(e.op, ast.UAdd):
            return self._ev(e.operand)
        if isinstance(e, ast.BinOp):
            a, b = self._ev(e.left), self._ev(e.right)
            if isinstance(e.op, ast.Add):
                return Iv(a.lo + b.lo, a.hi + b.hi)
            if isinstance(e.op, ast.Sub):
                return Iv(a.lo - b.hi, a.hi - b.lo)
            if isinstance(e.op, ast.Mult):
                vs = [_mul(x, y) for x in (a.lo, a.hi) for y in (b.lo, b.hi)]
                return Iv(min(vs), max(vs))
            if isinstance(e.op, (ast.Div, ast.FloorDiv)):
                if b.lo != b.hi or not _fin(b.lo) or b.lo == 0:
                    return _top()
                vs = [x / b.lo if _fin(x) else (x if b.lo > 0 else -x) for x in (a.lo, a.hi)]
                lo, hi = min(vs), max(vs)
                if isinstance(e.op, ast.FloorDiv):
                    lo, hi = _mono(lo, math.floor), _mono(hi, math.floor)
                return Iv(lo, hi)
            if isinstance(e.op, (ast.LShift, ast.RShift)):
                if b.lo != b.hi or not _fin(b.lo) or b.lo.denominator != 1 or not 0 <= b.lo <= 128:
                    return _top()
                f2 = Fraction(2) ** int(b.lo)
                if isinstance(e.op, ast.LShift):
                    return Iv(a.lo * f2 if _fin(a.lo) else a.lo, a.hi * f2 if _fin(a.hi) else a.hi)
                return Iv(_mono(a.lo / f2 if _fin(a.lo) else a.lo, math.floor), _mono(a.hi / f2 if _fin(a.hi) else a.hi, math.floor))
            if isinstance(e.op, ast.Pow):
                if a.lo == a.hi and _fin(a.lo) and a.lo >= 1:          # constant base >= 1: monotone in the exponent
                    def p(x):
                        if x == -INF:
                            return Fraction(0)
                        if x == INF:
                            return INF
                        return a.lo ** x if x.denominator == 1 else Fraction(float(a.lo) ** float(x))
                    return Iv(p(b.lo), p(b.hi))
                if b.lo == b.hi and _fin(b.lo) and b.lo.denominator == 1 and b.lo >= 1 and a.lo >= 0:   # x ** n, x >= 0
                    return Iv(a.lo ** b.lo, a.hi ** b.lo if _fin(a.hi) else INF)
                return _top()
            return _top()
        if isinstance(e, ast.IfExp):
            h = _hull(self._ev(e.body), self._ev(e.orelse))
            return h if h is not None else _top()
        if isinstance(e, ast.Call):
            f = pf.dotted(e.func) or ''
            if e.keywords and f in ('max', 'min', 'int', 'float', 'round', 'math.ceil', 'math.floor', 'math.log2', 'ceil', 'floor'):
                return _top()
            args = [self._ev(a) for a in e.args] if not any(isinstance(a, ast.Starred) for a in e.args) else None
            if args is None:
                return _top()
            if f == 'max' and len(args) >= 2:
                return Iv(max(a.lo for a in args), max(a.hi for a in args))
            if f == 'min' and len(args) >= 2:
                return Iv(min(a.lo for a in args), min(a.hi for a in args))
            if f in ('int', 'math.trunc') and len(args) == 1:
                return Iv(_mono(args[0].lo, math.trunc), _mono(args[0].hi, math.trunc))
            if f in ('math.floor', 'floor') and len(args) == 1:
                return Iv(_mono(args[0].lo, math.floor), _mono(args[0].hi, math.floor))
            if f in ('math.ceil', 'ceil') and len(args) == 1:
                return Iv(_mono(args[0].lo, math.ceil), _mono(args[0].hi, math.ceil))
            if f == 'round' and len(args) == 1:
                return Iv(_mono(args[0].lo, math.floor), _mono(args[0].hi, math.ceil))
            if f == 'float' and len(args) == 1:
                return args[0]
            if f in ('math.log2', 'log2') and len(args) == 1:
                if args[0].lo <= 0:
                    return _top()
                lo = Fraction(math.log2(float(args[0].lo))) - Fraction(1, 10 ** 9)
                hi = Fraction(math.log2(float(args[0].hi))) + Fraction(1, 10 ** 9) if _fin(args[0].hi) else INF
                return Iv(lo, hi)
            if isinstance(e.func, ast.Name) and self.depth > 0:
                for m in self.mods:
                    r = _resolve_symbol(m, e.func.id)
                    if r is not None and isinstance(r[1], ast.FunctionDef):
                        return self.call(r[0], r[1], e, args)
            return _top()
        return _top()

    def call(self, m2: pf.Module, fn: ast.FunctionDef, call: ast.Call, args: List[Iv]) -> Iv:
        ps = [a.arg for a in list(fn.args.posonlyargs) + list(fn.args.args)]
        if fn.args.vararg or fn.args.kwarg or len(args) > len(ps):
            return _top()
        env: Dict[str, Iv] = {p: _top() for p in ps + [a.arg for a in fn.args.kwonlyargs]}
        for p, a in zip(ps, args):
            env[p] = a
        for k in call.keywords:
            if k.arg is None or k.arg not in env:
                return _top()
            env[k.arg] = self._ev(k.value)
        sub = IvEval([m2], env, self.depth - 1)
        ret, _ = sub.block(fn.body)
        return ret if ret is not None else _top()

    def block(self, stmts: Sequence[ast.stmt]) -> Tuple[Optional[Iv], bool]:
        """(hull of the returned values, control may fall through); self.env is updated in place"""
        ret: Optional[Iv] = None
        for st in stmts:
            if isinstance(st, ast.Expr) and isinstance(st.value, ast.Constant):
                continue
            if isinstance(st, (ast.Assert, ast.Pass)):
                continue
            if isinstance(st, ast.Assign) and len(st.targets) == 1 and isinstance(st.targets[0], ast.Name):
                self.env[st.targets[0].id] = self.ev(st.value)
            elif isinstance(st, ast.AnnAssign) and isinstance(st.target, ast.Name) and st.value is not None:
                self.env[st.target.id] = self.ev(st.value)
            elif isinstance(st, ast.Return):
                return _hull(ret, self.ev(st.value) if st.value is not None else _top()), False
            elif isinstance(st, ast.Raise):
                return ret, False
            elif isinstance(st, ast.If):
                a = IvEval(self.mods, dict(self.env), self.depth)
                b = IvEval(self.mods, dict(self.env), self.depth)
                ra, fa = a.block(st.body)
                rb, fb = b.block(st.orelse)
                ret = _hull(ret, _hull(ra, rb))
                if not fa and not fb:
                    return ret, False
                live = [x.env for x, f in ((a, fa), (b, fb)) if f]
                keys = set().union(*[set(x) for x in live])
                self.env = {k: (_hull(live[0].get(k), live[-1].get(k)) if all(k in x for x in live) else _top()) for k in keys}  # type: ignore[misc]
            else:
                return _top(), False          # loops, try, with, tuple assignment ...: no information
        return ret, True


# --------------------------------------------------------------------------------------
# R2 (provenance): the quantities of a returned placement keep covering the request after they were derived from it
# --------------------------------------------------------------------------------------

_DEFERRED: List[str] = []      # shapes the provenance rules cannot decide: raised (exit 2) at the end of the run, after every other rule was evaluated


def _reaching(cfg: pf.CFG, var: str, target: pf.Node) -> Tuple[List[pf.Node], bool]:
    """(definitions of `var` that reach `target`, whether the function entry reaches it without any definition)"""
    defs = guards.def_nodes(cfg, var)

    def is_def(n: pf.Node) -> bool:
        return any(n is d for d in defs)
    out = [d for d in defs if cfg.path_avoiding(d, lambda n: n is target, is_def) is not None]
    entry = not is_def(cfg.entry) and cfg.path_avoiding(cfg.entry, lambda n: n is target, is_def) is not None
    return out, entry


def _assigned_value(n: pf.Node, var: str) -> Optional[ast.expr]:
    """the expression a definition node gives `var` (`var op= e` is read as `var op e`); None for unpacking / loop targets / with-as"""
    a = n.ast
    if n.kind == 'stmt' and isinstance(a, ast.Assign) and len(a.targets) == 1 and isinstance(a.targets[0], ast.Name) and a.targets[0].id == var:
        return a.value
    if n.kind == 'stmt' and isinstance(a, ast.AnnAssign) and isinstance(a.target, ast.Name) and a.target.id == var and a.value is not None:
        return a.value
    if n.kind == 'stmt' and isinstance(a, ast.AugAssign) and isinstance(a.target, ast.Name) and a.target.id == var:
        return ast.copy_location(ast.BinOp(left=ast.Name(id=var, ctx=ast.Load()), op=a.op, right=a.value), a)
    return None


def _const_num(e: ast.AST) -> Optional[Fraction]:
    iv = IvEval([], {}).ev(e)
    return iv.lo if iv.lo == iv.hi and _fin(iv.lo) else None


def _rel_prev(e: ast.AST, var: str) -> str:
    """How the new value `e` of `var` relates to the value `var` held before: 'ge' (never smaller), 'lower' (a recognised shape that makes it smaller:
    capped by min, reduced by a subtraction, divided, scaled by a factor < 1), 'indep' (does not use the previous value), 'unknown'."""
    if not any(isinstance(n, ast.Name) and n.id == var for n in ast.walk(e)):
        return 'indep'
    if isinstance(e, ast.Name):
        return 'ge'
    if isinstance(e, ast.Call) and not e.keywords and not any(isinstance(a, ast.Starred) for a in e.args):
        f = pf.dotted(e.func) or ''
        rs = [_rel_prev(a, var) for a in e.args]
        if f == 'max':
            return 'ge' if 'ge' in rs else ('lower' if 'lower' in rs and 'unknown' not in rs else 'unknown')
        if f == 'min':
            if all(r == 'ge' for r in rs):
                return 'ge'
            return 'lower' if 'unknown' not in rs else 'unknown'
        if f in ('math.ceil', 'ceil') and len(rs) == 1:
            return rs[0]
        if f in ('int', 'math.floor', 'floor', 'round') and len(rs) == 1:
            return 'ge' if isinstance(e.args[0], ast.Name) else ('lower' if rs[0] == 'lower' else 'unknown')
        return 'unknown'
    if isinstance(e, ast.BinOp):
        l, r = _rel_prev(e.left, var), _rel_prev(e.right, var)
        kl, kr = _const_num(e.left), _const_num(e.right)
        if isinstance(e.op, ast.Add):
            for side, k in ((l, kr), (r, kl)):
                if side in ('ge', 'lower') and k is not None:
                    return side if k >= 0 or side == 'lower' else 'lower'
            return 'unknown'
        if isinstance(e.op, ast.Sub) and l in ('ge', 'lower') and r == 'indep':
            return l if kr is not None and kr <= 0 else 'lower'
        if isinstance(e.op, ast.Mult):
            for side, k in ((l, kr), (r, kl)):
                if side in ('ge', 'lower') and k is not None and k >= 0:
                    return side if k >= 1 else 'lower'
            return 'unknown'
        if isinstance(e.op, ast.LShift) and l in ('ge', 'lower') and r == 'indep' and kr is not None and kr >= 0:
            return l          # scaling up by 2**k
        if isinstance(e.op, (ast.Div, ast.FloorDiv, ast.RShift)) and l in ('ge', 'lower') and r == 'indep':
            if isinstance(e.op, ast.RShift):
                return 'lower' if kr is None or kr > 0 else l
            if kr is not None and kr > 0:
                return l if kr == 1 else 'lower'
        return 'unknown'
    if isinstance(e, ast.IfExp):
        rs = {_rel_prev(e.body, var), _rel_prev(e.orelse, var)}
        if rs == {'ge'}:
            return 'ge'
        return 'lower' if 'lower' in rs and rs <= {'ge', 'lower'} else 'unknown'
    return 'unknown'


def _other_operands(e: ast.AST, var: str) -> List[ast.AST]:
    """the maximal non-constant sub-expressions of e that do not use `var` (what `var` is capped by / reduced by)"""
    if not _uses(e, [var]):
        return [] if isinstance(e, ast.Constant) else [e]
    out: List[ast.AST] = []
    for c in ast.iter_child_nodes(e):
        if isinstance(e, ast.Call) and c is e.func:
            continue
        if isinstance(c, ast.expr):
            out += _other_operands(c, var)
    return out


def _branchy_return(body: Sequence[ast.stmt]) -> Optional[ast.expr]:
    """The value returned by a helper whose body is assignments, `if c: x = A else: x = B` arms that assign the same locals, and early returns
    (`if c: return A` followed by the rest), as ONE expression with conditional sub-expressions (A if c else B).  None: not such a body."""
    import copy

    def sub(e: ast.AST, env: Dict[str, ast.expr]) -> ast.expr:
        class S(ast.NodeTransformer):
            def visit_Name(self, node):
                return copy.deepcopy(env[node.id]) if isinstance(node.ctx, ast.Load) and node.id in env else node
        return S().visit(copy.deepcopy(e))

    def assigns(stmts: Sequence[ast.stmt], env: Dict[str, ast.expr]) -> Optional[Dict[str, ast.expr]]:
        out = dict(env)
        for st in stmts:
            if isinstance(st, ast.Assert) or (isinstance(st, ast.Expr) and isinstance(st.value, ast.Constant)) or isinstance(st, ast.Pass):
                continue
            if isinstance(st, ast.Assign) and len(st.targets) == 1 and isinstance(st.targets[0], ast.Name):
                out[st.targets[0].id] = sub(st.value, out)
            elif isinstance(st, ast.AnnAssign) and isinstance(st.target, ast.Name) and st.value is not None:
                out[st.target.id] = sub(st.value, out)
            else:
                return None
        return out

    def run(stmts: Sequence[ast.stmt], env: Dict[str, ast.expr], depth: int) -> Optional[ast.expr]:
        if depth <= 0:
            return None
        env = dict(env)
        for i, st in enumerate(stmts):
            if isinstance(st, ast.Return):
                return sub(st.value, env) if st.value is not None else None
            if isinstance(st, ast.If):
                test = sub(st.test, env)
                ends = lambda b: bool(b) and isinstance(b[-1], (ast.Return, ast.Raise))  # noqa: E731
                if ends(st.body) or ends(st.orelse):
                    rest = list(stmts[i + 1:])
                    a = run(list(st.body) + ([] if ends(st.body) else rest), env, depth - 1) if not (st.body and isinstance(st.body[-1], ast.Raise)) else None
                    b = run(list(st.orelse) + ([] if ends(st.orelse) else rest), env, depth - 1) if not (st.orelse and isinstance(st.orelse[-1], ast.Raise)) else None
                    if st.body and isinstance(st.body[-1], ast.Raise):
                        return b
                    if st.orelse and isinstance(st.orelse[-1], ast.Raise):
                        return a
                    if a is None or b is None:
                        return None
                    return ast.IfExp(test=test, body=a, orelse=b)
                ea, eb = assigns(st.body, env), assigns(st.orelse, env)
                if ea is None or eb is None:
                    return None
                for k in set(ea) | set(eb):
                    va, vb = ea.get(k), eb.get(k)
                    if va is None or vb is None:
                        continue          # bound on one arm only: unusable afterwards, a later read makes the result None through the check below
                    env[k] = va if pf.nsrc(va) == pf.nsrc(vb) else ast.IfExp(test=copy.deepcopy(test), body=va, orelse=vb)
                continue
            e2 = assigns([st], env)
            if e2 is None:
                return None
            env = e2
        return None
    out = run(list(body), {}, 4)
    return ast.fix_missing_locations(out) if out is not None else None


def _inline_pred(mods: List[pf.Module], e: ast.AST, depth: int = 3) -> Tuple[ast.AST, List[pf.Module]]:
    """A call of a repository function whose body is straight-line assignments and one `return <expr>` is replaced by that expression with the arguments
    substituted (names of the callee's module are looked up there: the module is added to the search list)."""
    import copy
    if depth <= 0 or not isinstance(e, ast.Call) or any(isinstance(a, ast.Starred) for a in e.args):
        return e, mods
    is_self = isinstance(e.func, ast.Attribute) and isinstance(e.func.value, ast.Name) and e.func.value.id == 'self'
    if not (isinstance(e.func, ast.Name) or is_self):
        return e, mods
    for m in mods:
        if is_self:
            # a method of a class of this module (the receiver's class is not tracked: the name must be unambiguous)
            cands = [f for c in m.classes() for f in c.body if isinstance(f, ast.FunctionDef) and f.name == e.func.attr  # type: ignore[union-attr]
                     and not any(pf.dotted(d) in ('staticmethod', 'classmethod', 'property') for d in f.decorator_list)]
            if len(cands) != 1:
                continue
            r = (m, cands[0])
        else:
            r = _resolve_symbol(m, e.func.id)  # type: ignore[union-attr]
        if r is None or not isinstance(r[1], ast.FunctionDef):
            continue
        m2, fn = r
        body = [s for s in fn.body if not (isinstance(s, ast.Expr) and isinstance(s.value, ast.Constant)) and not isinstance(s, ast.Assert)]
        if fn.args.vararg or fn.args.kwarg:
            return e, mods
        branchy = _branchy_return(body) if any(isinstance(s, ast.If) for s in body) else None
        if branchy is None:
            if not body or not isinstance(body[-1], ast.Return) or body[-1].value is None:
                return e, mods
            if any(not (isinstance(s, (ast.Assign, ast.AnnAssign))) for s in body[:-1]):
                return e, mods
        ps = [a.arg for a in list(fn.args.posonlyargs) + list(fn.args.args)]
        if is_self:
            ps = ps[1:]
        if len(e.args) > len(ps) or any(k.arg is None or k.arg not in ps for k in e.keywords):
            return e, mods
        bind: Dict[str, ast.AST] = dict(zip(ps, e.args))
        bind.update({k.arg: k.value for k in e.keywords})  # type: ignore[misc]
        if set(bind) != set(ps):
            return e, mods
        flat = branchy if branchy is not None else _flat(fn, body[-1].value)

        class Sub(ast.NodeTransformer):
            def visit_Name(self, node):
                return copy.deepcopy(bind[node.id]) if isinstance(node.ctx, ast.Load) and node.id in bind else node
        out = Sub().visit(copy.deepcopy(flat))
        return out, [m2] + [x for x in mods if x is not m2]
    return e, mods


def _atomic_facts(mods: List[pf.Module], e: ast.AST, pol: bool, depth: int = 3) -> List[Tuple[ast.AST, bool, List[pf.Module]]]:
    """The atomic facts implied by `e` evaluating to `pol` (and / or / not are structure, predicate helpers are inlined).  A disjunction implies no atomic
    fact on its own and is returned whole."""
    if isinstance(e, ast.UnaryOp) and isinstance(e.op, ast.Not):
        return _atomic_facts(mods, e.operand, not pol, depth)
    if isinstance(e, ast.BoolOp) and ((isinstance(e.op, ast.And) and pol) or (isinstance(e.op, ast.Or) and not pol)):
        return [f for v in e.values for f in _atomic_facts(mods, v, pol, depth)]
    if isinstance(e, ast.Call) and depth > 0:
        e2, mods2 = _inline_pred(mods, e)
        if e2 is not e:
            return _atomic_facts(mods2, e2, pol, depth - 1)
    return [(e, pol, mods)]


def _uses(e: ast.AST, names: Sequence[str]) -> bool:
    return any(isinstance(n, ast.Name) and n.id in names for n in ast.walk(e))


def _bound_fact(e: ast.AST, pol: bool, req: Sequence[str]) -> Optional[Tuple[str, Optional[ast.AST]]]:
    """Reads the fact (e is pol) as a statement about one of the names in `req` (the request / the quantity granted for it):
       ('ub', name, B)  name <= B is guaranteed (B does not use the request);  ('free', …) no upper bound on the request follows;  None = not understood."""
    if not _uses(e, req):
        return ('free', None)
    if isinstance(e, ast.Name):
        return ('ub0:' + e.id, None) if not pol else ('free', None)          # `not x`  ->  x == 0
    if isinstance(e, ast.Compare) and len(e.ops) == 1:
        a, b, op = e.left, e.comparators[0], type(e.ops[0])
        if op in (ast.Is, ast.IsNot) and pf.nsrc(b) == 'None':
            return ('free', None)
        flip = {ast.Lt: ast.Gt, ast.LtE: ast.GtE, ast.Gt: ast.Lt, ast.GtE: ast.LtE, ast.Eq: ast.Eq, ast.NotEq: ast.NotEq}
        neg = {ast.Lt: ast.GtE, ast.LtE: ast.Gt, ast.Gt: ast.LtE, ast.GtE: ast.Lt, ast.Eq: ast.NotEq, ast.NotEq: ast.Eq}
        if op not in flip:
            return None
        if isinstance(b, ast.Name) and b.id in req and not _uses(a, req):
            a, b, op = b, a, flip[op]
        if not (isinstance(a, ast.Name) and a.id in req) or _uses(b, req):
            return None
        if not pol:
            op = neg[op]
        if op in (ast.LtE, ast.Lt, ast.Eq):
            return ('ub:' + a.id, b)
        return ('free', None)
    return None


def _provenance(ctx: Ctx, m: pf.Module, fn: pf.FuncDef, cfg: pf.CFG, qual: str, r: pf.Node, var: str, what: str, is_base, cons: str,
                req_param: Optional[str] = None, unit: Optional[Fraction] = None) -> None:
    """R2: every definition of the returned `var` that reaches the return is (a) its derivation from the request (`is_base`), or (b) a re-assignment that
    never lowers it; a recognised lowering (min / subtraction / division / a constant that the request is not bounded by) is a violation, anything else is
    left undecided."""
    params = _params(fn)
    seen: List[pf.Node] = []
    work = [r]
    bad = 0
    n_base = 0
    while work:
        tgt = work.pop()
        defs, entry = _reaching(cfg, var, tgt)
        for d in defs:
            if any(d is s for s in seen):
                continue
            seen.append(d)
            v = _assigned_value(d, var)
            if v is None:
                _DEFERRED.append(f'{qual}: `{short(d.text(), 50)}` binds `{var}` in a way the provenance analysis does not follow')
                continue
            if is_base(v):
                n_base += 1
                if _uses(v, [var]):
                    work.append(d)
                continue
            rel = _rel_prev(v, var)
            stmt = short(d.text(), 70)
            if rel == 'ge':
                work.append(d)
                continue
            if isinstance(v, ast.IfExp) and req_param is not None:
                # var = A if C else B: each arm is judged under its own condition
                arms = [(v.body, True), (v.orelse, False)]
                verdicts = []
                for arm, pol in arms:
                    ra = _rel_prev(arm, var)
                    if ra == 'ge':
                        verdicts.append(('ok', ''))
                    elif ra == 'lower':
                        verdicts.append(('bad', f'`{pf.nsrc(arm)}` lowers it'))
                    elif ra == 'indep' and not _uses(pf.expand_locals(fn, arm), [req_param]):
                        verdicts.append(_override_guarded(m, fn, cfg, d, arm, var, req_param, unit, extra=[(v.test, pol)]))
                    else:
                        verdicts.append(('unknown', f'`{short(pf.nsrc(arm), 40)}` is not classified'))
                if any(k == 'bad' for k, _ in verdicts):
                    bad += 1
                    why = '; '.join(t for k, t in verdicts if k == 'bad')
                    ctx.bad('R2', f'{cons}::{stmt}', f'`{stmt}` replaces the granted {what} on one arm by a value that does not cover the requested `{req_param}` ({why}): the request is '
                            f'accepted and granted less {what} than it asked for', m.path, d.lineno)
                elif any(k == 'unknown' for k, _ in verdicts):
                    _DEFERRED.append(f'{qual}: `{stmt}`: ' + '; '.join(t for k, t in verdicts if k == 'unknown'))
                else:
                    work.append(d)
                continue
            if rel == 'lower':
                # a cap that the function itself enforces by a test against the same bound is not a lowering the analysis can judge
                others = [pf.nsrc(a) for a in _other_operands(v, var)]
                tested = any(isinstance(t.ast, ast.Compare) and _uses(t.ast, [var] + ([req_param] if req_param else [])) and any(o and o in pf.nsrc(t.ast) for o in others)
                             for t in cfg.nodes if t.kind == 'test' and isinstance(t.ast, ast.expr))
                if tested:
                    _DEFERRED.append(f'{qual}: `{stmt}` lowers `{var}` to a bound the function also tests (redundant cap or under-provisioning: not decided)')
                    continue
                bad += 1
                ctx.bad('R2', f'{cons}::{stmt}', f'the granted {what} `{var}` is derived from the request and then LOWERED by `{stmt}` (line {d.lineno}) before the placement is returned: '
                        f'a request that the pool accepts is granted less {what} than it asked for (the placement no longer covers the request)', m.path, d.lineno)
                continue
            if rel == 'indep' and req_param is not None and not _uses(pf.expand_locals(fn, v), [req_param]):
                verdict, detail = _override_guarded(m, fn, cfg, d, v, var, req_param, unit)
                if verdict == 'bad':
                    bad += 1
                    ctx.bad('R2', f'{cons}::{stmt}', f'on a path to the returned placement the granted {what} is replaced by `{pf.nsrc(v)}`, which does not depend on the requested '
                            f'`{req_param}` ({detail}): the request is accepted and granted less {what} than it asked for', m.path, d.lineno)
                elif verdict == 'ok':
                    ctx.ok('R2', f'{cons}::{stmt}', detail)
                else:
                    _DEFERRED.append(f'{qual}: `{stmt}` replaces the granted {what} by a value independent of the request under a condition that is not understood ({detail})')
                continue
            _DEFERRED.append(f'{qual}: `{stmt}` re-defines the granted {what} `{var}` in a way the provenance analysis does not classify')
        if entry and var not in params:
            _DEFERRED.append(f'{qual}: `{var}` may be unbound at `{short(tgt.text(), 40)}`')
    if bad == 0 and n_base:
        ctx.ok('R2', f'{cons}::never lowered', {'definitions_reaching_the_return': len(seen)})


def _local_iv(m: pf.Module, fn: pf.FuncDef, cfg: pf.CFG, name: str, at: pf.Node, nonneg: Sequence[str]) -> Iv:
    """bounds of a local at a CFG node: hull of the definitions that reach it (their right-hand sides evaluated with every other local unknown)"""
    defs, entry = _reaching(cfg, name, at)
    out: Optional[Iv] = Iv(Fraction(0), INF) if entry and name in nonneg else (_top() if entry else None)
    for d in defs:
        v = _assigned_value(d, name)
        out = _hull(out, IvEval([m], {p: Iv(Fraction(0), INF) for p in nonneg}).ev(v) if v is not None else _top())
    return out if out is not None else _top()


def _override_guarded(m: pf.Module, fn: pf.FuncDef, cfg: pf.CFG, d: pf.Node, v: ast.expr, var: str, req: str, unit: Optional[Fraction],
                      extra: Sequence[Tuple[ast.expr, bool]] = ()) -> Tuple[str, str]:
    """`var = v` with v independent of the request `req`: 'ok' if every path to it passes a test that bounds the request by (at most) v, 'bad' if some path
    passes only tests that leave requests above v possible, 'unknown' otherwise.  `unit`: how many units of `req` one unit of `var` is (bytes per GiB)."""
    params = _params(fn)[1:]
    K = IvEval([m], {}).ev(v)
    kinds: Dict[Tuple[int, str], str] = {}
    notes: List[str] = []

    def kind_of(n: pf.Node, lab: str, test: Optional[ast.expr] = None) -> str:
        key = (n.id, lab)
        if key in kinds and test is None:
            return kinds[key]
        res = 'free'
        if test is not None or (n.kind == 'test' and isinstance(n.ast, ast.expr) and lab in ('T', 'F')):
            e0 = pf.expand_locals(fn, test if test is not None else n.ast)
            for e, pol, mods in _atomic_facts([m], e0, lab == 'T'):
                bf = _bound_fact(e, pol, [req, var])
                k = 'free'
                if bf is None:
                    k = 'unknown'
                    notes.append(f'`{short(pf.nsrc(e), 60)}` is not understood')
                elif bf[0].startswith('ub'):
                    who = bf[0].split(':')[1]
                    if bf[0].startswith('ub0'):
                        B = Iv(Fraction(0), Fraction(0))
                    else:
                        env = {x: _local_iv(m, fn, cfg, x, n, params) for x in pf.names_in(bf[1]) if x in pf.assignments(fn)}  # type: ignore[arg-type]
                        B = IvEval(mods, env).ev(bf[1])  # type: ignore[arg-type]
                    scale = unit if who == req else Fraction(1)
                    if scale is None or K.top():
                        k = 'unknown'
                    elif _fin(K.lo) and B.hi <= K.lo * scale:
                        k = 'ok'
                    elif who == req and _fin(K.hi) and B.lo > K.hi * scale:
                        k = 'free'
                        notes.append(f'the only test on the way, `{short(pf.nsrc(e), 90)}`{"" if pol else " being false"}, admits every `{req}` up to at least '
                                     f'{B.lo} > {K.hi * scale} = what `{pf.nsrc(v)}` covers')
                    else:
                        k = 'unknown'
                        notes.append(f'`{short(pf.nsrc(e), 60)}` bounds the request by a quantity in {B}, not comparable with {K}')
                if k == 'ok' or (k == 'unknown' and res != 'ok'):
                    res = k          # an edge that guarantees a sufficient bound protects, whatever else it says
        if test is None:
            kinds[key] = res
        return res
    # conditions attached to the definition itself (the test of a conditional expression)
    ex = [kind_of(d, 'T' if pol else 'F', t) for t, pol in extra]
    if 'ok' in ex:
        return 'ok', f'its own condition bounds `{req}` by what `{pf.nsrc(v)}` covers'
    if 'unknown' in ex:
        return 'unknown', '; '.join(dict.fromkeys(notes)) or 'unclassified condition'

    def search(block: Sequence[str]) -> Optional[List[pf.Node]]:
        prev: Dict[int, Optional[pf.Node]] = {cfg.entry.id: None}
        queue = [cfg.entry]
        while queue:
            n = queue.pop(0)
            for nx, lab in n.succ:
                if kind_of(n, lab) in block or nx.id in prev:
                    continue
                prev[nx.id] = n
                if nx is d:
                    path = [nx]
                    cur: Optional[pf.Node] = n
                    while cur is not None:
                        path.append(cur)
                        cur = prev[cur.id]
                    return list(reversed(path))
                queue.append(nx)
        return None
    p1 = search(('ok', 'unknown'))
    if p1 is not None:
        why = '; '.join(dict.fromkeys(x for x in notes if 'admits' in x)) or f'no test on the path {guards.fmt_path(p1)} bounds `{req}`'
        return 'bad', why
    p2 = search(('ok',))
    if p2 is not None:
        return 'unknown', '; '.join(dict.fromkeys(notes)) or 'unclassified test'
    return 'ok', f'every path passes a test that bounds `{req}` by what `{pf.nsrc(v)}` covers'


def _bytes_per_gib() -> Optional[Fraction]:
    """how many bytes round_storage_bytes_to_gib counts as one GiB (R5 checks that it is 1024**3); None if its shape is not a scaling"""
    try:
        mu = pf.load(FU)
        f = mu.func('round_storage_bytes_to_gib')
        rets = [n for n in pf.walk_shallow(f) if isinstance(n, ast.Return) and n.value is not None]
        ps = _params(f)
        if len(rets) != 1 or len(ps) != 1:
            return None
        sc = _scale(f, _flat(f, rets[0].value), ps[0])
        return 1 / sc if sc else None
    except AnalysisError:
        return None


def _desugar_returns(fn: pf.FuncDef, want: Sequence[str]) -> pf.FuncDef:
    """`return (a, b, <expr>)` is read as `v = <expr>; return (a, b, v)` where v is the like-role variable the expression uses (or the one another return
    puts at that position): the same function, with every placement made of plain variables.  Returns fn itself when nothing needs rewriting."""
    import copy
    tuples = [n.value for n in pf.walk_shallow(fn) if isinstance(n, ast.Return) and isinstance(n.value, ast.Tuple) and len(n.value.elts) == len(want)]
    if all(isinstance(e, ast.Name) for t in tuples for e in t.elts):
        return fn
    by_pos: Dict[int, str] = {}
    for t in tuples:
        for i, e in enumerate(t.elts):
            if isinstance(e, ast.Name) and _role(e.id) == want[i]:
                by_pos.setdefault(i, e.id)
    new = copy.deepcopy(fn)

    class T(ast.NodeTransformer):
        def visit_FunctionDef(self, node):
            return node if node is not new else self.generic_visit(node)

        def visit_Return(self, node):
            if not (isinstance(node.value, ast.Tuple) and len(node.value.elts) == len(want)) or all(isinstance(e, ast.Name) for e in node.value.elts):
                return node
            pre: List[ast.stmt] = []
            elts: List[ast.expr] = []
            for i, e in enumerate(node.value.elts):
                if isinstance(e, ast.Name):
                    elts.append(e)
                    continue
                names = [n.id for n in ast.walk(e) if isinstance(n, ast.Name) and _role(n.id) == want[i]]
                v = by_pos.get(i) or (names[0] if names else f'granted_{want[i]}')
                pre.append(ast.copy_location(ast.Assign(targets=[ast.Name(id=v, ctx=ast.Store())], value=e, lineno=node.lineno), node))
                elts.append(ast.copy_location(ast.Name(id=v, ctx=ast.Load()), e))
            # the temporaries are assigned together, after all right-hand sides were read: safe only if no rewritten element reads a variable assigned here
            assigned = {p_.targets[0].id for p_ in pre}  # type: ignore[attr-defined]
            for p_ in pre[1:]:
                if pf.names_in(p_.value) & assigned:
                    raise AnalysisError(f'{fn.name}: return `{short(pf.nsrc(node), 60)}` mixes expressions over the variables it returns (not a recognised shape)')
            ret = ast.copy_location(ast.Return(value=ast.copy_location(ast.Tuple(elts=elts, ctx=ast.Load()), node.value)), node)
            return [ast.fix_missing_locations(x) for x in pre] + [ast.fix_missing_locations(ret)]
    T().visit(new)
    return new


def _inline_deep(mods: List[pf.Module], e: ast.AST, carry: Sequence[str], depth: int = 3,
                 exclude: Sequence[str] = ()) -> Tuple[ast.AST, List[pf.Module], List[Tuple[pf.Module, pf.FuncDef, ast.Call]]]:
    """e with every call of a straight-line repository function whose ARGUMENTS carry one of the names in `carry` replaced by the expression it returns (innermost
    first, then again inside the result, bounded).  Calls that carry none of these names stay as they are: opaque symbols for the analyses below.
    Returns (expression, module search list, helpers seen through as (module, function, call))."""
    import copy
    cur = list(mods)
    through: List[Tuple[pf.Module, pf.FuncDef, ast.Call]] = []

    def go(x: ast.AST, d: int) -> ast.AST:
        class T(ast.NodeTransformer):
            def visit_Call(self, node: ast.Call):
                self.generic_visit(node)
                if d <= 0 or not any(_uses(a, carry) for a in list(node.args) + [k.value for k in node.keywords]) or pf.dotted(node.func) in exclude:
                    return node
                new, mods2 = _inline_pred(cur, node)
                if new is node:
                    return node
                callee = None
                for mm in cur:
                    if isinstance(node.func, ast.Name):
                        rr = _resolve_symbol(mm, node.func.id)
                        if rr is not None and isinstance(rr[1], ast.FunctionDef):
                            callee = rr
                            break
                if callee is not None:
                    through.append((callee[0], callee[1], node))  # type: ignore[arg-type]
                cur[:] = mods2
                return go(new, d - 1)
        return T().visit(copy.deepcopy(x))
    return go(e, depth), cur, through


def _shift_div(e: ast.AST) -> Optional[Tuple[ast.AST, Fraction, str]]:
    """(a, D, direction) if e is a rounded division of a by the positive CONSTANT D written with // or >>:  a // D and a >> k round down;
    (a + D - 1) // D, (a + (D - 1)) >> k ... (constant addend exactly D - 1) round up."""
    if not (isinstance(e, ast.BinOp) and isinstance(e.op, (ast.FloorDiv, ast.RShift))):
        return None
    k = _const_num(e.right)
    if k is None or k <= 0 or k.denominator != 1:
        return None
    D = Fraction(2) ** int(k) if isinstance(e.op, ast.RShift) else k
    terms: List[Tuple[int, ast.AST]] = []

    def flat(x: ast.AST, sign: int) -> None:
        if isinstance(x, ast.BinOp) and isinstance(x.op, ast.Add):
            flat(x.left, sign)
            flat(x.right, sign)
        elif isinstance(x, ast.BinOp) and isinstance(x.op, ast.Sub):
            flat(x.left, sign)
            flat(x.right, -sign)
        else:
            terms.append((sign, x))
    flat(e.left, 1)
    consts = [(sg, _const_num(t)) for sg, t in terms if _const_num(t) is not None]
    rest = [(sg, t) for sg, t in terms if _const_num(t) is None]
    if len(rest) != 1 or rest[0][0] != 1:
        return None
    add = sum((sg * c for sg, c in consts), Fraction(0))   # type: ignore[operator]
    if add == 0:
        return rest[0][1], D, 'down'
    if add == D - 1:
        return rest[0][1], D, 'up'
    return None


_ROUNDINGS = ('int', 'float', 'round', 'math.ceil', 'ceil', 'math.floor', 'floor', 'math.trunc')


def _monoform(e: ast.AST, var: str, depth: int = 12) -> Optional[Tuple[Fraction, Dict[str, int], int]]:
    """e as a monomial  c * var**n * prod(opaque**k)  with every rounding ignored (what e approximates); opaque = a maximal sub-expression that does not use `var`
    and is not a number.  None: not a monomial (sums of unlike terms ...)."""
    if depth <= 0:
        return None
    k = _const_num(e)
    if k is not None:
        return k, {}, 0
    if isinstance(e, ast.Name):
        return (Fraction(1), {}, 1) if e.id == var else (Fraction(1), {e.id: 1}, 0)
    if not _uses(e, [var]) and (isinstance(e, (ast.Attribute, ast.Subscript, ast.IfExp)) or (isinstance(e, ast.Call) and (pf.dotted(e.func) or '') not in _ROUNDINGS
                                                                                   and (pf.dotted(e.func) or '').split('.')[-1] != 'round_up_division')):
        return Fraction(1), {pf.nsrc(e): 1}, 0      # an atomic quantity of the environment (per-core memory of the pool's worker type ...)

    def mul(a, b, sign=1):
        if a is None or b is None:
            return None
        ex = dict(a[1])
        for s_, n_ in b[1].items():
            ex[s_] = ex.get(s_, 0) + sign * n_
        ex = {s_: n_ for s_, n_ in ex.items() if n_}
        if sign == -1 and b[0] == 0:
            return None
        return (a[0] * b[0] if sign == 1 else a[0] / b[0]), ex, a[2] + sign * b[2]
    sd = _shift_div(e)
    if sd is not None:
        return mul(_monoform(sd[0], var, depth - 1), (sd[1], {}, 0), -1)
    cd = _ceil_div(e)
    if cd is not None:
        return mul(_monoform(cd[0], var, depth - 1), _monoform(cd[1], var, depth - 1), -1)
    if isinstance(e, ast.Call) and not e.keywords:
        f = pf.dotted(e.func) or ''
        if f in _ROUNDINGS and len(e.args) == 1:
            return _monoform(e.args[0], var, depth - 1)
        if f.split('.')[-1] == 'round_up_division' and len(e.args) == 2:
            return mul(_monoform(e.args[0], var, depth - 1), _monoform(e.args[1], var, depth - 1), -1)
        return None
    if isinstance(e, ast.BinOp):
        if isinstance(e.op, ast.Mult):
            return mul(_monoform(e.left, var, depth - 1), _monoform(e.right, var, depth - 1))
        if isinstance(e.op, (ast.Div, ast.FloorDiv)):
            return mul(_monoform(e.left, var, depth - 1), _monoform(e.right, var, depth - 1), -1)
        if isinstance(e.op, (ast.LShift, ast.RShift)):
            kk = _const_num(e.right)
            if kk is None or kk.denominator != 1 or kk < 0:
                return None
            return mul(_monoform(e.left, var, depth - 1), (Fraction(2) ** int(kk), {}, 0), 1 if isinstance(e.op, ast.LShift) else -1)
    if isinstance(e, ast.UnaryOp) and isinstance(e.op, ast.UAdd):
        return _monoform(e.operand, var, depth - 1)
    return None


def _worker_type_status(m: pf.Module, e: ast.AST) -> str:
    """Does the sizing expression e (helpers seen through) take its per-core figure from the pool's own worker type?  'ok': self.worker_type occurs in it (directly or inside
    a method of the class that it calls); 'unknown': it reads other state of self that may encapsulate the worker type; 'bad': it reads nothing of self at all."""
    if any(pf.nsrc(n) == 'self.worker_type' for n in ast.walk(e)):
        return 'ok'
    other_self = False
    for n in ast.walk(e):
        if isinstance(n, ast.Call) and isinstance(n.func, ast.Attribute) and isinstance(n.func.value, ast.Name) and n.func.value.id == 'self':
            inl, _ = _inline_pred([m], n)
            if inl is not n and any(pf.nsrc(x) == 'self.worker_type' for x in ast.walk(inl)):
                return 'ok'
            other_self = True
        elif isinstance(n, ast.Attribute) and isinstance(n.value, ast.Name) and n.value.id == 'self' and n.attr != 'cloud':
            other_self = True
    return 'unknown' if other_self else 'bad'


PACK = 'adjust_cores_for_packability'


def _replace_src(e: ast.AST, target_src: str, name: str) -> Tuple[ast.AST, int]:
    """copy of e with every sub-expression whose source is `target_src` replaced by the name `name`; how many were replaced"""
    import copy
    n = [0]

    class T(ast.NodeTransformer):
        def visit(self, node):
            if isinstance(node, ast.expr) and pf.nsrc(node) == target_src:
                n[0] += 1
                return ast.copy_location(ast.Name(id=name, ctx=ast.Load()), node)
            return self.generic_visit(node)
    return T().visit(copy.deepcopy(e)), n[0]


def _rel_to(e: ast.AST, target_src: str) -> str:
    """how e relates to its sub-expression(s) `target_src`: 'ge' (never smaller), 'lower' (a recognised lowering: min / subtraction / division ...), 'indep' (does not contain it),
    'unknown'.  adjust_cores_for_packability(x) >= x (it rounds up to a packable size: trusted, the float arithmetic is not decided)."""
    e2, n = _replace_src(e, target_src, '__t__')
    if n == 0:
        return 'indep'

    class P(ast.NodeTransformer):
        def visit_Call(self, node: ast.Call):
            self.generic_visit(node)
            if pf.dotted(node.func) == PACK and len(node.args) == 1 and not node.keywords:
                return ast.copy_location(ast.Call(func=ast.Attribute(value=ast.Name(id='math', ctx=ast.Load()), attr='ceil', ctx=ast.Load()), args=node.args, keywords=[]), node)
            return node
    return _rel_prev(ast.fix_missing_locations(P().visit(e2)), '__t__')


def _path_label(facts: Sequence[Tuple[ast.expr, bool]]) -> str:
    """'gcp branch' / 'azure branch' if the path took an arm of a test of the cloud, else 'every cloud'"""
    neg = []
    for e, pol in facts:
        c = _cloud_of_test(e)
        if c is None:
            continue
        if pol:
            return f'{c} branch'
        neg.append(c)
    if neg:
        rest = [x for x in CLOUDS if x not in neg]
        if len(rest) == 1:
            return f'{rest[0]} branch'
    return 'every cloud'


def _hoist_common_max(e: ast.AST) -> ast.AST:
    """(max(k, A) if c else max(k, B))  ==  max(k, (A if c else B))   (same for min): a helper that splits on the cloud and combines the same core figure on each arm"""
    class H(ast.NodeTransformer):
        def visit_IfExp(self, node: ast.IfExp):
            self.generic_visit(node)
            a, b = node.body, node.orelse
            if isinstance(a, ast.Call) and isinstance(b, ast.Call) and pf.dotted(a.func) in ('max', 'min') and pf.dotted(a.func) == pf.dotted(b.func) \
                    and len(a.args) == 2 and len(b.args) == 2 and not a.keywords and not b.keywords:
                for i in (0, 1):
                    for j in (0, 1):
                        if pf.nsrc(a.args[i]) == pf.nsrc(b.args[j]):
                            rest = ast.IfExp(test=node.test, body=a.args[1 - i], orelse=b.args[1 - j])
                            return ast.fix_missing_locations(ast.copy_location(ast.Call(func=a.func, args=[a.args[i], rest], keywords=[]), node))
            return node
    import copy
    return H().visit(copy.deepcopy(e))


_ADJUST_SEEN: Set[Tuple[str, str]] = set()


def _monomial_parts(e: ast.AST, var: str) -> List[ast.AST]:
    """the maximal sub-expressions of e that are monomials of degree one in `var` (rounding ignored)"""
    mf = _monoform(e, var)
    if mf is not None and mf[2] == 1:
        return [e]
    if not _uses(e, [var]):
        return []
    out: List[ast.AST] = []
    for c in ast.iter_child_nodes(e):
        if isinstance(e, ast.Call) and c is e.func:
            continue
        if isinstance(c, ast.expr):
            out += _monomial_parts(c, var)
    return out


def _check_memory_sizing(ctx: Ctx, m: pf.Module, fn: pf.FuncDef, qual: str, cons0_of, p_cores: str, p_mem: str) -> None:
    """R2 (structure) and R5 (direction, units) of the memory clause on the CLOSED FORMS of the returned cores / memory: every feasible path to a returned placement is
    executed symbolically (engines/c12sym: locals substituted, one case per branch combination, nothing is run), pure helpers - per-cloud or shared, of any module - are
    seen through, and the rules look at what the granted cores C and memory M are as functions of the request:
        C >= max(requested cores, T(requested memory, per-core memory))      M >= E(C, per-core memory)      T never rounds the request down      units of T x E cancel
    An if/else over the cloud with one helper per cloud, a single path through shared helpers, fresh locals, guard clauses and hoisted statements are all the same to it."""
    paths = c12sym.exec_paths(fn)
    placements = [p_ for p_ in paths if p_.kind == 'return' and isinstance(p_.value, ast.Tuple) and len(p_.value.elts) == 3]
    ctx.need(placements, f'{qual}: no path returns a placement')
    done: Set[Tuple[str, str]] = set()

    def ok(rule: str, key: str, detail=None) -> None:
        if (rule, key) not in done:
            done.add((rule, key))
            ctx.ok(rule, key, detail)

    def bad(rule: str, key: str, msg: str, line: int) -> None:
        if (rule, key) not in done:
            done.add((rule, key))
            ctx.bad(rule, key, msg, m.path, line)

    def defer(msg: str) -> None:
        _DEFERRED.append(f'{qual}: {msg}')
    for pr in placements:
        C, M, _S = pr.value.elts  # type: ignore[union-attr]
        label = _path_label(pr.facts)
        consb = f'{FI}::{qual}::{label}'
        cons0 = cons0_of(pr)
        line = pr.lineno
        Csrc = pf.nsrc(C)
        carry = [p_cores, p_mem]
        C_inl, _mods, through = _inline_deep([m], C, carry, exclude=(PACK,))
        C_inl = _hoist_common_max(C_inl)
        shownC = short(pf.nsrc(C), 120)
        # ---- cores: raised for the memory request, never lowered afterwards
        cores_bad = False
        if not _uses(C_inl, [p_mem]):
            cl = label.split()[0] if label != 'every cloud' else '<cloud>'
            bad('R2', consb + '::memory raises cores', f'on the path [{pr.conds()}] the granted cores are `{shownC}`, which does not depend on the requested `{p_mem}` at all - no '
                f'`{cl}_adjust_cores_for_memory_request({p_cores}, {p_mem}, …)` / `max({p_cores}, <minimum for {p_mem}>)`: the granted memory is cores x memory-per-core of the '
                f'*requested* cores, which is less than the requested memory (e.g. cpu=0.25, memory=10Gi)', line)
            continue
        cands = [n for n in ast.walk(C_inl) if isinstance(n, ast.Call) and pf.dotted(n.func) in ('max', 'min') and not n.keywords
                 and any(_uses(a, [p_mem]) for a in n.args) and any(_uses(a, [p_cores]) and not _uses(a, [p_mem]) for a in n.args)]
        # nested candidates: keep the innermost ones that combine the requested cores with a memory-driven figure
        cands = [c for c in cands if not any(o is not c and any(o is x for x in ast.walk(c)) for o in cands)]
        if len(cands) != 1:
            defer(f'the granted cores `{shownC}` depend on `{p_mem}` but not through one max({p_cores}, <minimum for {p_mem}>) ({len(cands)} candidates)')
            continue
        R = cands[0]
        terms = [a for a in R.args if _uses(a, [p_mem])]
        keeps = [a for a in R.args if _uses(a, [p_cores]) and not _uses(a, [p_mem])]
        if len(terms) != 1 or len(keeps) != 1:
            defer(f'`{short(pf.nsrc(R), 80)}` does not combine one core figure with one memory-driven figure')
            continue
        T = terms[0]
        is_max = pf.dotted(R.func) == 'max'
        rel_c = _rel_to(C_inl, pf.nsrc(R))
        rel_k = _rel_to(keeps[0], p_cores) if not (isinstance(keeps[0], ast.Name) and keeps[0].id == p_cores) else 'ge'
        if rel_c == 'lower' or rel_k == 'lower':
            cores_bad = True
            bad('R2', cons0 + '::cores::lowered', f'the granted cores are `{short(pf.nsrc(C_inl), 160)}`: after being derived from the request (`{short(pf.nsrc(R), 60)}`) they are LOWERED '
                f'(min / subtraction / division) before the placement is returned: a request that the pool accepts is granted fewer cores than it asked for (the placement no longer '
                f'covers the request)', line)
        elif rel_c != 'ge' or rel_k != 'ge':
            defer(f'how the granted cores `{short(pf.nsrc(C_inl), 100)}` relate to `{short(pf.nsrc(R), 60)}` is not classified')
            continue
        else:
            ok('R2', cons0 + '::cores::never lowered', {'granted_cores': short(pf.nsrc(C_inl), 200)})
        wts = _worker_type_status(m, T)
        if wts == 'unknown':
            defer(f'`{short(pf.nsrc(T), 60)}`: where the per-core memory comes from (self.worker_type?) is not visible')
        elif wts == 'bad':
            bad('R2', consb + '::memory raises cores', f'`{short(pf.nsrc(R), 120)}` does not take ({p_cores}, {p_mem}, …, self.worker_type): the per-core memory is not that of '
                f'self.worker_type: the core count is not raised to cover the requested memory on this pool\'s worker type', line)
        else:
            ok('R2', consb + '::memory raises cores', short(pf.nsrc(R), 160))
        # ---- R5 on the raise: helper on its own, then the whole request -> core minimum computation
        helper_bad = False
        tops = [(hm, hf, call) for hm, hf, call in through if not any(isinstance(x, ast.If) for x in hf.body)
                and isinstance(_flat(hf, next((r_.value for r_ in pf.walk_shallow(hf) if isinstance(r_, ast.Return) and r_.value is not None), ast.Constant(value=None))), ast.Call)
                and pf.dotted(_flat(hf, next(r_.value for r_ in pf.walk_shallow(hf) if isinstance(r_, ast.Return) and r_.value is not None)).func) in ('max', 'min')]  # type: ignore[union-attr]
        for hm, hf, call in tops:
            helper_bad = _check_adjust_helper(ctx, hm, hf, call, [p_cores], p_mem) or helper_bad
        if not tops:
            if is_max:
                ok('R5', f'{FI}::{qual}::{label}::>= requested cores')
            else:
                bad('R5', f'{FI}::{qual}::{label}::>= requested cores', f'`{short(pf.nsrc(R), 90)}` is not of the form max({p_cores}, …): fewer cores than requested can be granted '
                    f'(e.g. cpu=8, memory=1Gi)', line)
        elif not is_max:
            helper_bad = True      # reported on the helper
        shown = short(pf.nsrc(T), 140)
        consr = f'{FI}::{qual}::{label}::requested memory -> core minimum'
        if not helper_bad:
            dirn = _direction(fn, T, p_mem)
            if dirn in ('exact', 'up'):
                ok('R5', consr + ' never rounds down')
            else:
                bad('R5', consr + ' never rounds down',
                    f'on the way from the requested `{p_mem}` to the core minimum - `{shown}` (helpers seen through: {", ".join(dict.fromkeys(hf.name for _, hf, _ in through)) or "none"}) - the '
                    f'request is {"rounded DOWN" if dirn == "down" else "rounded DOWN at one step and up at another"}: the part of the request below that granularity is dropped before the '
                    f'cores are rounded up, so cores x memory-per-core can fall short of the request. E.g. a request one byte (or half a MiB) above k cores\' worth of memory - '
                    f'cpu=1, memory=\'3840.5Mi\' on a 3840 MiB/core pool - is granted k cores = 4026531840 bytes < 4027056128 requested', line)
            if _numer(fn, T, p_mem):
                ok('R5', consr + ' grows with the request')
            else:
                bad('R5', consr + ' grows with the request', f'`{shown}` does not grow with {p_mem}: more memory does not raise the core count', line)
        # ---- memory: derived from the FINAL cores, never lowered afterwards
        if isinstance(M, ast.Name) and M.id == p_mem:
            ok('R2', consb + '::memory from final cores', 'the requested memory itself is granted')
            continue
        M1, n_occ = _replace_src(M, Csrc, '__cores__')
        if n_occ == 0:
            if cores_bad:
                continue
            # derived from an earlier stage of the core count?
            subs = sorted({pf.nsrc(x) for x in ast.walk(C) if isinstance(x, ast.Call) or (isinstance(x, ast.Name) and x.id == p_cores)} - {Csrc}, key=len, reverse=True)
            early = [x for x in subs if _replace_src(M, x, '__x__')[1] > 0]
            if early and _rel_to(C, early[0]) == 'ge':
                bad('R2', consb + '::memory from final cores', f'the granted memory `{short(pf.nsrc(M), 110)}` is derived from `{short(early[0], 80)}`, the core count BEFORE it is final '
                    f'(the granted cores are `{shownC}`): the granted memory is computed for fewer cores than are granted and can be below the requested memory', line)
            else:
                defer(f'the granted memory `{short(pf.nsrc(M), 80)}` is not derived from the granted cores `{shownC}` (not a recognised shape)')
            continue
        M_inl, _m2, _t2 = _inline_deep([m], M1, ['__cores__'])
        parts = _monomial_parts(M_inl, '__cores__')
        if len({pf.nsrc(x) for x in parts}) != 1:
            defer(f'the granted memory `{short(pf.nsrc(M_inl), 100)}` is not built from one cores x per-core conversion')
            continue
        D = parts[0]
        rel_m = 'ge' if D is M_inl else _rel_to(M_inl, pf.nsrc(D))
        if rel_m == 'lower':
            bad('R2', cons0 + '::memory::lowered', f'the granted memory is `{short(pf.nsrc(M_inl), 160).replace("__cores__", "<granted cores>")}`: after being derived from the granted cores '
                f'(`{short(pf.nsrc(D), 70).replace("__cores__", "<granted cores>")}`) it is LOWERED '
                f'(min / subtraction / division) before the placement is returned: a request that the pool accepts is granted less memory than it asked for', line)
            continue
        if rel_m != 'ge':
            defer(f'how the granted memory `{short(pf.nsrc(M_inl), 100)}` relates to `{short(pf.nsrc(D), 60)}` is not classified')
            continue
        ok('R2', cons0 + '::memory::never lowered', {'granted_memory': short(pf.nsrc(M_inl), 200)})
        ok('R2', consb + '::memory from final cores', {'cores': shownC})
        wts = _worker_type_status(m, D)
        if wts == 'unknown':
            defer(f'`{short(pf.nsrc(D), 60)}`: where the per-core memory comes from (self.worker_type?) is not visible')
        elif wts == 'ok':
            ok('R2', consb + '::memory uses pool worker type')
        else:
            bad('R2', consb + '::memory uses pool worker type', f'`{short(pf.nsrc(D), 100)}` does not use self.worker_type: memory is computed for another worker type than the pool\'s', line)
        # ---- units: (request -> cores) x (cores -> memory) >= 1
        a, b = _monoform(T, p_mem), _monoform(D, '__cores__')
        consu = f'{FI}::{qual}::{label}::request -> cores -> memory units'
        if a is None or b is None or a[2] != 1 or b[2] != 1:
            defer(f'`{shown}` / `{short(pf.nsrc(D), 80)}` are not monomials in the request / the cores (units not compared)')
            continue
        ex = dict(a[1])
        for s_, n_ in b[1].items():
            ex[s_] = ex.get(s_, 0) + n_
        ex = {s_: n_ for s_, n_ in ex.items() if n_}
        if ex:
            defer(f'the per-core quantities of `{shown}` and `{short(pf.nsrc(D), 80)}` do not cancel ({sorted(ex)}): units not compared')
            continue
        prod = a[0] * b[0]
        if prod >= 1:
            ok('R5', consu, {'request_to_cores': str(a[0]), 'cores_to_memory': str(b[0])})
        else:
            bad('R5', consu, f'cores are raised to `{shown}` (= {a[0]} x {p_mem} / per-core) and memory is then `{short(pf.nsrc(D), 100).replace("__cores__", "<granted cores>")}` (= {b[0]} x cores x per-core): '
                f'together {prod} x the request, i.e. the granted memory is only {float(prod):.4f} of the requested memory (a unit mix-up such as MB vs MiB)', line)



def _check_adjust_helper(ctx: Ctx, hm: pf.Module, hf: pf.FuncDef, call: ast.Call, v_cores: Sequence[str], p_mem: str) -> bool:
    """R5 on the helper that raises the cores for a memory request, judged on its own parameters (which one receives the cores / the request is read off the call).
    Returns True if the helper itself rounds the wrong way (reported here)."""
    ps = _params(hf)
    bind: Dict[str, ast.AST] = dict(zip(ps, call.args))
    bind.update({k.arg: k.value for k in call.keywords if k.arg})
    pm = [p_ for p_, a in bind.items() if _uses(a, [p_mem])]
    pc = [p_ for p_, a in bind.items() if _uses(a, v_cores) and p_ not in pm]
    name = hf.name
    ctx.need(len(pc) == 1 and len(pm) == 1, f'{name}: cannot tell which parameters receive the cores / the memory request in `{short(pf.nsrc(call), 60)}`')
    key = (hm.rel, name)
    rets = [n for n in pf.walk_shallow(hf) if isinstance(n, ast.Return)]
    ctx.need(len(rets) == 1 and rets[0].value is not None, f'{name}: expected one return')
    cons = f'{hm.rel}::{name}'
    v = _flat(hf, rets[0].value)
    if not isinstance(v, ast.Call):
        v = pf.resolve_expr(hf, rets[0].value)
    if isinstance(v, ast.Call) and pf.dotted(v.func) == 'min' and not _ge_param(hf, rets[0].value, pc[0]):
        if key not in _ADJUST_SEEN:
            _ADJUST_SEEN.add(key)
            ctx.bad('R5', cons + '::>= requested cores', f'`{short(pf.nsrc(rets[0]), 70)}` is not of the form max({pc[0]}, …): fewer cores than requested can be granted (e.g. cpu=8, memory=1Gi)',
                    hm.path, rets[0].lineno)
        return True
    ctx.need(isinstance(v, ast.Call) and pf.dotted(v.func) == 'max', f'{name}: return is not max(...)')
    others = [a for a in v.args if not (isinstance(a, ast.Name) and a.id == pc[0])]
    mem_terms = [a for a in others if _mentions(hf, a, pm[0])]
    ctx.need(len(mem_terms) == 1, f'{name}: expected one memory-driven term in `{pf.nsrc(v)}`, found {len(mem_terms)}')
    t = mem_terms[0]
    d = _direction(hf, t, pm[0])
    if key in _ADJUST_SEEN:
        return d not in ('exact', 'up')
    _ADJUST_SEEN.add(key)
    ctx.check(_ge_param(hf, rets[0].value, pc[0]), 'R5', cons + '::>= requested cores',
              f'`{short(pf.nsrc(rets[0]), 70)}` is not of the form max({pc[0]}, …): fewer cores than requested can be granted (e.g. cpu=8, memory=1Gi)', hm.path, rets[0].lineno)
    shown = short(pf.nsrc(pf.expand_locals(hf, t)), 110)
    ctx.check(d in ('exact', 'up'), 'R5', cons + '::memory minimum rounds up',
              f'the memory-driven core minimum `{shown}` is {"rounded DOWN" if d == "down" else "rounded in both directions"} on the way from {pm[0]}: the granted cores x '
              f'memory-per-core can fall below the requested memory (e.g. a request just above a whole multiple of the unit that is floored)', hm.path, rets[0].lineno)
    ctx.check(_numer(hf, t, pm[0]), 'R5', cons + '::memory / per-core', f'`{shown}` does not grow with {pm[0]}: more memory does not raise the core count', hm.path, rets[0].lineno)
    return d not in ('exact', 'up')


def _check_convert(ctx: Ctx, m: pf.Module, facts: Facts) -> None:
    qual = 'PoolConfig.convert_requests_to_resources'
    m0 = m
    # same-class helper methods (statement-level calls) are spliced in first: `cores = self._cores_for(cores, memory)` is the helper's body
    m, _il = inline.inline_methods(m0, 'PoolConfig', 'convert_requests_to_resources')
    fn = _desugar_returns(m.func(qual), WANT3)
    params = _params(fn)
    ctx.need(len(params) == 4, f'{qual}: parameters {params}')
    p_cores, p_mem, p_sto = params[1:]
    ctx.need([_role(x) for x in params[1:]] == WANT3, f'{qual}: parameters {params[1:]} are not (cores, memory, storage)')
    cfg = pf.cfg(fn)
    rets = [n for n in cfg.nodes if n.kind == 'return' and isinstance(n.ast, ast.Return)]
    placements = [r for r in rets if isinstance(r.ast.value, ast.Tuple)]  # type: ignore[union-attr]
    for r in rets:
        v = r.ast.value  # type: ignore[union-attr]
        ctx.need(v is None or isinstance(v, ast.Tuple) or (isinstance(v, ast.Constant) and v.value is None),
                 f'{qual}: return `{short(pf.nsrc(r.ast), 50)}` is neither a placement tuple nor None')
    ctx.need(placements, f'{qual}: no placement is returned')
    for r in placements:
        tup = r.ast.value  # type: ignore[union-attr]
        roles = _roles(tup.elts)
        cons0 = f'{FI}::{qual}::return {short(pf.nsrc(tup), 60)}'
        ctx.check(roles == WANT3, 'R4', cons0 + '::order', f'the placement tuple is {roles}, readers unpack (cores, memory, storage): the granted '
                  f'{roles[1] if len(roles) > 1 else "?"} is stored as the job\'s memory', m.path, r.lineno)
        if roles != WANT3 or not all(isinstance(e, ast.Name) for e in tup.elts):
            ctx.need(roles != WANT3, f'{qual}: placement elements are not plain variables')
            continue
        v_cores, v_mem, v_sto = [e.id for e in tup.elts]
        # fits one worker
        starts = guards.def_nodes(cfg, v_cores) + ([cfg.entry] if v_cores in params else [])
        path = guards.unguarded_path(cfg, facts, starts, lambda n: n is r, lambda e, pol: _fits_fact(_expand_except(fn, e, [v_cores]), pol, v_cores) == 'ok')
        clamped = False
        if path is not None:
            # cores = min(<anything>, 1000 * self.worker_cores) fits by construction (whether clamping is allowed is the provenance rule's business)
            rdefs, rentry = _reaching(cfg, v_cores, r)
            vals = [_assigned_value(d_, v_cores) for d_ in rdefs]
            clamped = bool(rdefs) and not rentry and all(
                isinstance(v_, ast.Call) and pf.dotted(v_.func) == 'min' and not v_.keywords
                and any((_monoform(_expand_except(fn, a_, [v_cores]), '__none__') or (0, {}, 0))[:2] == (1000, {'self.worker_cores': 1}) for a_ in v_.args) for v_ in vals)
        if path is None or clamped:
            ctx.ok('R2', cons0 + '::fits one worker', f'{v_cores} <= self.worker_cores * 1000' if path is None else f'{v_cores} = min(…, self.worker_cores * 1000)')
        else:
            related = [(_fits_fact(_expand_except(fn, e, [v_cores]), pol, v_cores), pf.nsrc(e)) for n in cfg.nodes if n.kind == 'test' and isinstance(n.ast, ast.expr)
                       for lab in ('T', 'F') for e, pol in facts.edge(n, lab)]
            strict = [t for k, t in related if k == 'strict']
            scaled = [(k, t) for k, t in related if k in ('loose', 'tight')]
            other = [t for k, t in related if k == 'other']
            # an opaque predicate over the returned cores on the way (a helper that may hold the guard): not decided
            opaque = [short(n.text(), 50) for n in path if n.kind == 'test' and isinstance(n.ast, ast.expr)
                      and any(isinstance(c, ast.Call) and v_cores in pf.names_in(c) and (pf.dotted(c.func) or '') not in ('isinstance', 'len') for c in ast.walk(n.ast))]
            if strict:
                msg = (f'the guard is `{strict[0]}` (strict): a request that exactly fills a worker ({v_cores} == worker_cores*1000) is rejected although this pool satisfies it')
            elif scaled:
                k, t = scaled[0]
                msg = (f'the placement is guarded by `{t}`, whose bound is not 1000 x self.worker_cores (mCPU per core): '
                       + ('a job larger than any worker of the pool is accepted and can never be scheduled' if k == 'loose' else 'requests that fit on one worker are rejected'))
            else:
                ctx.need(not other, f'{qual}: the placement is guarded by `{other[0] if other else ""}`, which the analysis cannot relate to `{v_cores} <= self.worker_cores * 1000` (not decided)')
                ctx.need(not opaque, f'{qual}: `{opaque[0] if opaque else ""}` may hold the fits-one-worker guard (not followed)')
                msg = f'the placement is returned without `{v_cores} <= self.worker_cores * 1000` {guards.fmt_path(path)}: a job larger than any worker of the pool is accepted and can never be scheduled'
            ctx.bad('R2', cons0 + '::fits one worker', msg, m.path, r.lineno)
        # storage: derived from the request by requested_storage_bytes_to_actual_storage_gib (exactly one such definition), never None, never lowered afterwards
        cons = cons0 + '::storage'

        def is_sto_base(v: ast.AST) -> bool:
            return isinstance(v, ast.Call) and pf.dotted(v.func) == 'requested_storage_bytes_to_actual_storage_gib'
        sto_defs = [n for n in guards.def_nodes(cfg, v_sto) if _assigned_value(n, v_sto) is not None and is_sto_base(_assigned_value(n, v_sto))]  # type: ignore[arg-type]
        ctx.need(len(sto_defs) == 1, f'{qual}: `{v_sto}` is not derived by exactly one call of requested_storage_bytes_to_actual_storage_gib ({len(sto_defs)} found)')
        d = _assigned_value(sto_defs[0], v_sto)
        args = [pf.nsrc(a) for a in d.args]  # type: ignore[union-attr]
        ctx.check(len(args) >= 2 and args[0] == 'self.cloud' and args[1] == p_sto, 'R2', cons,
                  f'granted storage is computed from ({", ".join(args[:2])}), not (self.cloud, {p_sto}): the job gets storage sized for a different quantity', m.path, r.lineno)
        path = guards.unguarded_path(cfg, facts, sto_defs, lambda n: n is r, lambda e, pol: guards.is_neq_fact(e, pol, v_sto, 'None'))
        ctx.check(path is None, 'R2', cons + ' is not None', f'a placement can be returned while `{v_sto}` is None (request above the cloud maximum) {guards.fmt_path(path)}: '
                  'an unsatisfiable storage request is accepted instead of rejected', m.path, r.lineno)
        # provenance: what is returned is what was derived from the request - no later definition lowers it
        _provenance(ctx, m, fn, cfg, qual, r, v_sto, 'storage', is_sto_base, cons, req_param=p_sto, unit=_bytes_per_gib())
    if all(_roles(r.ast.value.elts) == WANT3 for r in placements):  # type: ignore[union-attr]
        _check_memory_sizing(ctx, m, fn, qual, lambda pr: f'{FI}::{qual}::return {short(pf.nsrc(pr.node.value), 60)}' if pr.node is not None and getattr(pr.node, 'value', None) is not None
                             else f'{FI}::{qual}::return', p_cores, p_mem)
    # job-private
    m = m0
    qualj = 'JobPrivateInstanceManagerConfig.convert_requests_to_resources'
    fj = m.func(qualj)
    pj = _params(fj)
    for r in [n for n in pf.walk_shallow(fj) if isinstance(n, ast.Return) and isinstance(n.value, ast.Tuple)]:
        roles = _roles(r.value.elts)  # type: ignore[union-attr]
        cons = f'{FI}::{qualj}::return {short(pf.nsrc(r.value), 60)}'
        ctx.check(roles == WANT4, 'R4', cons + '::order', f'the placement tuple is {roles}, the front end unpacks (name, cores, memory, storage)', m.path, r.lineno)
        if roles == WANT4 and isinstance(r.value.elts[3], ast.Name):  # type: ignore[union-attr]
            vj = r.value.elts[3].id  # type: ignore[union-attr]
            cfgj = pf.cfg(fj)

            def is_sto_base_j(v: ast.AST) -> bool:
                return isinstance(v, ast.Call) and pf.dotted(v.func) == 'requested_storage_bytes_to_actual_storage_gib'
            bj = [n for n in guards.def_nodes(cfgj, vj) if _assigned_value(n, vj) is not None and is_sto_base_j(_assigned_value(n, vj))]  # type: ignore[arg-type]
            ctx.need(len(bj) == 1, f'{qualj}: storage is not from (one call of) requested_storage_bytes_to_actual_storage_gib')
            d = _assigned_value(bj[0], vj)
            args = [pf.nsrc(a) for a in d.args]  # type: ignore[union-attr]
            sto_par = [p for p in pj if _role(p) == 'storage']
            ctx.check(len(args) >= 2 and args[0] == 'self.cloud' and sto_par and args[1] == sto_par[0], 'R2', cons + '::storage',
                      f'granted storage is computed from ({", ".join(args[:2])}), not (self.cloud, storage_bytes)', m.path, r.lineno)
            rn = [n for n in cfgj.nodes if n.kind == 'return' and n.ast is r]
            if rn and sto_par:
                _provenance(ctx, m, fj, cfgj, qualj, rn[0], vj, 'storage', is_sto_base_j, cons + '::storage', req_param=sto_par[0], unit=_bytes_per_gib())


def _cloud_of_test(t: ast.AST) -> Optional[str]:
    s = guards.eq_sides(t)
    if s is None or s[2] is not ast.Eq:
        return None
    for a, b in ((s[0], s[1]), (s[1], s[0])):
        if (a.split('.')[-1] in ('cloud', 'CLOUD')) and b in ("'gcp'", "'azure'"):
            return b.strip("'")
    return None


# --------------------------------------------------------------------------------------
# R3b: dispatch + front end
# --------------------------------------------------------------------------------------


def _check_dispatch(ctx: Ctx, m: pf.Module, selectors: Dict[str, pf.FuncDef]) -> None:
    qual = 'InstanceCollectionConfigs.select_inst_coll'
    fn = m.func(qual)
    want = {
        (False, True): 'select_pool_from_worker_type',   # (worker_type is None, machine_type is None)
        (True, True): 'select_cheapest_price_pool',
        (True, False): 'select_job_private',
        (False, False): None,  # contradictory request: must not silently select
    }
    atoms = absdom.collect_test_atoms(fn.body)

    def val_for(wt_none: bool, mt_none: bool):
        def val(a: ast.AST) -> bool:
            s = guards.eq_sides(a)
            if s is not None and 'None' in (s[0], s[1]):
                var = s[0] if s[1] == 'None' else s[1]
                isnone = {'worker_type': wt_none, 'machine_type': mt_none}.get(var)
                if isnone is not None:
                    return isnone if s[2] in (ast.Is, ast.Eq) else not isnone
            if isinstance(a, ast.Name) and a.id in ('worker_type', 'machine_type'):
                return not {'worker_type': wt_none, 'machine_type': mt_none}[a.id]
            raise AnalysisError(f'{qual}: unrecognised test `{pf.nsrc(a)}`')
        return val
    for (wt_none, mt_none), selector in want.items():
        executed: List[ast.stmt] = []
        cons = f'{FI}::{qual}::worker_type {"is" if wt_none else "is not"} None, machine_type {"is" if mt_none else "is not"} None'
        o = absdom.walk_block(fn.body, val_for(wt_none, mt_none), executed)
        called = [c for s in executed if not isinstance(s, ast.Assert) for c in pf.calls_in(s) if isinstance(c.func, ast.Attribute) and c.func.attr.startswith('select_')]
        asserts_fail = False
        for s in executed:
            if isinstance(s, ast.Assert):
                try:
                    for conj in (s.test.values if isinstance(s.test, ast.BoolOp) and isinstance(s.test.op, ast.And) else [s.test]):
                        if guards.eq_sides(conj) is not None or isinstance(conj, ast.Name):
                            if not val_for(wt_none, mt_none)(conj):
                                asserts_fail = True
                except AnalysisError:
                    pass
        names = [c.func.attr for c in called]  # type: ignore[union-attr]
        if selector is None:
            ctx.check(asserts_fail or not names, 'R3', cons, f'a request naming both a worker type and a machine type is silently served by {names}', m.path, fn.lineno)
            continue
        ok = names == [selector] and not asserts_fail and o.kind == 'return'
        ctx.check(ok, 'R3', cons, f'this case is served by {names or "no selector"}{" after a failing assert" if asserts_fail else ""}, expected {selector}: '
                  'the named worker type / machine type of the request is ignored or the request is rejected although a matching collection exists', m.path, fn.lineno)
        if ok:
            c = called[0]
            callee = m.func(f'InstanceCollectionConfigs.{selector}')
            _check_call_names(ctx, m, qual, c, _params(callee)[1:], fn, f'InstanceCollectionConfigs.{selector}')
            # the result of the selector is what is returned
            ret = o.node
            tgt = [pf.nsrc(t) for s in executed if isinstance(s, ast.Assign) and s.value is c for t in s.targets]
            okr = isinstance(ret, ast.Return) and isinstance(ret.value, ast.Tuple) and len(ret.value.elts) == 2 and tgt \
                and pf.nsrc(ret.value.elts[0]) == tgt[0] and isinstance(ret.value.elts[1], ast.Constant) and ret.value.elts[1].value is None
            ctx.need(okr or isinstance(ret, ast.Return), f'{qual}: no return')
            ctx.check(bool(okr), 'R3', cons + '::returned', f'the value returned is `{pf.nsrc(ret.value) if isinstance(ret, ast.Return) and ret.value else None}`, not (result of {selector}, None)',
                      m.path, getattr(ret, 'lineno', fn.lineno))
    # placement tuples of the selectors
    for name, fn2 in selectors.items():
        for r in [n for n in pf.walk_shallow(fn2)]:
            tup = None
            if isinstance(r, ast.Return) and isinstance(r.value, ast.Tuple):
                tup = r.value
            elif isinstance(r, ast.Assign) and isinstance(r.value, ast.Tuple) and len(r.value.elts) == 4 and len(r.targets) == 1 and isinstance(r.targets[0], ast.Name):
                tup = r.value
            elif isinstance(r, ast.Assign) and len(r.targets) == 1 and isinstance(r.targets[0], ast.Tuple) and isinstance(r.value, ast.Name) \
                    and isinstance(pf.single_def(fn2, r.value.id), ast.Call) and 'convert_requests_to_resources' in pf.nsrc(pf.single_def(fn2, r.value.id)):  # type: ignore[arg-type]
                roles = _roles(r.targets[0].elts)
                ctx.check(roles == WANT3, 'R4', f'{FI}::InstanceCollectionConfigs.{name}::unpack {short(pf.nsrc(r.targets[0]), 70)}',
                          f'the pool placement (cores, memory, storage) is unpacked as {roles}', m.path, r.lineno)
                _check_kept(ctx, m, fn2, f'InstanceCollectionConfigs.{name}', [e.id for e in r.targets[0].elts if isinstance(e, ast.Name)], r, FI)
                continue
            if tup is None:
                continue
            roles = _roles(tup.elts)
            ctx.check(roles == WANT4, 'R4', f'{FI}::InstanceCollectionConfigs.{name}::placement {short(pf.nsrc(tup), 70)}',
                      f'the placement tuple is {roles}, the front end unpacks (name, cores, memory, storage): quantities are stored under the wrong resource', m.path, r.lineno)


def _check_kept(ctx: Ctx, m: pf.Module, fn: pf.FuncDef, qual: str, names: Sequence[str], unpack: ast.AST, file: str) -> None:
    """R2: a quantity unpacked from a placement is passed on as granted - any other definition of the same local must not lower it."""
    for nm in names:
        if _role(nm) not in WANT3:
            continue
        others = [d for d in pf.assignments(fn).get(nm, []) if d is not unpack]
        cons = f'{file}::{qual}::{nm} keeps the granted value'
        bad = False
        for d in others:
            v = d
            if isinstance(d, ast.AugAssign):
                v = ast.copy_location(ast.BinOp(left=ast.Name(id=nm, ctx=ast.Load()), op=d.op, right=d.value), d)
            if not isinstance(v, ast.expr):
                _DEFERRED.append(f'{qual}: `{nm}` is also bound by `{short(pf.nsrc(d), 50)}` (not followed)')
                continue
            rel = _rel_prev(v, nm)
            if rel == 'ge':
                continue
            if rel == 'lower':
                bad = True
                ctx.bad('R2', cons, f'`{nm} = {short(pf.nsrc(v), 70)}` (line {v.lineno}) lowers the {_role(nm)} the instance collection granted before it is recorded for the job: the job is '
                        f'accepted with less {_role(nm)} than its request', m.path, v.lineno)
            else:
                _DEFERRED.append(f'{qual}: `{nm} = {short(pf.nsrc(v), 50)}` re-defines a granted quantity in a way the analysis does not classify')
        if not bad and not others:
            ctx.ok('R2', cons)


def _check_request_kept(ctx: Ctx, m: pf.Module, fn: pf.FuncDef, cfg: pf.CFG, qual: str, call: ast.Call, callee_params: List[str]) -> None:
    """R2 at the entrance of the chain: what the front end hands to select_inst_coll as the requested cores / memory / storage is the figure it parsed from the job
    spec - no definition on the way lowers it (floor to a coarser unit, min, subtraction).  The placement is sized for the figure passed here, so a lowered
    request is granted less than the job asked for although every later stage is right."""
    args: Dict[str, ast.AST] = dict(zip(callee_params, call.args))
    args.update({k.arg: k.value for k in call.keywords if k.arg})
    nodes = cfg.node_of(call)
    ctx.need(nodes, f'{qual}: select_inst_coll call not found in the CFG')
    for par, a in args.items():
        if _role(par) not in WANT3:
            continue
        cons = f'{FE}::{qual}::requested {_role(par)} reaches select_inst_coll as parsed'
        if not isinstance(a, ast.Name):
            rel = 'ge'
            parses = [x for x in ast.walk(a) if isinstance(x, ast.Call) and (pf.dotted(x.func) or '').startswith('parse_')]
            if parses:
                rel = _rel_to(a, pf.nsrc(parses[0]))
            ctx.need(rel in ('ge', 'lower'), f'{qual}: argument `{short(pf.nsrc(a), 50)}` for `{par}` is not classified')
            ctx.check(rel == 'ge', 'R2', cons, f'`{short(pf.nsrc(a), 80)}` passes a LOWERED request as `{par}`: the placement is sized for less {_role(par)} than the job asked for', m.path, call.lineno)
            continue
        nm = a.id
        seen: List[pf.Node] = []
        work = [nodes[0]]
        bad = None
        unknown = None
        while work and bad is None:
            tgt = work.pop()
            defs, _entry = _reaching(cfg, nm, tgt)
            for d in defs:
                if any(d is x for x in seen):
                    continue
                seen.append(d)
                v = _assigned_value(d, nm)
                if v is None:
                    unknown = unknown or d
                    continue
                if not _uses(v, [nm]):
                    # a base definition: parsed from the spec (or derived from the parsed cores); a lowering wrapped around the parse call counts
                    parses = [x for x in ast.walk(v) if isinstance(x, ast.Call) and (pf.dotted(x.func) or '').startswith('parse_')]
                    if parses and v is not parses[0]:
                        r0 = _rel_to(v, pf.nsrc(parses[0]))
                        if r0 == 'lower':
                            bad = d
                        elif r0 != 'ge':
                            unknown = unknown or d
                    continue
                rel = _rel_prev(v, nm)
                if rel == 'ge':
                    work.append(d)
                elif rel == 'lower':
                    bad = d
                else:
                    unknown = unknown or d
        if bad is not None:
            ctx.bad('R2', cons, f'`{short(bad.text(), 90)}` (line {bad.lineno}) LOWERS the requested {_role(par)} after it was parsed from the job spec and before it is handed to '
                    f'select_inst_coll as `{par}`: the placement is sized for the lowered figure, so the job is granted less {_role(par)} than it asked for (e.g. a request that is not a '
                    f'whole multiple of the coarser unit loses the remainder)', m.path, bad.lineno)
        elif unknown is not None:
            _DEFERRED.append(f'{qual}: `{short(unknown.text(), 60)}` re-defines the requested {_role(par)} in a way the analysis does not classify')
        else:
            ctx.ok('R2', cons, {'definitions': len(seen)})


def _check_front_end(ctx: Ctx, mi: pf.Module) -> None:
    m = pf.load(FE)
    sites = []
    for qual, fn in m.functions():
        for c in pf.calls_in(fn):
            if isinstance(c.func, ast.Attribute) and c.func.attr == 'select_inst_coll':
                sites.append((qual, fn, c))
    ctx.need(len(sites) >= 1, 'front end: no call of select_inst_coll')
    callee = mi.func('InstanceCollectionConfigs.select_inst_coll')
    facts = Facts()
    for qual, fn, c in sites:
        _check_call_names(ctx, m, qual, c, _params(callee)[1:], fn, 'InstanceCollectionConfigs.select_inst_coll', file=FE)
        cfg = pf.cfg(fn)
        _check_request_kept(ctx, m, fn, cfg, qual, c, _params(callee)[1:])
        # result variable
        asg = [n for n in cfg.nodes if n.kind == 'stmt' and isinstance(n.ast, ast.Assign) and any(x is c for x in ast.walk(n.ast.value))]
        ctx.need(len(asg) == 1 and isinstance(asg[0].ast.targets[0], ast.Tuple) and len(asg[0].ast.targets[0].elts) == 2  # type: ignore[union-attr]
                 and isinstance(asg[0].ast.targets[0].elts[0], ast.Name), f'{qual}: `result, exc = …select_inst_coll(…)` not recognised')  # type: ignore[union-attr]
        res = asg[0].ast.targets[0].elts[0].id  # type: ignore[union-attr]
        # every use of the placement is behind `result is not None`, and the None branch raises HTTPBadRequest
        uses = [n for n in cfg.nodes if n.kind == 'stmt' and isinstance(n.ast, ast.Assign) and isinstance(n.ast.value, ast.Name) and n.ast.value.id == res
                and isinstance(n.ast.targets[0], ast.Tuple)]
        ctx.need(uses, f'{qual}: the placement `{res}` is never unpacked')
        for u in uses:
            cons = f'{FE}::{qual}::{short(u.text(), 70)}'
            path = guards.unguarded_path(cfg, facts, asg, lambda n: n is u, lambda e, pol: guards.is_neq_fact(e, pol, res, 'None') or (pol and pf.nsrc(e) == res))
            ctx.check(path is None, 'R3', cons + '::guarded', f'the placement is unpacked without `{res} is not None` {guards.fmt_path(path)}: an unsatisfiable request '
                      'is a server error (500) instead of a rejection', m.path, u.lineno)
            roles = _roles(u.ast.targets[0].elts)  # type: ignore[union-attr]
            ctx.check(roles == WANT4, 'R4', cons + '::order', f'the placement (name, cores, memory, storage) is unpacked as {roles}', m.path, u.lineno)
            _check_kept(ctx, m, fn, qual, [e.id for e in u.ast.targets[0].elts if isinstance(e, ast.Name)], u.ast, FE)  # type: ignore[union-attr]
            # stored under the like-named resource key
            names = [e.id for e in u.ast.targets[0].elts if isinstance(e, ast.Name)]  # type: ignore[union-attr]
            for st in pf.walk_shallow(fn):
                if isinstance(st, ast.Assign) and len(st.targets) == 1 and isinstance(st.targets[0], ast.Subscript) and pf.nsrc(st.targets[0].value) == 'resources' \
                        and isinstance(st.value, ast.Name) and st.value.id in names and _role(st.value.id) in WANT3:
                    key = pf.const_str(st.targets[0].slice)
                    if key is None or _role(key) is None:
                        continue
                    ctx.check(_role(key) == _role(st.value.id), 'R4', f"{FE}::{qual}::resources['{key}']",
                              f"resources['{key}'] is set from `{st.value.id}`: the granted {_role(st.value.id)} is recorded as the job's {_role(key)}", m.path, st.lineno)
        # None -> 400
        tests = [n for n in cfg.nodes if n.kind == 'test' and isinstance(n.ast, ast.expr) and guards.eq_sides(n.ast) is not None
                 and {guards.eq_sides(n.ast)[0], guards.eq_sides(n.ast)[1]} == {res, 'None'}]  # type: ignore[index]
        ctx.need(tests, f'{qual}: no `{res} is None` test')
        for t in tests:
            lab = 'T' if guards.eq_sides(t.ast)[2] in (ast.Is, ast.Eq) else 'F'  # type: ignore[index]
            starts = [s for s, l in t.succ if l == lab]
            bad_exit = None
            for s in starts:
                if s.kind == 'raise':
                    continue
                bad_exit = cfg.path_avoiding(s, lambda n: n is cfg.exit or n in uses, lambda n: n.kind == 'raise')
            raises = [n for s in starts for n in ([s] if s.kind == 'raise' else [])]
            cons = f'{FE}::{qual}::{short(t.text(), 40)} -> 400'
            ok400 = all(isinstance(r.ast, ast.Raise) and r.ast.exc is not None and (pf.call_name(r.ast.exc) or pf.dotted(r.ast.exc) or '').endswith('HTTPBadRequest') for r in raises)
            ctx.check(bad_exit is None and bool(raises) and ok400, 'R3', cons,
                      'an unsatisfiable request (no placement) is not answered with web.HTTPBadRequest', m.path, t.lineno)


# --------------------------------------------------------------------------------------
# R5: monotone shapes
# --------------------------------------------------------------------------------------


def _ge_param(fn: pf.FuncDef, e: ast.AST, p: str, depth: int = 4) -> bool:
    """Syntactic proof that e >= p (p a parameter name)."""
    if depth <= 0:
        return False
    if isinstance(e, ast.Name):
        if e.id == p and len(pf.assignments(fn).get(p, [])) == 1:
            return True
        d = pf.single_def(fn, e.id)
        return isinstance(d, ast.expr) and not isinstance(d, ast.Name) and _ge_param(fn, d, p, depth - 1) or (isinstance(d, ast.Name) and _ge_param(fn, d, p, depth - 1))
    if isinstance(e, ast.Call) and pf.dotted(e.func) == 'max' and not e.keywords:
        return any(_ge_param(fn, a, p, depth - 1) for a in e.args)
    if isinstance(e, ast.Call) and pf.dotted(e.func) in ('math.ceil', 'ceil') and len(e.args) == 1:
        return _ge_param(fn, e.args[0], p, depth - 1)
    if isinstance(e, ast.Call) and pf.dotted(e.func) == 'min' and not e.keywords:
        return all(_ge_param(fn, a, p, depth - 1) for a in e.args)
    return False


def _flat(fn: pf.FuncDef, e: ast.AST) -> ast.AST:
    """e with the straight-line top-level assignments of fn substituted in program order (handles `x = f(x)` re-assignments, which have no
    single definition).  Functions with assignments under control flow are returned unchanged (single-definition resolution then applies)."""
    import copy
    if any(isinstance(s, (ast.If, ast.For, ast.While, ast.Try, ast.With)) for s in fn.body):
        return e
    env: Dict[str, ast.expr] = {}

    class Sub(ast.NodeTransformer):
        def visit_Name(self, node):
            return copy.deepcopy(env[node.id]) if isinstance(node.ctx, ast.Load) and node.id in env else node
    for st in fn.body:
        if isinstance(st, ast.Assign) and len(st.targets) == 1 and isinstance(st.targets[0], ast.Name):
            env[st.targets[0].id] = Sub().visit(copy.deepcopy(st.value))
        elif isinstance(st, ast.AnnAssign) and isinstance(st.target, ast.Name) and st.value is not None:
            env[st.target.id] = Sub().visit(copy.deepcopy(st.value))
    return Sub().visit(copy.deepcopy(e))


def _mentions(fn: pf.FuncDef, e: ast.AST, p: str, depth: int = 6) -> bool:
    """e depends on parameter p (through single-definition locals)."""
    if depth <= 0:
        return False
    for n in ast.walk(e):
        if isinstance(n, ast.Name):
            if n.id == p:
                return True
            d = pf.single_def(fn, n.id)
            if isinstance(d, ast.expr) and _mentions(fn, d, p, depth - 1):
                return True
    return False


def _ceil_div(e: ast.AST) -> Optional[Tuple[ast.AST, ast.AST]]:
    """(a, b) if e is an integer round-up division of a by b:  (a + b - 1) // b,  (a + (b - 1)) // b,  (a - 1) // b + 1,  -(-a // b)."""
    if isinstance(e, ast.UnaryOp) and isinstance(e.op, ast.USub) and isinstance(e.operand, ast.BinOp) and isinstance(e.operand.op, ast.FloorDiv):
        l = e.operand.left
        if isinstance(l, ast.UnaryOp) and isinstance(l.op, ast.USub):
            return l.operand, e.operand.right
    if isinstance(e, ast.BinOp) and isinstance(e.op, ast.FloorDiv):
        b = pf.nsrc(e.right)
        l = e.left
        if isinstance(l, ast.BinOp) and isinstance(l.op, ast.Sub) and isinstance(l.right, ast.Constant) and l.right.value == 1 and isinstance(l.left, ast.BinOp) \
                and isinstance(l.left.op, ast.Add) and pf.nsrc(l.left.right) == b:
            return l.left.left, e.right
        if isinstance(l, ast.BinOp) and isinstance(l.op, ast.Add) and isinstance(l.right, ast.BinOp) and isinstance(l.right.op, ast.Sub) \
                and pf.nsrc(l.right.left) == b and isinstance(l.right.right, ast.Constant) and l.right.right.value == 1:
            return l.left, e.right
    if isinstance(e, ast.BinOp) and isinstance(e.op, ast.Add) and isinstance(e.right, ast.Constant) and e.right.value == 1 and isinstance(e.left, ast.BinOp) \
            and isinstance(e.left.op, ast.FloorDiv) and isinstance(e.left.left, ast.BinOp) and isinstance(e.left.left.op, ast.Sub) \
            and isinstance(e.left.left.right, ast.Constant) and e.left.left.right.value == 1:
        return e.left.left.left, e.left.right
    return None


def _direction(fn: pf.FuncDef, e: ast.AST, p: str, depth: int = 8) -> str:
    """How e relates to the real-valued expression it approximates, as far as parameter p (>= 0) flows into it:
    'exact', 'up' (>=), 'down' (<=), 'mixed'.  Sub-expressions that do not depend on p are exact constants (assumed positive).
    Unknown operations on a p-dependent value raise AnalysisError (the rule declines)."""
    if depth <= 0:
        raise AnalysisError(f'direction analysis too deep at `{pf.nsrc(e)}`')
    if not _mentions(fn, e, p):
        return 'exact'
    if isinstance(e, ast.Name):
        if e.id == p:
            return 'exact'
        d = pf.single_def(fn, e.id)
        if not isinstance(d, ast.expr):
            raise AnalysisError(f'`{e.id}` has no single definition')
        return _direction(fn, d, p, depth - 1)

    def comb(a: str, b: str) -> str:
        if a == 'exact':
            return b
        if b == 'exact' or a == b:
            return a
        return 'mixed'

    def flip(a: str) -> str:
        return {'up': 'down', 'down': 'up'}.get(a, a)
    cd = _ceil_div(e)
    if cd is not None:
        a, b = cd
        if _mentions(fn, b, p):
            raise AnalysisError(f'divisor `{pf.nsrc(b)}` depends on {p}')
        return comb(_direction(fn, a, p, depth - 1), 'up')
    sd = _shift_div(e)
    if sd is not None and sd[2] == 'up':          # (a + 2**k - 1) >> k, (a + D - 1) // D with a literal D
        return comb(_direction(fn, sd[0], p, depth - 1), 'up')
    if isinstance(e, ast.Call):
        f = pf.dotted(e.func) or ''
        if f in ('math.ceil', 'ceil') and len(e.args) == 1:
            return comb(_direction(fn, e.args[0], p, depth - 1), 'up')
        if f == 'int' and len(e.args) == 1 and isinstance(e.args[0], ast.Name) and e.args[0].id == p:
            return 'exact'        # int() of the integer request itself
        if f in ('math.floor', 'floor', 'int', 'math.trunc') and len(e.args) == 1:
            return comb(_direction(fn, e.args[0], p, depth - 1), 'down')
        if f == 'round':
            return 'mixed'
        if f == 'max':
            ds = [_direction(fn, a, p, depth - 1) for a in e.args if _mentions(fn, a, p)]
            return 'up' if any(x in ('up', 'exact') for x in ds) and not all(x == 'exact' for x in ds) else (ds[0] if len(set(ds)) == 1 else 'mixed')
        if f == 'min':
            ds = {_direction(fn, a, p, depth - 1) for a in e.args if _mentions(fn, a, p)}
            return ds.pop() if len(ds) == 1 and len(e.args) == 1 else 'mixed'
        if f == 'float' and len(e.args) == 1:
            return _direction(fn, e.args[0], p, depth - 1)
        if f.split('.')[-1] == 'round_up_division' and len(e.args) == 2 and not _mentions(fn, e.args[1], p):
            return comb(_direction(fn, e.args[0], p, depth - 1), 'up')  # hailtop.utils.round_up_division(x, y) = (x + y - 1) // y
        raise AnalysisError(f'unrecognised call `{pf.nsrc(e)}` on a value derived from {p}')
    if isinstance(e, ast.BinOp):
        lm, rm = _mentions(fn, e.left, p), _mentions(fn, e.right, p)
        if isinstance(e.op, (ast.Add, ast.Mult)):
            return comb(_direction(fn, e.left, p, depth - 1), _direction(fn, e.right, p, depth - 1))
        if isinstance(e.op, ast.Sub):
            return comb(_direction(fn, e.left, p, depth - 1), flip(_direction(fn, e.right, p, depth - 1)))
        if isinstance(e.op, ast.Div):
            return comb(_direction(fn, e.left, p, depth - 1), flip(_direction(fn, e.right, p, depth - 1)))
        if isinstance(e.op, ast.FloorDiv):
            if rm:
                raise AnalysisError(f'divisor `{pf.nsrc(e.right)}` depends on {p}')
            return comb(_direction(fn, e.left, p, depth - 1), 'down')
        if isinstance(e.op, (ast.LShift, ast.RShift)) and not rm:
            return comb(_direction(fn, e.left, p, depth - 1), 'down' if isinstance(e.op, ast.RShift) else 'exact')
        raise AnalysisError(f'unrecognised operator in `{pf.nsrc(e)}`')
    if isinstance(e, ast.UnaryOp) and isinstance(e.op, ast.UAdd):
        return _direction(fn, e.operand, p, depth - 1)
    if isinstance(e, ast.IfExp) and not _mentions(fn, e.test, p):
        return comb(_direction(fn, e.body, p, depth - 1), _direction(fn, e.orelse, p, depth - 1))      # a case split on something else: the worse arm counts
    raise AnalysisError(f'unrecognised expression `{pf.nsrc(e)}` on a value derived from {p}')


def _scale(fn: pf.FuncDef, e: ast.AST, p: str, depth: int = 8) -> Optional[Fraction]:
    """The constant c such that e approximates c * p (roundings ignored); None if e is not such a scaling."""
    if depth <= 0:
        return None
    if isinstance(e, ast.Name):
        if e.id == p:
            return Fraction(1)
        d = pf.single_def(fn, e.id)
        return _scale(fn, d, p, depth - 1) if isinstance(d, ast.expr) else None

    def const(x: ast.AST) -> Optional[Fraction]:
        try:
            iv = absdom.eval_interval(x, {})
            return Fraction(iv.lo) if iv.lo == iv.hi else None
        except Exception:
            return None
    cd = _ceil_div(e)
    if cd is not None:
        a, b = _scale(fn, cd[0], p, depth - 1), const(cd[1])
        return a / b if a is not None and b else None
    if isinstance(e, ast.Call):
        f = pf.dotted(e.func) or ''
        if f in ('math.ceil', 'ceil', 'math.floor', 'floor', 'int', 'round', 'float', 'math.trunc') and len(e.args) >= 1:
            return _scale(fn, e.args[0], p, depth - 1)
        if f.split('.')[-1] == 'round_up_division' and len(e.args) == 2:
            a, b = _scale(fn, e.args[0], p, depth - 1), const(e.args[1])
            return a / b if a is not None and b else None
        return None
    if isinstance(e, ast.BinOp):
        if isinstance(e.op, ast.Mult):
            for x, y in ((e.left, e.right), (e.right, e.left)):
                k = const(y)
                if k is not None:
                    a = _scale(fn, x, p, depth - 1)
                    return a * k if a is not None else None
            return None
        if isinstance(e.op, (ast.Div, ast.FloorDiv)):
            a, k = _scale(fn, e.left, p, depth - 1), const(e.right)
            return a / k if a is not None and k else None
    return None


def _numer(fn: pf.FuncDef, e: ast.AST, p: str, depth: int = 8) -> bool:
    """p occurs in a numerator position of e (e grows with p)."""
    if depth <= 0:
        return False
    if isinstance(e, ast.Name):
        if e.id == p:
            return True
        d = pf.single_def(fn, e.id)
        return isinstance(d, ast.expr) and _numer(fn, d, p, depth - 1)
    cd = _ceil_div(e)
    if cd is not None:
        return _numer(fn, cd[0], p, depth - 1)
    if isinstance(e, ast.Call) and e.args:
        return any(_numer(fn, a, p, depth - 1) for a in e.args)
    if isinstance(e, ast.IfExp):
        return _numer(fn, e.body, p, depth - 1) and _numer(fn, e.orelse, p, depth - 1)
    if isinstance(e, ast.BinOp):
        if isinstance(e.op, (ast.Mult, ast.Add)):
            return _numer(fn, e.left, p, depth - 1) or _numer(fn, e.right, p, depth - 1)
        if isinstance(e.op, (ast.Div, ast.FloorDiv, ast.Sub, ast.RShift, ast.LShift)):
            return _numer(fn, e.left, p, depth - 1)
    return False


def _check_shapes(ctx: Ctx) -> None:
    for rel, cloud in ((FG, 'gcp'), (FA, 'azure')):
        m = pf.load(rel)
        # storage
        name = f'{cloud}_requested_to_actual_storage_bytes'
        fn = m.func(name)
        ps = _params(fn)
        ctx.need(ps and _role(ps[0]) == 'storage', f'{name}: parameters {ps}')
        rets = [n for n in pf.walk_shallow(fn) if isinstance(n, ast.Return)]
        n_val = 0
        for r in rets:
            if r.value is None or (isinstance(r.value, ast.Constant) and r.value.value is None):
                continue
            n_val += 1
            ctx.check(_ge_param(fn, r.value, ps[0]), 'R5', f'{rel}::{name}::return {short(pf.nsrc(r.value), 50)}',
                      f'`{short(pf.nsrc(r), 70)}` is not provably >= {ps[0]} (expected {ps[0]} or max(…, {ps[0]})): less storage than requested is granted', m.path, r.lineno)
        ctx.need(n_val >= 1, f'{name}: no value-bearing return')
    # bytes -> GiB rounds up
    m = pf.load(FU)
    fn = m.func('round_storage_bytes_to_gib')
    ps = _params(fn)
    rets = [n for n in pf.walk_shallow(fn) if isinstance(n, ast.Return)]
    ctx.need(len(rets) == 1 and rets[0].value is not None and len(ps) == 1, 'round_storage_bytes_to_gib: shape')
    cons = f'{FU}::round_storage_bytes_to_gib'
    rv0 = _flat(fn, rets[0].value)
    d = _direction(fn, rv0, ps[0])
    shown = short(pf.nsrc(rv0), 90)
    ctx.check(d in ('exact', 'up'), 'R5', cons + '::rounds up', f'bytes are converted to GiB by `{shown}`, which is {"rounded down" if d == "down" else "rounded in both directions"}: '
              'a request of 10.5Gi is granted 10 GiB', m.path, rets[0].lineno)
    sc = _scale(fn, rv0, ps[0])
    ctx.need(sc is not None, f'round_storage_bytes_to_gib: `{shown}` is not a scaling of {ps[0]} by a constant')
    ctx.check(sc == Fraction(1, 1024 ** 3), 'R5', cons + '::divides by 2**30', f'`{shown}` scales {ps[0]} by {sc}, not by 1/1024**3: the GiB granted do not cover the bytes requested',
              m.path, rets[0].lineno)
    # dispatcher uses the rounded actual bytes of the request
    fn = m.func('requested_storage_bytes_to_actual_storage_gib')
    ps = _params(fn)
    sto = [p for p in ps if _role(p) == 'storage' and not p.startswith('allow')]
    ctx.need(len(sto) == 1, f'requested_storage_bytes_to_actual_storage_gib: parameters {ps}')
    # closed form of every value-bearing return (engines/c12sym: the per-cloud function may be called in each arm, or selected in the arms and called once afterwards)
    name = 'requested_storage_bytes_to_actual_storage_gib'
    vals = [p_ for p_ in c12sym.exec_paths(fn) if p_.kind == 'return' and p_.value is not None and not (isinstance(p_.value, ast.Constant) and p_.value.value is None)]
    ctx.need(vals, f'{name}: no value-bearing return')
    seen_f: Set[str] = set()
    for pr in vals:
        v = pr.value
        ctx.need(isinstance(v, ast.Call) and pf.dotted(v.func) == 'round_storage_bytes_to_gib' and len(v.args) == 1 and not v.keywords,
                 f'{name}: on the path [{pr.conds()}] it returns `{short(pf.nsrc(v), 60)}`, not round_storage_bytes_to_gib(<actual bytes>) (not a recognised shape)')
        x = v.args[0]  # type: ignore[union-attr]
        ctx.need(isinstance(x, ast.Call) and (pf.dotted(x.func) or '').endswith('_requested_to_actual_storage_bytes'),
                 f'{name}: on the path [{pr.conds()}] the rounded quantity `{short(pf.nsrc(x), 60)}` is not <cloud>_requested_to_actual_storage_bytes(...) (not a recognised shape)')
        f = pf.dotted(x.func)  # type: ignore[union-attr]
        if f in seen_f:
            continue
        seen_f.add(f)  # type: ignore[arg-type]
        ctx.check(bool(x.args) and pf.nsrc(x.args[0]) == sto[0], 'R5', f'{FU}::{name}::{f}',  # type: ignore[union-attr]
                  f'`{short(pf.nsrc(x), 70)}` is not applied to {sto[0]}: the storage granted is sized for another quantity than the request', m.path, pr.lineno)
    # (that each cloud's path uses that cloud's conversion is R6)
    ctx.ok('R5', f'{FU}::{name}::return', 'round_storage_bytes_to_gib(<actual bytes of the request>) on every path')


# --------------------------------------------------------------------------------------
# R6: cloud dispatch agreement
# --------------------------------------------------------------------------------------


def _cloud_idents(stmts: Sequence[ast.stmt]) -> List[Tuple[str, str, int]]:
    out = []
    for st in stmts:
        if isinstance(st, ast.Assert):
            continue
        for n in ast.walk(st):
            name = None
            if isinstance(n, ast.Name):
                name = n.id
            elif isinstance(n, ast.Attribute):
                name = n.attr
            if name is None:
                continue
            low = name.lower()
            for c in CLOUDS:
                if low.startswith(c + '_') or low.startswith(c) and name[:len(c)].lower() == c and len(name) > len(c) and name[len(c)].isupper():
                    out.append((c, name, n.lineno))
    return out


def _check_dispatch_agreement(ctx: Ctx, rels: Sequence[str]) -> None:
    n_regions = 0
    for rel in rels:
        m = pf.load(rel)
        for qual, fn in m.functions():
            if rel == FE and qual != '_create_jobs':
                continue

            def visit(stmts: Sequence[ast.stmt]):
                nonlocal n_regions
                for i, st in enumerate(stmts):
                    if isinstance(st, ast.If):
                        # a boolean local holding the test (`is_gcp = cloud == 'gcp'`) is followed to its definition
                        c = _cloud_of_test(pf.resolve_expr(fn, st.test) if isinstance(st.test, ast.Name) else st.test)
                        if c is not None:
                            regions: List[Tuple[str, Sequence[ast.stmt]]] = [(c, st.body)]
                            if st.orelse:
                                oc = _cloud_of_test(st.orelse[0].test) if isinstance(st.orelse[0], ast.Assert) else None
                                if oc is None and not (len(st.orelse) == 1 and isinstance(st.orelse[0], ast.If)):
                                    oc = [x for x in CLOUDS if x != c][0]
                                if oc is not None:
                                    regions.append((oc, st.orelse))
                            else:
                                # `if cloud == X: return …` followed by `assert cloud == Y`
                                term = st.body and isinstance(st.body[-1], (ast.Return, ast.Raise))
                                rest = stmts[i + 1:]
                                if term and rest and isinstance(rest[0], ast.Assert) and _cloud_of_test(rest[0].test):
                                    regions.append((_cloud_of_test(rest[0].test), rest))  # type: ignore[arg-type]
                            for cloud, body in regions:
                                n_regions += 1
                                foreign = [(cc, name, ln) for cc, name, ln in _cloud_idents(body) if cc != cloud]
                                # nested dispatch inside the region is judged on its own
                                cons = f'{rel}::{qual}::{cloud} branch of `{short(pf.nsrc(st.test), 40)}`'
                                ctx.check(not foreign, 'R6', cons,
                                          (f'`{foreign[0][1]}` (a {foreign[0][0]} helper, line {foreign[0][2]}) is used where the cloud is {cloud}: requests on {cloud} are '
                                           f'sized / validated with {foreign[0][0]} tables') if foreign else '', m.path, st.lineno)
                    for fld in ('body', 'orelse', 'finalbody'):
                        sub = getattr(st, fld, None)
                        if isinstance(sub, list) and sub and isinstance(sub[0], ast.stmt) and not isinstance(st, (ast.FunctionDef, ast.AsyncFunctionDef, ast.ClassDef)):
                            visit(sub)
                    for h in getattr(st, 'handlers', []) or []:
                        visit(h.body)
            visit(fn.body)
    ctx.unit('cloud_dispatch_regions', n_regions)


def _check_memo(ctx: Ctx, mi: pf.Module) -> None:
    """R7: the selection must be made against the configs in force.  If select_inst_coll memoises its answers (`k in self.X` /
    `self.X[k] = result`), the key must cover every parameter and the memo must be emptied *after* the configs are replaced, with no
    suspension point in between; emptying it before an `await` lets a request handled during the await re-fill it from the old configs."""
    cls = mi.cls('InstanceCollectionConfigs')
    fn = mi.func('InstanceCollectionConfigs.select_inst_coll')
    memo = None
    for n in ast.walk(fn):
        if isinstance(n, ast.Compare) and len(n.ops) == 1 and isinstance(n.ops[0], ast.In) and isinstance(n.comparators[0], ast.Attribute) and pf.nsrc(n.comparators[0]).startswith('self.'):
            attr = pf.nsrc(n.comparators[0])
            writes = [a for a in ast.walk(fn) if isinstance(a, ast.Assign) and isinstance(a.targets[0], ast.Subscript) and pf.nsrc(a.targets[0].value) == attr]
            if writes:
                memo = (attr, n.left, n)
    if memo is None:
        ctx.ok('R7', f'{FI}::InstanceCollectionConfigs.select_inst_coll::not memoised', nontrivial=False)
        return
    attr, key, node = memo
    cons = f'{FI}::InstanceCollectionConfigs.select_inst_coll::memo {attr}'
    key = pf.resolve_expr(fn, key)
    parts = {pf.nsrc(x) for x in (key.elts if isinstance(key, ast.Tuple) else [key])}
    params = [a.arg for a in fn.args.args + fn.args.kwonlyargs if a.arg != 'self']
    missing = [p_ for p_ in params if p_ not in parts]
    ctx.check(not missing, 'R7', cons + '::key', f'memoised selections are keyed by {sorted(parts)} but the selection also depends on {missing}: requests differing only there get each other\'s placement',
              mi.path, node.lineno)
    # config attributes the selection reads
    cfg_attrs = {'self.name_pool_config', 'self.jpim_config', 'self.resource_rates', 'self.product_versions'}
    for q, f2 in mi.functions():
        if not q.startswith('InstanceCollectionConfigs.') or f2.name in ('__init__', 'select_inst_coll'):
            continue
        g = pf.cfg(f2)
        assigns = g.find(lambda n_: n_.kind == 'stmt' and isinstance(n_.ast, ast.Assign) and any(pf.nsrc(x) in cfg_attrs for t in n_.ast.targets for x in ast.walk(t)))
        if not assigns:
            continue
        clears = g.find(lambda n_: any(pf.dotted(c.func) == f'{attr}.clear' for c in pf.node_calls(n_)) or (isinstance(n_.ast, ast.Assign) and pf.nsrc(n_.ast.targets[0]) == attr))
        ok = bool(clears)
        why = 'the memo is never emptied when the configs are replaced'
        if ok:
            # some clear must come after every config assignment without an await in between
            for a in assigns:
                later = [c for c in clears if g.path_avoiding(a, lambda x, c=c: x is c, lambda x: pf.node_has_await(x)) is not None or a is c]
                if not later:
                    ok = False
                    why = (f'`{pf.nsrc(a.ast)[:50]}` is not followed by emptying {attr} before the next suspension point; the only clear happens earlier, so a selection computed '
                           'while the new configs were being loaded (during the await) is cached from the OLD configs and survives the refresh')
        ctx.check(ok, 'R7', f'{FI}::{q}::invalidates {attr}', f'{why}: later identical requests are placed (or rejected) according to pool configurations that are no longer in force',
                  mi.path, f2.lineno)
    raise AnalysisError('select_inst_coll is memoised: the dispatch table rules are not evaluated on the memoised shape')


# --------------------------------------------------------------------------------------
# R8: the configuration the selectors read is replaced atomically
# --------------------------------------------------------------------------------------

_EMPTY_CALLS = ('dict', 'list', 'set', 'OrderedDict', 'collections.OrderedDict', 'defaultdict', 'collections.defaultdict')
_FILL_METHODS = ('update', 'setdefault', 'append', 'extend', 'add', 'insert')


def _is_empty_container(e: ast.AST) -> bool:
    if isinstance(e, ast.Dict):
        return not e.keys
    if isinstance(e, (ast.List, ast.Set, ast.Tuple)):
        return not e.elts
    return isinstance(e, ast.Call) and pf.dotted(e.func) in _EMPTY_CALLS and not e.keywords and (not e.args or (pf.dotted(e.func) or '').endswith('defaultdict') and len(e.args) == 1
                                                                                                   and not isinstance(e.args[0], (ast.Dict, ast.List)))


class _AtomicScan:
    """Typestate of the live configuration containers of one class (the objects bound to self.<attr>, read synchronously by the selectors) along the CFG of
    every function that can touch them: `emptied` begins at X.clear() on a (may-)alias of a live container, or when an empty container is published in
    self.<attr>; it ends at a bulk refill (X.update(...), a synchronous loop storing into X, publishing another object).  A suspension point reachable
    while `emptied` lets the event loop run a request handler that selects against an empty / partly filled configuration."""

    def __init__(self, m: pf.Module, cls_name: str, live: Set[str]):
        self.m, self.cls_name, self.live = m, cls_name, live
        self.cls = m.cls(cls_name)
        self.methods = {f.name: f for f in self.cls.body if isinstance(f, (ast.FunctionDef, ast.AsyncFunctionDef))}
        self.memo: Dict[Tuple[str, Tuple[str, ...], bool], Tuple[List[dict], bool]] = {}
        self.stack: List[Tuple[str, Tuple[str, ...], bool]] = []

    def callee(self, c: ast.Call, self_live: bool) -> Optional[Tuple[str, pf.FuncDef, bool]]:
        """(qualified name, function, receives self) of a call that stays inside the module"""
        f = c.func
        if isinstance(f, ast.Attribute) and isinstance(f.value, ast.Name) and f.value.id in ('self', 'cls', self.cls_name) and f.attr in self.methods:
            fn = self.methods[f.attr]
            static = any(pf.dotted(d) == 'staticmethod' for d in fn.decorator_list)
            klass = any(pf.dotted(d) == 'classmethod' for d in fn.decorator_list)
            return f'{self.cls_name}.{f.attr}', fn, (not static and not klass and f.value.id == 'self' and self_live)
        if isinstance(f, ast.Name):
            for st in self.m.tree.body:
                if isinstance(st, (ast.FunctionDef, ast.AsyncFunctionDef)) and st.name == f.id:
                    return f.id, st, False
        return None

    def scan(self, qual: str, fn: pf.FuncDef, ent: Tuple[str, ...], self_live: bool) -> Tuple[List[dict], bool]:
        """(violations found in fn and its callees, fn may return with a live container still emptied)"""
        key = (qual, ent, self_live)
        if key in self.memo:
            return self.memo[key]
        if key in self.stack or len(self.stack) > 4:
            return [], False
        self.stack.append(key)
        try:
            res = self._scan(qual, fn, ent, self_live)
        finally:
            self.stack.pop()
        self.memo[key] = res
        return res

    def _scan(self, qual: str, fn: pf.FuncDef, ent: Tuple[str, ...], self_live: bool) -> Tuple[List[dict], bool]:
        cfg = pf.cfg(fn)
        static = any(pf.dotted(d) in ('staticmethod', 'classmethod') for d in fn.decorator_list)
        params = [a.arg for a in list(fn.args.posonlyargs) + list(fn.args.args) + list(fn.args.kwonlyargs)]
        publishes: List[Tuple[pf.Node, str, ast.AST]] = []     # (node, attr, value) of `self.attr = value`
        if self_live:
            for n in cfg.nodes:
                if n.kind == 'stmt' and isinstance(n.ast, (ast.Assign, ast.AnnAssign)) and getattr(n.ast, 'value', None) is not None:
                    tgs = n.ast.targets if isinstance(n.ast, ast.Assign) else [n.ast.target]
                    for t in tgs:
                        if isinstance(t, ast.Attribute) and isinstance(t.value, ast.Name) and t.value.id == 'self' and t.attr in self.live:
                            publishes.append((n, t.attr, n.ast.value))
                        elif isinstance(t, (ast.Tuple, ast.List)):
                            for i, el in enumerate(t.elts):
                                if isinstance(el, ast.Attribute) and isinstance(el.value, ast.Name) and el.value.id == 'self' and el.attr in self.live:
                                    v = n.ast.value
                                    publishes.append((n, el.attr, v.elts[i] if isinstance(v, (ast.Tuple, ast.List)) and len(v.elts) == len(t.elts) else v))

        def live_expr(e: ast.AST, at: pf.Node, depth: int = 3) -> Optional[str]:
            """what live container `e` may denote at CFG node `at` (None: none)"""
            if self_live and isinstance(e, ast.Attribute) and isinstance(e.value, ast.Name) and e.value.id == 'self' and e.attr in self.live:
                return f'self.{e.attr}'
            if isinstance(e, ast.Name) and depth > 0:
                defs, entry = _reaching(cfg, e.id, at)
                if entry and e.id in ent:
                    return f'parameter `{e.id}` (bound to a live container by the caller)'
                for d in defs:
                    v = _assigned_value(d, e.id)
                    if v is not None and d is not at:
                        r = live_expr(v, d, depth - 1)
                        if r is not None:
                            return r
                # published earlier: `self.attr = e` reaches here without e being re-bound
                redefs = guards.def_nodes(cfg, e.id)
                for pn, attr, v in publishes:
                    if isinstance(v, ast.Name) and v.id == e.id and (pn is at or cfg.path_avoiding(pn, lambda x: x is at, lambda x: any(x is r for r in redefs)) is not None):
                        return f'self.{attr} (published as `{e.id}`)'
            return None

        def fills(n: pf.Node) -> bool:
            """n completes / refills a live container in one synchronous step"""
            if n.ast is None:
                return False
            for c in pf.node_calls(n):
                if isinstance(c.func, ast.Attribute) and c.func.attr == 'update' and live_expr(c.func.value, n) is not None:
                    return True
            if n.kind == 'stmt' and isinstance(n.ast, ast.AugAssign) and isinstance(n.ast.op, ast.BitOr) and live_expr(n.ast.target, n) is not None:
                return True
            if n.kind == 'loop' and isinstance(n.ast, ast.For):
                for x in ast.walk(n.ast):
                    if isinstance(x, ast.Subscript) and isinstance(x.ctx, ast.Store) and live_expr(x.value, n) is not None:
                        return True
                    if isinstance(x, ast.Call) and isinstance(x.func, ast.Attribute) and x.func.attr in _FILL_METHODS and live_expr(x.func.value, n) is not None:
                        return True
            for pn, attr, v in publishes:
                if pn is n and not self._publishes_empty(cfg, n, v):
                    return True
            return False

        events: List[Tuple[pf.Node, str]] = []
        viol: List[dict] = []
        for n in cfg.nodes:
            if n.ast is None:
                continue
            for c in pf.node_calls(n):
                if isinstance(c.func, ast.Attribute) and c.func.attr == 'clear' and not c.args:
                    what = live_expr(c.func.value, n)
                    if what is not None:
                        events.append((n, f'`{pf.nsrc(c)}` empties {what}'))
                tgt = self.callee(c, self_live)
                if tgt is not None:
                    cq, cfn, recv_self = tgt
                    cps = [a.arg for a in list(cfn.args.posonlyargs) + list(cfn.args.args)]
                    if cps and cps[0] in ('self', 'cls') and not any(pf.dotted(d) == 'staticmethod' for d in cfn.decorator_list):
                        cps = cps[1:]
                    bound = [cps[i] for i, a in enumerate(c.args) if i < len(cps) and not isinstance(a, ast.Starred) and live_expr(a, n) is not None]
                    bound += [k.arg for k in c.keywords if k.arg is not None and live_expr(k.value, n) is not None]
                    if bound or recv_self:
                        v2, leaves = self.scan(cq, cfn, tuple(sorted(bound)), recv_self)
                        viol += v2
                        if leaves:
                            events.append((n, f'`{short(pf.nsrc(c), 60)}` returns with a live container emptied'))
            for pn, attr, v in publishes:
                if pn is n and self._publishes_empty(cfg, n, v):
                    events.append((n, f'`{short(n.text(), 60)}` publishes an empty container as self.{attr}'))
            if n.kind == 'loop' and isinstance(n.ast, ast.For):
                # `for k in list(X): del X[k]` (unconditional removal of every key) empties X like X.clear()
                for st in n.ast.body:
                    tgt = None
                    if isinstance(st, ast.Delete) and len(st.targets) == 1 and isinstance(st.targets[0], ast.Subscript):
                        tgt = st.targets[0].value
                    elif isinstance(st, ast.Expr) and isinstance(st.value, ast.Call) and isinstance(st.value.func, ast.Attribute) and st.value.func.attr in ('pop', 'popitem'):
                        tgt = st.value.func.value
                    what = live_expr(tgt, n) if tgt is not None else None
                    if what is not None and pf.nsrc(tgt) in pf.nsrc(n.ast.iter):
                        events.append((n, f'the loop `for {pf.nsrc(n.ast.target)} in {short(pf.nsrc(n.ast.iter), 40)}` removes every entry of {what}'))
        leaves_empty = False
        for e_node, what in events:
            p = cfg.path_avoiding(e_node, lambda x: x is not e_node and pf.node_has_await(x), fills)
            if p is not None:
                s_node = p[-1]
                viol.append(dict(qual=qual, line=e_node.lineno, stmt=short(e_node.text(), 70), what=what, susp=short(s_node.text(), 60), susp_line=s_node.lineno,
                                 via=guards.fmt_path(p)))
            if cfg.path_avoiding(e_node, lambda x: x is cfg.exit, fills) is not None:
                leaves_empty = True
        del static, params
        return viol, leaves_empty

    @staticmethod
    def _publishes_empty(cfg: pf.CFG, n: pf.Node, v: ast.AST) -> bool:
        """the value stored in self.<attr> at n is a container that is still empty: an empty literal, or a local whose only reaching definition is one and that
        no statement has filled on the way"""
        if _is_empty_container(v):
            return True
        if isinstance(v, ast.Name):
            defs, entry = _reaching(cfg, v.id, n)
            if entry or len(defs) != 1:
                return False
            dv = _assigned_value(defs[0], v.id)
            if dv is None or not _is_empty_container(dv):
                return False

            def stores(x: pf.Node) -> bool:
                if x.ast is None:
                    return False
                for y in pf.node_exprs(x):
                    for z in ast.walk(y):
                        if isinstance(z, ast.Subscript) and isinstance(z.ctx, ast.Store) and isinstance(z.value, ast.Name) and z.value.id == v.id:
                            return True
                        if isinstance(z, ast.Call) and isinstance(z.func, ast.Attribute) and z.func.attr in _FILL_METHODS and isinstance(z.func.value, ast.Name) and z.func.value.id == v.id:
                            return True
                return False
            # filled before being published?  (some store lies on a path definition -> publication)
            for x in cfg.nodes:
                if stores(x) and cfg.path_avoiding(defs[0], lambda y: y is x, lambda y: False) is not None and cfg.path_avoiding(x, lambda y: y is n, lambda y: False) is not None:
                    return False
            return True
        return False


_R8_CONTROL = '''
class InstanceCollectionConfigs:
    def __init__(self, name_pool_config):
        self.name_pool_config = name_pool_config

    def select(self):
        for pool in self.name_pool_config.values():
            pass

    @staticmethod
    async def load(db, into):
        into.clear()
        async for r in db.rows():
            into[r.name] = r

    async def refresh(self, db):
        await InstanceCollectionConfigs.load(db, self.name_pool_config)
'''


def _live_config_attrs(m: pf.Module, cls_name: str) -> Set[str]:
    """attributes of the class that __init__ fills from its parameters and that a select* method reads"""
    cls = m.cls(cls_name)
    meths = {f.name: f for f in cls.body if isinstance(f, (ast.FunctionDef, ast.AsyncFunctionDef))}
    init = meths.get('__init__')
    if init is None:
        return set()
    ps = set(_params(init)[1:])
    attrs = set()
    for st in pf.walk_shallow(init):
        if isinstance(st, (ast.Assign, ast.AnnAssign)) and getattr(st, 'value', None) is not None:
            for t in (st.targets if isinstance(st, ast.Assign) else [st.target]):
                if isinstance(t, ast.Attribute) and isinstance(t.value, ast.Name) and t.value.id == 'self' and pf.names_in(st.value) & ps:
                    attrs.add(t.attr)
    read = {n.attr for name, f in meths.items() if name.startswith('select') for n in ast.walk(f)
            if isinstance(n, ast.Attribute) and isinstance(n.value, ast.Name) and n.value.id == 'self' and isinstance(n.ctx, ast.Load)}
    # helpers of the selectors (generators, filters) count as well
    for name, f in meths.items():
        if any(isinstance(c.func, ast.Attribute) and c.func.attr == name for s, g in meths.items() if s.startswith('select') for c in pf.calls_in(g)):
            read |= {n.attr for n in ast.walk(f) if isinstance(n, ast.Attribute) and isinstance(n.value, ast.Name) and n.value.id == 'self' and isinstance(n.ctx, ast.Load)}
    return attrs & read


def _check_atomic_refresh(ctx: Ctx, mi: pf.Module) -> None:
    """R8: select_inst_coll runs synchronously inside request handlers while refresh() runs as a background task, so whatever refresh (and the loaders it
    hands self.<config> to) does to the live containers must be complete before its next suspension point."""
    # positive control: the detector recognises the emptied-then-suspended shape on a synthetic class
    ctl = pf.Module('<control>', '<control>', _R8_CONTROL, ast.parse(_R8_CONTROL))
    sc = _AtomicScan(ctl, 'InstanceCollectionConfigs', _live_config_attrs(ctl, 'InstanceCollectionConfigs'))
    v, _ = sc.scan('InstanceCollectionConfigs.refresh', sc.methods['refresh'], (), True)
    ctx.need(len(v) == 1 and 'clear' in v[0]['what'], 'R8 positive control: the emptied-before-suspension detector does not recognise its own control snippet')
    ctx.ok('R8', 'control::live container emptied before a suspension point is recognised', nontrivial=False)
    cls_name = 'InstanceCollectionConfigs'
    live = _live_config_attrs(mi, cls_name)
    ctx.need('name_pool_config' in live, f'{cls_name}: the selectors do not read self.name_pool_config set by __init__ (anchor changed); found {sorted(live)}')
    scan = _AtomicScan(mi, cls_name, live)
    seen: Set[Tuple[str, int]] = set()

    def self_live_attr(e: ast.AST) -> bool:
        return isinstance(e, ast.Attribute) and isinstance(e.value, ast.Name) and e.value.id == 'self' and e.attr in live
    for name, fn in scan.methods.items():
        if name == '__init__' or any(pf.dotted(d) in ('staticmethod', 'classmethod') for d in fn.decorator_list):
            continue
        qual = f'{cls_name}.{name}'
        viol, _ = scan.scan(qual, fn, (), True)
        for x in viol:
            if (x['qual'], x['line']) in seen:
                continue
            seen.add((x['qual'], x['line']))
            ctx.bad('R8', f"{FI}::{x['qual']}::{x['stmt']}", f"{x['what']} (reached from {qual}) and the function suspends at `{x['susp']}` (line {x['susp_line']}) before the container is "
                    f"refilled {x['via']}: the event loop can run a job submission in that window, whose synchronous select_inst_coll iterates an empty / partly filled configuration - "
                    f"the request is rejected as unsatisfiable (or sent to a dearer pool) although a configured pool satisfies it. Build the new container privately and publish it with one "
                    f"assignment (or clear + update without a suspension point in between)", mi.path, x['line'])
        # an instance of the rule: a method that replaces / hands out / updates a live container
        relevant = any(self_live_attr(n) and isinstance(n.ctx, ast.Store) for n in ast.walk(fn)) \
            or any(isinstance(c.func, ast.Attribute) and self_live_attr(c.func.value) and c.func.attr in ('clear', 'update', 'pop', 'popitem', 'setdefault') for c in pf.calls_in(fn)) \
            or any(scan.callee(c, True) is not None and any(self_live_attr(a) for a in list(c.args) + [k.value for k in c.keywords]) for c in pf.calls_in(fn))
        if relevant and not viol:
            ctx.ok('R8', f'{FI}::{qual}::live configuration is replaced atomically', {'live': sorted(live)})
    # code outside the class that reaches into the live containers (obj.name_pool_config.clear() ... await): the front end always, the whole service in the thorough tier
    if True:
        n_ext = 0
        for rel in (pf.walk_py(['batch/batch']) if ctx.tier == 'thorough' else [FE]):
            if rel == FI:
                continue
            try:
                mx = pf.load(rel)
            except AnalysisError:
                continue
            if not any(a in mx.src for a in live):
                continue
            for q, f2 in mx.functions():
                hits = [c for c in pf.calls_in(f2) if isinstance(c.func, ast.Attribute) and c.func.attr == 'clear' and isinstance(c.func.value, ast.Attribute) and c.func.value.attr in live
                        and c.func.value.attr in ('name_pool_config', 'jpim_config', 'resource_rates')]
                if not hits:
                    continue
                n_ext += 1
                g = pf.cfg(f2)
                for c in hits:
                    for e_node in g.node_of(c):
                        pth = g.path_avoiding(e_node, lambda x: x is not e_node and pf.node_has_await(x),
                                              lambda x: any(isinstance(k.func, ast.Attribute) and k.func.attr == 'update' for k in pf.node_calls(x)))
                        ctx.check(pth is None, 'R8', f'{rel}::{q}::{short(pf.nsrc(c), 60)}', f'`{pf.nsrc(c)}` empties a live configuration container and the function suspends before refilling it '
                                  f'{guards.fmt_path(pth)}: a submission handled meanwhile selects against an empty configuration', mx.path, c.lineno)
        ctx.unit('external_config_mutators', n_ext)


def run(ctx: Ctx) -> None:
    ctx.explanation = ('Per pool-selection method: CFG must-pass-through (with branch polarity) of the cloud/preemptible/label/worker-type filters before a pool is used; '
                       'fits-one-worker guard and storage provenance of every returned placement; truth table of select_inst_coll; like-named argument plumbing and '
                       'tuple role order along front end -> select_inst_coll -> selector -> convert; max/ceil shape typing of the granted>=requested helpers; per-cloud dispatch agreement.')
    ctx.rule('R1', 'pool selectors use a pool only after pool.cloud/preemptible/label (and worker_type) equal the request; job-private checks the cloud', 8)
    ctx.rule('R2', 'every pool placement is guarded by cores_mcpu <= worker_cores*1000, has storage from the request (not None), memory raises cores before memory is derived; no later definition lowers the granted cores / memory / storage (pool, job-private, selectors, front end)', 20)
    ctx.rule('R3', 'rejection only after all pools; select_inst_coll dispatch table; front end maps None to HTTP 400 before use', 11)
    ctx.rule('R4', 'placement tuples are (name, cores, memory, storage) at every writer/reader; arguments go to like-named parameters along the chain', 17)
    ctx.rule('R5', 'granted >= requested: cores = max(cores, minimum for the memory request); the request -> core minimum computation (helpers seen through) never rounds down and its units '
             'cancel against cores -> memory; storage returns >= request, bytes->GiB rounds up', 13)
    ctx.rule('R6', 'in every cloud == X branch only X helpers are used (anchored modules)', 26)
    ctx.rule('R7', 'selection is computed against the configs in force: no memo, or a memo keyed by all parameters and emptied atomically after the configs are replaced', 1)
    ctx.rule('R8', 'the live configuration containers the selectors read (self.name_pool_config ...) are never emptied / published empty with a suspension point before they are '
             'complete again (refresh and the loaders it passes them to)', 2)
    ctx.assume('float arithmetic in adjust_cores_for_packability / cores<->memory conversions is not decided (numeric clause)')
    ctx.assume("the job validator admits no 'cloud' key, so the job's cloud equals the deployment CLOUD")
    mi = pf.load(FI)
    ctx.unit('files', 5)
    del _DEFERRED[:]
    _ADJUST_SEEN.clear()
    _check_memo(ctx, mi)
    _check_atomic_refresh(ctx, mi)
    facts = Facts()
    selectors = _check_selectors(ctx, mi, facts)
    _check_convert(ctx, mi, facts)
    _check_dispatch(ctx, mi, selectors)
    _check_front_end(ctx, mi)
    _check_shapes(ctx)
    _check_dispatch_agreement(ctx, [FI, FU, 'batch/batch/cloud/utils.py', FE])
    if _DEFERRED:
        raise AnalysisError('; '.join(dict.fromkeys(_DEFERRED)))
