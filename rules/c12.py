"""C12 Resource requests are never under-provisioned (selection structure).

Decides (from the syntax trees, nothing is run):
  R1  sibling filter agreement: every pool-selection method of InstanceCollectionConfigs that iterates `name_pool_config`
      reaches `pool.convert_requests_to_resources` only through branch edges that guarantee pool.cloud == cloud,
      pool.preemptible == preemptible, pool.label == pool_label (and pool.worker_type == worker_type when the method takes one);
      select_job_private rejects a foreign cloud
  R2  PoolConfig.convert_requests_to_resources: every placement it returns is guarded by `cores_mcpu <= self.worker_cores * 1000`
      on the returned core count, its storage is `requested_storage_bytes_to_actual_storage_gib(self.cloud, storage_bytes, …)` and
      not None, and in each cloud branch the memory request raises the core count *before* the granted memory is derived from it
  R3  a request is rejected only after all pools were considered (no `return None` / break inside the pool loops),
      `select_inst_coll` dispatches the four (worker_type, machine_type) cases to the right selector (truth table),
      and the front end turns `None` into HTTP 400 before using the placement
  R4  positional / keyword plumbing: placements are written and read as (name, cores, memory, storage) everywhere; arguments are
      passed to the like-named parameter at every call in the chain front end -> select_inst_coll -> selector -> convert
  R5  granted >= requested *shapes*: <cloud>_adjust_cores_for_memory_request returns max(cores, ceil(…memory…)); every non-None
      return of <cloud>_requested_to_actual_storage_bytes is >= the request; bytes -> GiB rounds up (math.ceil)
  R6  cloud dispatch agreement: in every `cloud == 'gcp'|'azure'` branch of the anchored modules only that cloud's helpers are used
Does not decide: the rounding arithmetic itself (floats, log2), the per-core memory tables.
"""
from __future__ import annotations

import ast
from fractions import Fraction
from typing import Dict, List, Optional, Sequence, Tuple

from engines import absdom, guards, inline, pyfacts as pf
from engines.common import AnalysisError, Ctx, short
from engines.guards import Facts

META = dict(
    category='other',
    text='CFG must-pass-through with branch polarity for the pool filters and the fits-one-worker guard, a truth table of select_inst_coll, '
         'def-use plumbing checks (like-named argument/parameter, tuple role order) across the selection chain, and shape typing of the '
         'monotone helpers (max / ceil).  Level `other`: the numeric clause (granted >= requested under float rounding) is not decided.',
    note='Trusted: CPython ast; engines/pyfacts CFG; engines/guards. Not decided: float rounding in adjust_cores_for_packability and the cores<->memory conversions; '
         'contents of the machine-type tables.',
    technique='static analysis: CFG dominance with edge polarity + sibling agreement + truth table + def-use plumbing',
    design_ref='DESIGN.md §3 C12',
)

FI = 'batch/batch/inst_coll_config.py'
FU = 'batch/batch/cloud/resource_utils.py'
FG = 'batch/batch/cloud/gcp/resource_utils.py'
FA = 'batch/batch/cloud/azure/resource_utils.py'
FE = 'batch/batch/front_end/front_end.py'
CLOUDS = ('gcp', 'azure')


def _params(fn: pf.FuncDef) -> List[str]:
    return [a.arg for a in list(fn.args.posonlyargs) + list(fn.args.args)]


def _role(name: str) -> Optional[str]:
    n = name.lower()
    for r in ('cores', 'memory', 'storage'):
        if r in n or (r == 'cores' and 'cpu' in n):
            return r
    if 'name' in n:
        return 'name'
    return None


def _roles(elts: Sequence[ast.expr]) -> List[Optional[str]]:
    return [_role(pf.nsrc(e)) for e in elts]


WANT4 = ['name', 'cores', 'memory', 'storage']
WANT3 = ['cores', 'memory', 'storage']


# --------------------------------------------------------------------------------------
# R1 / R3a: pool loops
# --------------------------------------------------------------------------------------


def _pool_loops(fn: pf.FuncDef) -> List[ast.For]:
    out = []
    for n in pf.walk_shallow(fn):
        if isinstance(n, ast.For) and 'name_pool_config' in pf.nsrc(n.iter) and isinstance(n.target, ast.Name):
            out.append(n)
    return out


def _check_selectors(ctx: Ctx, m: pf.Module, facts: Facts) -> Dict[str, pf.FuncDef]:
    cls = m.cls('InstanceCollectionConfigs')
    selectors: Dict[str, pf.FuncDef] = {}
    conv = m.func('PoolConfig.convert_requests_to_resources')
    conv_params = _params(conv)[1:]
    # methods that place a request themselves are never inlined into their callers (the dispatcher is judged by R3's dispatch table)
    own_selectors = tuple(f.name for f in cls.body if isinstance(f, (ast.FunctionDef, ast.AsyncFunctionDef))
                          and any(isinstance(c.func, ast.Attribute) and c.func.attr == 'convert_requests_to_resources' for c in pf.calls_in(f)))
    for st0 in cls.body:
        if not isinstance(st0, (ast.FunctionDef, ast.AsyncFunctionDef)):
            continue
        if any(isinstance(x, (ast.Yield, ast.YieldFrom)) for x in pf.walk_shallow(st0)):
            continue  # a generator helper: judged where it is inlined into the selectors
        # selectors are analysed with their same-class helpers (incl. simple generators and next(gen, default)) inlined
        mi, il = inline.inline_methods(m, 'InstanceCollectionConfigs', st0.name, exclude=own_selectors)
        st = mi.func(f'InstanceCollectionConfigs.{st0.name}')
        loops = _pool_loops(st)
        if not loops:
            continue
        qual = f'InstanceCollectionConfigs.{st.name}'
        calls = [c for c in pf.calls_in(st) if isinstance(c.func, ast.Attribute) and c.func.attr == 'convert_requests_to_resources']
        if not calls:
            continue  # not a selection method (e.g. bookkeeping over pools)
        selectors[st.name] = st
        ctx.unit('selector_methods')
        params = _params(st)
        cfg = pf.cfg(st)
        want = [('cloud', 'cloud'), ('preemptible', 'preemptible'), ('label', 'pool_label')]
        if 'worker_type' in params:
            want.append(('worker_type', 'worker_type'))
        # R3a: nothing gives up inside the loop
        for lp in loops:
            early = []

            def scan(stmts, in_inner_loop):
                for x in stmts:
                    if isinstance(x, (ast.FunctionDef, ast.AsyncFunctionDef, ast.ClassDef)):
                        continue
                    if isinstance(x, ast.Return) and (x.value is None or (isinstance(x.value, ast.Constant) and x.value.value is None)):
                        early.append(x)
                    elif isinstance(x, ast.Break) and not in_inner_loop:
                        early.append(x)
                    inner = in_inner_loop or isinstance(x, (ast.For, ast.AsyncFor, ast.While))
                    for fld in ('body', 'orelse', 'finalbody'):
                        sub = getattr(x, fld, None)
                        if isinstance(sub, list) and sub and isinstance(sub[0], ast.stmt):
                            scan(sub, inner if fld == 'body' else in_inner_loop)
                    for h in getattr(x, 'handlers', []) or []:
                        scan(h.body, in_inner_loop)
            scan(lp.body, False)
            # leaving the loop AFTER a pool accepted the request is not giving up: exits lexically inside the true branch of a test of the
            # value returned by convert_requests_to_resources (`if result:` / `if result is not None:`) are fine
            res_names = {t.id for a in ast.walk(lp) if isinstance(a, ast.Assign) and isinstance(a.value, ast.Call) and isinstance(a.value.func, ast.Attribute)
                         and a.value.func.attr == 'convert_requests_to_resources' for t in a.targets if isinstance(t, ast.Name)}
            par = mi.parents()

            def after_success(x: ast.AST) -> bool:
                cur = x
                while cur is not lp and cur in par:
                    p = par[cur]
                    if isinstance(p, ast.If) and any(cur is b for b in p.body):
                        t = p.test
                        pos = (isinstance(t, ast.Name) and t.id in res_names) or \
                              (isinstance(t, ast.Compare) and isinstance(t.left, ast.Name) and t.left.id in res_names and len(t.ops) == 1
                               and isinstance(t.ops[0], ast.IsNot) and isinstance(t.comparators[0], ast.Constant) and t.comparators[0].value is None)
                        if pos:
                            return True
                    cur = p
                return False
            early = [x for x in early if not after_success(x)]
            # `break`/`return None` in nested loops over something else are still early exits of the selection
            cons = f'{FI}::{qual}::for {pf.nsrc(lp.target)} in {short(pf.nsrc(lp.iter), 40)}'
            ctx.check(not early, 'R3', cons,
                      (f'`{pf.nsrc(early[0])}` at line {early[0].lineno} leaves the pool loop early: ' if early else '')
                      + 'the request is rejected (or the search stopped) although a later matching pool could satisfy it', m.path, lp.lineno)
            if lp.orelse:
                raise AnalysisError(f'{qual}: for/else on the pool loop is not a recognised shape')
        for c in calls:
            ctx.need(isinstance(c.func.value, ast.Name), f'{qual}: receiver of convert_requests_to_resources is not a variable')
            pool = c.func.value.id  # type: ignore[union-attr]
            loop = [lp for lp in loops if lp.target.id == pool]  # type: ignore[union-attr]
            ctx.need(len(loop) == 1, f'{qual}: `{pool}` is not the variable of a loop over name_pool_config')
            starts = [n for n in cfg.nodes if n.kind == 'loop' and n.ast is loop[0]]
            goals = cfg.node_of(c)
            ctx.need(starts and goals, f'{qual}: loop / call not found in CFG')
            for attr, par in want:
                cons = f'{FI}::{qual}::{pool}.{attr} == {par}'
                ctx.need(par in params, f'{qual}: no parameter `{par}`')
                path = guards.unguarded_path(cfg, facts, starts, lambda n: any(n is g for g in goals),
                                             lambda e, pol: guards.is_eq_fact(e, pol, f'{pool}.{attr}', par))
                ctx.check(path is None, 'R1', cons,
                          f'`{pool}.convert_requests_to_resources` is reached without `{pool}.{attr} == {par}` {guards.fmt_path(path)}: a job is placed in a pool '
                          f'of a different {attr} than it asked for', m.path, c.lineno)
            # R4: like-named plumbing into convert_requests_to_resources
            _check_call_names(ctx, m, qual, c, conv_params, st, 'PoolConfig.convert_requests_to_resources')
    ctx.need(len(selectors) >= 2, f'expected at least two pool-selection methods, found {sorted(selectors)}')
    # job-private: cloud filter
    fn = m.func('InstanceCollectionConfigs.select_job_private')
    cfg = pf.cfg(fn)
    calls = [c for c in pf.calls_in(fn) if isinstance(c.func, ast.Attribute) and c.func.attr == 'convert_requests_to_resources']
    ctx.need(len(calls) == 1, 'select_job_private: convert_requests_to_resources call not found')
    recv = pf.nsrc(calls[0].func.value)  # type: ignore[union-attr]
    goals = cfg.node_of(calls[0])
    path = guards.unguarded_path(cfg, facts, [cfg.entry], lambda n: any(n is g for g in goals),
                                 lambda e, pol: guards.is_eq_fact(e, pol, f'{recv}.cloud', 'cloud'))
    ctx.check(path is None, 'R1', f'{FI}::InstanceCollectionConfigs.select_job_private::{recv}.cloud == cloud',
              f'the job-private collection is used without `{recv}.cloud == cloud` {guards.fmt_path(path)}', m.path, calls[0].lineno)
    jp = m.func('JobPrivateInstanceManagerConfig.convert_requests_to_resources')
    _check_call_names(ctx, m, 'InstanceCollectionConfigs.select_job_private', calls[0], _params(jp)[1:], fn, 'JobPrivateInstanceManagerConfig.convert_requests_to_resources')
    return selectors


def _check_call_names(ctx: Ctx, m: pf.Module, qual: str, c: ast.Call, callee_params: List[str], caller: pf.FuncDef, callee: str,
                      file: str = FI, strip: str = 'req_') -> None:
    """R4: each argument that is a plain variable must go to the like-named parameter (modulo a `req_` prefix)."""
    caller_params = set(_params(caller))
    pairs: List[Tuple[str, ast.expr]] = []
    for i, a in enumerate(c.args):
        ctx.need(not isinstance(a, ast.Starred) and i < len(callee_params), f'{qual}: call `{short(pf.nsrc(c), 50)}` does not match {callee}{callee_params}')
        pairs.append((callee_params[i], a))
    for k in c.keywords:
        ctx.need(k.arg is not None and k.arg in callee_params, f'{qual}: keyword `{k.arg}` is not a parameter of {callee}')
        pairs.append((k.arg, k.value))  # type: ignore[arg-type]
    norm = lambda s: s[len(strip):] if s.startswith(strip) else s  # noqa: E731
    wrong = []
    unknown = []
    for par, a in pairs:
        if not isinstance(a, ast.Name):
            continue
        if norm(a.id) == norm(par):
            continue
        if norm(a.id) in {norm(p) for p in callee_params}:
            wrong.append((par, a.id))
        elif a.id in caller_params and _role(a.id) is not None and _role(par) is not None and _role(a.id) != _role(par):
            wrong.append((par, a.id))
        else:
            unknown.append((par, a.id))
    cons = f'{file}::{qual}::args of {short(pf.nsrc(c.func), 60)}'
    if wrong:
        par, arg = wrong[0]
        ctx.bad('R4', cons, f'`{arg}` is passed as `{par}` of {callee}: the request\'s {_role(arg) or arg} is interpreted as its {_role(par) or par}, '
                'so the placement is computed for a different request than the job made', m.path, c.lineno)
        return
    ctx.need(not unknown, f'{qual}: cannot match argument(s) {unknown} of `{short(pf.nsrc(c), 50)}` to parameters of {callee}')
    ctx.need(len(pairs) == len(callee_params), f'{qual}: `{short(pf.nsrc(c), 50)}` passes {len(pairs)} of {len(callee_params)} parameters of {callee}')
    ctx.ok('R4', cons, {p: pf.nsrc(a) for p, a in pairs})


# --------------------------------------------------------------------------------------
# R2: convert_requests_to_resources
# --------------------------------------------------------------------------------------


def _fits_fact(e: ast.AST, pol: bool, var: str) -> Optional[str]:
    """'ok' if (e,pol) says var <= self.worker_cores*1000; 'strict' / 'other' for related but different tests; None if unrelated."""
    if not (isinstance(e, ast.Compare) and len(e.ops) == 1):
        return None
    l, r = pf.nsrc(e.left), pf.nsrc(e.comparators[0])
    W = ('self.worker_cores * 1000', '1000 * self.worker_cores')
    if 'worker_cores' not in l + r:
        return None
    op = type(e.ops[0])
    if l == var and r in W:
        rel = {ast.LtE: ('ok', None), ast.Lt: ('strict', None), ast.Gt: (None, 'ok'), ast.GtE: (None, 'strict')}.get(op)
    elif r == var and l in W:
        rel = {ast.GtE: ('ok', None), ast.Gt: ('strict', None), ast.Lt: (None, 'ok'), ast.LtE: (None, 'strict')}.get(op)
    else:
        return 'other'
    if rel is None:
        return 'other'
    return (rel[0] if pol else rel[1]) or 'other-polarity'


def _check_convert(ctx: Ctx, m: pf.Module, facts: Facts) -> None:
    qual = 'PoolConfig.convert_requests_to_resources'
    fn = m.func(qual)
    params = _params(fn)
    ctx.need(len(params) == 4, f'{qual}: parameters {params}')
    p_cores, p_mem, p_sto = params[1:]
    ctx.need([_role(x) for x in params[1:]] == WANT3, f'{qual}: parameters {params[1:]} are not (cores, memory, storage)')
    cfg = pf.cfg(fn)
    rets = [n for n in cfg.nodes if n.kind == 'return' and isinstance(n.ast, ast.Return)]
    placements = [r for r in rets if isinstance(r.ast.value, ast.Tuple)]  # type: ignore[union-attr]
    for r in rets:
        v = r.ast.value  # type: ignore[union-attr]
        ctx.need(v is None or isinstance(v, ast.Tuple) or (isinstance(v, ast.Constant) and v.value is None),
                 f'{qual}: return `{short(pf.nsrc(r.ast), 50)}` is neither a placement tuple nor None')
    ctx.need(placements, f'{qual}: no placement is returned')
    for r in placements:
        tup = r.ast.value  # type: ignore[union-attr]
        roles = _roles(tup.elts)
        cons0 = f'{FI}::{qual}::return {short(pf.nsrc(tup), 60)}'
        ctx.check(roles == WANT3, 'R4', cons0 + '::order', f'the placement tuple is {roles}, readers unpack (cores, memory, storage): the granted '
                  f'{roles[1] if len(roles) > 1 else "?"} is stored as the job\'s memory', m.path, r.lineno)
        if roles != WANT3 or not all(isinstance(e, ast.Name) for e in tup.elts):
            ctx.need(roles != WANT3, f'{qual}: placement elements are not plain variables')
            continue
        v_cores, v_mem, v_sto = [e.id for e in tup.elts]
        # fits one worker
        starts = guards.def_nodes(cfg, v_cores) + ([cfg.entry] if v_cores in params else [])
        path = guards.unguarded_path(cfg, facts, starts, lambda n: n is r, lambda e, pol: _fits_fact(e, pol, v_cores) == 'ok')
        if path is None:
            ctx.ok('R2', cons0 + '::fits one worker', f'{v_cores} <= self.worker_cores * 1000')
        else:
            related = [(_fits_fact(e, pol, v_cores), pf.nsrc(e)) for n in cfg.nodes if n.kind == 'test' and isinstance(n.ast, ast.expr)
                       for lab in ('T', 'F') for e, pol in facts.edge(n, lab)]
            strict = [t for k, t in related if k == 'strict']
            other = [t for k, t in related if k == 'other']
            if strict:
                msg = (f'the guard is `{strict[0]}` (strict): a request that exactly fills a worker ({v_cores} == worker_cores*1000) is rejected although this pool satisfies it')
            elif other:
                msg = f'the placement is guarded by `{other[0]}`, which does not bound the returned `{v_cores}` by self.worker_cores * 1000'
            else:
                msg = f'the placement is returned without `{v_cores} <= self.worker_cores * 1000` {guards.fmt_path(path)}: a job larger than any worker of the pool is accepted and can never be scheduled'
            ctx.bad('R2', cons0 + '::fits one worker', msg, m.path, r.lineno)
        # storage
        d = pf.single_def(fn, v_sto)
        cons = cons0 + '::storage'
        ctx.need(isinstance(d, ast.Call), f'{qual}: `{v_sto}` is not defined by a single call')
        okf = pf.dotted(d.func) == 'requested_storage_bytes_to_actual_storage_gib'  # type: ignore[union-attr]
        ctx.need(okf, f'{qual}: `{v_sto}` comes from `{short(pf.nsrc(d), 50)}`, not requested_storage_bytes_to_actual_storage_gib')
        args = [pf.nsrc(a) for a in d.args]  # type: ignore[union-attr]
        ctx.check(len(args) >= 2 and args[0] == 'self.cloud' and args[1] == p_sto, 'R2', cons,
                  f'granted storage is computed from ({", ".join(args[:2])}), not (self.cloud, {p_sto}): the job gets storage sized for a different quantity', m.path, r.lineno)
        path = guards.unguarded_path(cfg, facts, guards.def_nodes(cfg, v_sto), lambda n: n is r, lambda e, pol: guards.is_neq_fact(e, pol, v_sto, 'None'))
        ctx.check(path is None, 'R2', cons + ' is not None', f'a placement can be returned while `{v_sto}` is None (request above the cloud maximum) {guards.fmt_path(path)}: '
                  'an unsatisfiable storage request is accepted instead of rejected', m.path, r.lineno)
        # cloud branches: memory raises cores before memory is derived
        branches = _cloud_branches(fn)
        ctx.need(len(branches) == 2, f'{qual}: expected an if/else over self.cloud with two branches, found {len(branches)}')
        for cloud, stmts, line in branches:
            consb = f'{FI}::{qual}::{cloud} branch'
            assigns = [s for s in stmts if isinstance(s, ast.Assign) and len(s.targets) == 1 and isinstance(s.targets[0], ast.Name)]
            others = [s for s in stmts if s not in assigns and not isinstance(s, ast.Assert)]
            ctx.need(not others, f'{qual}: {cloud} branch contains `{short(pf.nsrc(others[0]), 40)}` (unrecognised shape)' if others else '')
            idx_adjust = [i for i, s in enumerate(assigns) if s.targets[0].id == v_cores and isinstance(s.value, ast.Call)  # type: ignore[union-attr]
                          and (pf.dotted(s.value.func) or '').endswith('_adjust_cores_for_memory_request')]
            idx_mem = [i for i, s in enumerate(assigns) if s.targets[0].id == v_mem]  # type: ignore[union-attr]
            idx_cores = [i for i, s in enumerate(assigns) if s.targets[0].id == v_cores]  # type: ignore[union-attr]
            if not idx_adjust:
                ctx.bad('R2', consb + '::memory raises cores', f'no `{v_cores} = {cloud}_adjust_cores_for_memory_request({v_cores}, {p_mem}, …)`: the granted memory is '
                        f'cores x memory-per-core of the *requested* cores, which is less than the requested memory (e.g. cpu=0.25, memory=10Gi)', m.path, line)
            else:
                c = assigns[idx_adjust[0]].value
                a = [pf.nsrc(x) for x in c.args]  # type: ignore[union-attr]
                ctx.check(len(a) >= 2 and a[0] == v_cores and a[1] == p_mem and 'self.worker_type' in a, 'R2', consb + '::memory raises cores',
                          f'`{short(pf.nsrc(c), 90)}` does not take ({v_cores}, {p_mem}, …, self.worker_type): the core count is not raised to cover the '
                          'requested memory on this pool\'s worker type', m.path, c.lineno)
            ctx.need(len(idx_mem) == 1, f'{qual}: {cloud} branch assigns `{v_mem}` {len(idx_mem)} times')
            ms = assigns[idx_mem[0]].value
            okm = isinstance(ms, ast.Call) and (pf.dotted(ms.func) or '').endswith('_cores_mcpu_to_memory_bytes') and ms.args and pf.nsrc(ms.args[0]) == v_cores
            ctx.need(okm, f'{qual}: {cloud} branch: `{v_mem} = {short(pf.nsrc(ms), 50)}` is not <cloud>_cores_mcpu_to_memory_bytes({v_cores}, …)')
            ctx.check(idx_cores and idx_mem[0] > max(idx_cores), 'R2', consb + '::memory from final cores',
                      f'`{v_mem}` is derived from `{v_cores}` before the core count is final: the granted memory is computed for fewer cores than are '
                      'granted and can be below the requested memory', m.path, assigns[idx_mem[0]].lineno)
            ctx.check('self.worker_type' in [pf.nsrc(x) for x in ms.args], 'R2', consb + '::memory uses pool worker type',  # type: ignore[union-attr]
                      f'`{short(pf.nsrc(ms), 80)}` does not use self.worker_type: memory is computed for another worker type than the pool\'s', m.path, ms.lineno)
    # job-private
    qualj = 'JobPrivateInstanceManagerConfig.convert_requests_to_resources'
    fj = m.func(qualj)
    pj = _params(fj)
    for r in [n for n in pf.walk_shallow(fj) if isinstance(n, ast.Return) and isinstance(n.value, ast.Tuple)]:
        roles = _roles(r.value.elts)  # type: ignore[union-attr]
        cons = f'{FI}::{qualj}::return {short(pf.nsrc(r.value), 60)}'
        ctx.check(roles == WANT4, 'R4', cons + '::order', f'the placement tuple is {roles}, the front end unpacks (name, cores, memory, storage)', m.path, r.lineno)
        if roles == WANT4 and isinstance(r.value.elts[3], ast.Name):  # type: ignore[union-attr]
            d = pf.single_def(fj, r.value.elts[3].id)  # type: ignore[union-attr]
            ctx.need(isinstance(d, ast.Call) and pf.dotted(d.func) == 'requested_storage_bytes_to_actual_storage_gib', f'{qualj}: storage is not from requested_storage_bytes_to_actual_storage_gib')
            args = [pf.nsrc(a) for a in d.args]  # type: ignore[union-attr]
            sto_par = [p for p in pj if _role(p) == 'storage']
            ctx.check(len(args) >= 2 and args[0] == 'self.cloud' and sto_par and args[1] == sto_par[0], 'R2', cons + '::storage',
                      f'granted storage is computed from ({", ".join(args[:2])}), not (self.cloud, storage_bytes)', m.path, r.lineno)


def _cloud_of_test(t: ast.AST) -> Optional[str]:
    s = guards.eq_sides(t)
    if s is None or s[2] is not ast.Eq:
        return None
    for a, b in ((s[0], s[1]), (s[1], s[0])):
        if (a.split('.')[-1] in ('cloud', 'CLOUD')) and b in ("'gcp'", "'azure'"):
            return b.strip("'")
    return None


def _cloud_branches(fn: pf.FuncDef) -> List[Tuple[str, List[ast.stmt], int]]:
    out: List[Tuple[str, List[ast.stmt], int]] = []
    for n in pf.walk_shallow(fn):
        if isinstance(n, ast.If) and _cloud_of_test(n.test) and n.orelse:
            c = _cloud_of_test(n.test)
            out.append((c, n.body, n.lineno))  # type: ignore[arg-type]
            other = None
            if n.orelse and isinstance(n.orelse[0], ast.Assert):
                other = _cloud_of_test(n.orelse[0].test)
            if other is None:
                other = [x for x in CLOUDS if x != c][0]
            out.append((other, n.orelse, n.orelse[0].lineno))
    return out


# --------------------------------------------------------------------------------------
# R3b: dispatch + front end
# --------------------------------------------------------------------------------------


def _check_dispatch(ctx: Ctx, m: pf.Module, selectors: Dict[str, pf.FuncDef]) -> None:
    qual = 'InstanceCollectionConfigs.select_inst_coll'
    fn = m.func(qual)
    want = {
        (False, True): 'select_pool_from_worker_type',   # (worker_type is None, machine_type is None)
        (True, True): 'select_cheapest_price_pool',
        (True, False): 'select_job_private',
        (False, False): None,  # contradictory request: must not silently select
    }
    atoms = absdom.collect_test_atoms(fn.body)

    def val_for(wt_none: bool, mt_none: bool):
        def val(a: ast.AST) -> bool:
            s = guards.eq_sides(a)
            if s is not None and 'None' in (s[0], s[1]):
                var = s[0] if s[1] == 'None' else s[1]
                isnone = {'worker_type': wt_none, 'machine_type': mt_none}.get(var)
                if isnone is not None:
                    return isnone if s[2] in (ast.Is, ast.Eq) else not isnone
            if isinstance(a, ast.Name) and a.id in ('worker_type', 'machine_type'):
                return not {'worker_type': wt_none, 'machine_type': mt_none}[a.id]
            raise AnalysisError(f'{qual}: unrecognised test `{pf.nsrc(a)}`')
        return val
    for (wt_none, mt_none), selector in want.items():
        executed: List[ast.stmt] = []
        cons = f'{FI}::{qual}::worker_type {"is" if wt_none else "is not"} None, machine_type {"is" if mt_none else "is not"} None'
        o = absdom.walk_block(fn.body, val_for(wt_none, mt_none), executed)
        called = [c for s in executed if not isinstance(s, ast.Assert) for c in pf.calls_in(s) if isinstance(c.func, ast.Attribute) and c.func.attr.startswith('select_')]
        asserts_fail = False
        for s in executed:
            if isinstance(s, ast.Assert):
                try:
                    for conj in (s.test.values if isinstance(s.test, ast.BoolOp) and isinstance(s.test.op, ast.And) else [s.test]):
                        if guards.eq_sides(conj) is not None or isinstance(conj, ast.Name):
                            if not val_for(wt_none, mt_none)(conj):
                                asserts_fail = True
                except AnalysisError:
                    pass
        names = [c.func.attr for c in called]  # type: ignore[union-attr]
        if selector is None:
            ctx.check(asserts_fail or not names, 'R3', cons, f'a request naming both a worker type and a machine type is silently served by {names}', m.path, fn.lineno)
            continue
        ok = names == [selector] and not asserts_fail and o.kind == 'return'
        ctx.check(ok, 'R3', cons, f'this case is served by {names or "no selector"}{" after a failing assert" if asserts_fail else ""}, expected {selector}: '
                  'the named worker type / machine type of the request is ignored or the request is rejected although a matching collection exists', m.path, fn.lineno)
        if ok:
            c = called[0]
            callee = m.func(f'InstanceCollectionConfigs.{selector}')
            _check_call_names(ctx, m, qual, c, _params(callee)[1:], fn, f'InstanceCollectionConfigs.{selector}')
            # the result of the selector is what is returned
            ret = o.node
            tgt = [pf.nsrc(t) for s in executed if isinstance(s, ast.Assign) and s.value is c for t in s.targets]
            okr = isinstance(ret, ast.Return) and isinstance(ret.value, ast.Tuple) and len(ret.value.elts) == 2 and tgt \
                and pf.nsrc(ret.value.elts[0]) == tgt[0] and isinstance(ret.value.elts[1], ast.Constant) and ret.value.elts[1].value is None
            ctx.need(okr or isinstance(ret, ast.Return), f'{qual}: no return')
            ctx.check(bool(okr), 'R3', cons + '::returned', f'the value returned is `{pf.nsrc(ret.value) if isinstance(ret, ast.Return) and ret.value else None}`, not (result of {selector}, None)',
                      m.path, getattr(ret, 'lineno', fn.lineno))
    # placement tuples of the selectors
    for name, fn2 in selectors.items():
        for r in [n for n in pf.walk_shallow(fn2)]:
            tup = None
            if isinstance(r, ast.Return) and isinstance(r.value, ast.Tuple):
                tup = r.value
            elif isinstance(r, ast.Assign) and isinstance(r.value, ast.Tuple) and len(r.value.elts) == 4 and len(r.targets) == 1 and isinstance(r.targets[0], ast.Name):
                tup = r.value
            elif isinstance(r, ast.Assign) and len(r.targets) == 1 and isinstance(r.targets[0], ast.Tuple) and isinstance(r.value, ast.Name) \
                    and isinstance(pf.single_def(fn2, r.value.id), ast.Call) and 'convert_requests_to_resources' in pf.nsrc(pf.single_def(fn2, r.value.id)):  # type: ignore[arg-type]
                roles = _roles(r.targets[0].elts)
                ctx.check(roles == WANT3, 'R4', f'{FI}::InstanceCollectionConfigs.{name}::unpack {short(pf.nsrc(r.targets[0]), 70)}',
                          f'the pool placement (cores, memory, storage) is unpacked as {roles}', m.path, r.lineno)
                continue
            if tup is None:
                continue
            roles = _roles(tup.elts)
            ctx.check(roles == WANT4, 'R4', f'{FI}::InstanceCollectionConfigs.{name}::placement {short(pf.nsrc(tup), 70)}',
                      f'the placement tuple is {roles}, the front end unpacks (name, cores, memory, storage): quantities are stored under the wrong resource', m.path, r.lineno)


def _check_front_end(ctx: Ctx, mi: pf.Module) -> None:
    m = pf.load(FE)
    sites = []
    for qual, fn in m.functions():
        for c in pf.calls_in(fn):
            if isinstance(c.func, ast.Attribute) and c.func.attr == 'select_inst_coll':
                sites.append((qual, fn, c))
    ctx.need(len(sites) >= 1, 'front end: no call of select_inst_coll')
    callee = mi.func('InstanceCollectionConfigs.select_inst_coll')
    facts = Facts()
    for qual, fn, c in sites:
        _check_call_names(ctx, m, qual, c, _params(callee)[1:], fn, 'InstanceCollectionConfigs.select_inst_coll', file=FE)
        cfg = pf.cfg(fn)
        # result variable
        asg = [n for n in cfg.nodes if n.kind == 'stmt' and isinstance(n.ast, ast.Assign) and any(x is c for x in ast.walk(n.ast.value))]
        ctx.need(len(asg) == 1 and isinstance(asg[0].ast.targets[0], ast.Tuple) and len(asg[0].ast.targets[0].elts) == 2  # type: ignore[union-attr]
                 and isinstance(asg[0].ast.targets[0].elts[0], ast.Name), f'{qual}: `result, exc = …select_inst_coll(…)` not recognised')  # type: ignore[union-attr]
        res = asg[0].ast.targets[0].elts[0].id  # type: ignore[union-attr]
        # every use of the placement is behind `result is not None`, and the None branch raises HTTPBadRequest
        uses = [n for n in cfg.nodes if n.kind == 'stmt' and isinstance(n.ast, ast.Assign) and isinstance(n.ast.value, ast.Name) and n.ast.value.id == res
                and isinstance(n.ast.targets[0], ast.Tuple)]
        ctx.need(uses, f'{qual}: the placement `{res}` is never unpacked')
        for u in uses:
            cons = f'{FE}::{qual}::{short(u.text(), 70)}'
            path = guards.unguarded_path(cfg, facts, asg, lambda n: n is u, lambda e, pol: guards.is_neq_fact(e, pol, res, 'None') or (pol and pf.nsrc(e) == res))
            ctx.check(path is None, 'R3', cons + '::guarded', f'the placement is unpacked without `{res} is not None` {guards.fmt_path(path)}: an unsatisfiable request '
                      'is a server error (500) instead of a rejection', m.path, u.lineno)
            roles = _roles(u.ast.targets[0].elts)  # type: ignore[union-attr]
            ctx.check(roles == WANT4, 'R4', cons + '::order', f'the placement (name, cores, memory, storage) is unpacked as {roles}', m.path, u.lineno)
            # stored under the like-named resource key
            names = [e.id for e in u.ast.targets[0].elts if isinstance(e, ast.Name)]  # type: ignore[union-attr]
            for st in pf.walk_shallow(fn):
                if isinstance(st, ast.Assign) and len(st.targets) == 1 and isinstance(st.targets[0], ast.Subscript) and pf.nsrc(st.targets[0].value) == 'resources' \
                        and isinstance(st.value, ast.Name) and st.value.id in names and _role(st.value.id) in WANT3:
                    key = pf.const_str(st.targets[0].slice)
                    if key is None or _role(key) is None:
                        continue
                    ctx.check(_role(key) == _role(st.value.id), 'R4', f"{FE}::{qual}::resources['{key}']",
                              f"resources['{key}'] is set from `{st.value.id}`: the granted {_role(st.value.id)} is recorded as the job's {_role(key)}", m.path, st.lineno)
        # None -> 400
        tests = [n for n in cfg.nodes if n.kind == 'test' and isinstance(n.ast, ast.expr) and guards.eq_sides(n.ast) is not None
                 and {guards.eq_sides(n.ast)[0], guards.eq_sides(n.ast)[1]} == {res, 'None'}]  # type: ignore[index]
        ctx.need(tests, f'{qual}: no `{res} is None` test')
        for t in tests:
            lab = 'T' if guards.eq_sides(t.ast)[2] in (ast.Is, ast.Eq) else 'F'  # type: ignore[index]
            starts = [s for s, l in t.succ if l == lab]
            bad_exit = None
            for s in starts:
                if s.kind == 'raise':
                    continue
                bad_exit = cfg.path_avoiding(s, lambda n: n is cfg.exit or n in uses, lambda n: n.kind == 'raise')
            raises = [n for s in starts for n in ([s] if s.kind == 'raise' else [])]
            cons = f'{FE}::{qual}::{short(t.text(), 40)} -> 400'
            ok400 = all(isinstance(r.ast, ast.Raise) and r.ast.exc is not None and (pf.call_name(r.ast.exc) or pf.dotted(r.ast.exc) or '').endswith('HTTPBadRequest') for r in raises)
            ctx.check(bad_exit is None and bool(raises) and ok400, 'R3', cons,
                      'an unsatisfiable request (no placement) is not answered with web.HTTPBadRequest', m.path, t.lineno)


# --------------------------------------------------------------------------------------
# R5: monotone shapes
# --------------------------------------------------------------------------------------


def _ge_param(fn: pf.FuncDef, e: ast.AST, p: str, depth: int = 4) -> bool:
    """Syntactic proof that e >= p (p a parameter name)."""
    if depth <= 0:
        return False
    if isinstance(e, ast.Name):
        if e.id == p and len(pf.assignments(fn).get(p, [])) == 1:
            return True
        d = pf.single_def(fn, e.id)
        return isinstance(d, ast.expr) and not isinstance(d, ast.Name) and _ge_param(fn, d, p, depth - 1) or (isinstance(d, ast.Name) and _ge_param(fn, d, p, depth - 1))
    if isinstance(e, ast.Call) and pf.dotted(e.func) == 'max' and not e.keywords:
        return any(_ge_param(fn, a, p, depth - 1) for a in e.args)
    if isinstance(e, ast.Call) and pf.dotted(e.func) in ('math.ceil', 'ceil') and len(e.args) == 1:
        return _ge_param(fn, e.args[0], p, depth - 1)
    if isinstance(e, ast.Call) and pf.dotted(e.func) == 'min' and not e.keywords:
        return all(_ge_param(fn, a, p, depth - 1) for a in e.args)
    return False


def _flat(fn: pf.FuncDef, e: ast.AST) -> ast.AST:
    """e with the straight-line top-level assignments of fn substituted in program order (handles `x = f(x)` re-assignments, which have no
    single definition).  Functions with assignments under control flow are returned unchanged (single-definition resolution then applies)."""
    import copy
    if any(isinstance(s, (ast.If, ast.For, ast.While, ast.Try, ast.With)) for s in fn.body):
        return e
    env: Dict[str, ast.expr] = {}

    class Sub(ast.NodeTransformer):
        def visit_Name(self, node):
            return copy.deepcopy(env[node.id]) if isinstance(node.ctx, ast.Load) and node.id in env else node
    for st in fn.body:
        if isinstance(st, ast.Assign) and len(st.targets) == 1 and isinstance(st.targets[0], ast.Name):
            env[st.targets[0].id] = Sub().visit(copy.deepcopy(st.value))
        elif isinstance(st, ast.AnnAssign) and isinstance(st.target, ast.Name) and st.value is not None:
            env[st.target.id] = Sub().visit(copy.deepcopy(st.value))
    return Sub().visit(copy.deepcopy(e))


def _mentions(fn: pf.FuncDef, e: ast.AST, p: str, depth: int = 6) -> bool:
    """e depends on parameter p (through single-definition locals)."""
    if depth <= 0:
        return False
    for n in ast.walk(e):
        if isinstance(n, ast.Name):
            if n.id == p:
                return True
            d = pf.single_def(fn, n.id)
            if isinstance(d, ast.expr) and _mentions(fn, d, p, depth - 1):
                return True
    return False


def _ceil_div(e: ast.AST) -> Optional[Tuple[ast.AST, ast.AST]]:
    """(a, b) if e is an integer round-up division of a by b:  (a + b - 1) // b,  (a + (b - 1)) // b,  (a - 1) // b + 1,  -(-a // b)."""
    if isinstance(e, ast.UnaryOp) and isinstance(e.op, ast.USub) and isinstance(e.operand, ast.BinOp) and isinstance(e.operand.op, ast.FloorDiv):
        l = e.operand.left
        if isinstance(l, ast.UnaryOp) and isinstance(l.op, ast.USub):
            return l.operand, e.operand.right
    if isinstance(e, ast.BinOp) and isinstance(e.op, ast.FloorDiv):
        b = pf.nsrc(e.right)
        l = e.left
        if isinstance(l, ast.BinOp) and isinstance(l.op, ast.Sub) and isinstance(l.right, ast.Constant) and l.right.value == 1 and isinstance(l.left, ast.BinOp) \
                and isinstance(l.left.op, ast.Add) and pf.nsrc(l.left.right) == b:
            return l.left.left, e.right
        if isinstance(l, ast.BinOp) and isinstance(l.op, ast.Add) and isinstance(l.right, ast.BinOp) and isinstance(l.right.op, ast.Sub) \
                and pf.nsrc(l.right.left) == b and isinstance(l.right.right, ast.Constant) and l.right.right.value == 1:
            return l.left, e.right
    if isinstance(e, ast.BinOp) and isinstance(e.op, ast.Add) and isinstance(e.right, ast.Constant) and e.right.value == 1 and isinstance(e.left, ast.BinOp) \
            and isinstance(e.left.op, ast.FloorDiv) and isinstance(e.left.left, ast.BinOp) and isinstance(e.left.left.op, ast.Sub) \
            and isinstance(e.left.left.right, ast.Constant) and e.left.left.right.value == 1:
        return e.left.left.left, e.left.right
    return None


def _direction(fn: pf.FuncDef, e: ast.AST, p: str, depth: int = 8) -> str:
    """How e relates to the real-valued expression it approximates, as far as parameter p (>= 0) flows into it:
    'exact', 'up' (>=), 'down' (<=), 'mixed'.  Sub-expressions that do not depend on p are exact constants (assumed positive).
    Unknown operations on a p-dependent value raise AnalysisError (the rule declines)."""
    if depth <= 0:
        raise AnalysisError(f'direction analysis too deep at `{pf.nsrc(e)}`')
    if not _mentions(fn, e, p):
        return 'exact'
    if isinstance(e, ast.Name):
        if e.id == p:
            return 'exact'
        d = pf.single_def(fn, e.id)
        if not isinstance(d, ast.expr):
            raise AnalysisError(f'`{e.id}` has no single definition')
        return _direction(fn, d, p, depth - 1)

    def comb(a: str, b: str) -> str:
        if a == 'exact':
            return b
        if b == 'exact' or a == b:
            return a
        return 'mixed'

    def flip(a: str) -> str:
        return {'up': 'down', 'down': 'up'}.get(a, a)
    cd = _ceil_div(e)
    if cd is not None:
        a, b = cd
        if _mentions(fn, b, p):
            raise AnalysisError(f'divisor `{pf.nsrc(b)}` depends on {p}')
        return comb(_direction(fn, a, p, depth - 1), 'up')
    if isinstance(e, ast.Call):
        f = pf.dotted(e.func) or ''
        if f in ('math.ceil', 'ceil') and len(e.args) == 1:
            return comb(_direction(fn, e.args[0], p, depth - 1), 'up')
        if f in ('math.floor', 'floor', 'int', 'math.trunc') and len(e.args) == 1:
            return comb(_direction(fn, e.args[0], p, depth - 1), 'down')
        if f == 'round':
            return 'mixed'
        if f == 'max':
            ds = [_direction(fn, a, p, depth - 1) for a in e.args if _mentions(fn, a, p)]
            return 'up' if any(x in ('up', 'exact') for x in ds) and not all(x == 'exact' for x in ds) else (ds[0] if len(set(ds)) == 1 else 'mixed')
        if f == 'min':
            ds = {_direction(fn, a, p, depth - 1) for a in e.args if _mentions(fn, a, p)}
            return ds.pop() if len(ds) == 1 and len(e.args) == 1 else 'mixed'
        if f == 'float' and len(e.args) == 1:
            return _direction(fn, e.args[0], p, depth - 1)
        if f.split('.')[-1] == 'round_up_division' and len(e.args) == 2 and not _mentions(fn, e.args[1], p):
            return comb(_direction(fn, e.args[0], p, depth - 1), 'up')  # hailtop.utils.round_up_division(x, y) = (x + y - 1) // y
        raise AnalysisError(f'unrecognised call `{pf.nsrc(e)}` on a value derived from {p}')
    if isinstance(e, ast.BinOp):
        lm, rm = _mentions(fn, e.left, p), _mentions(fn, e.right, p)
        if isinstance(e.op, (ast.Add, ast.Mult)):
            return comb(_direction(fn, e.left, p, depth - 1), _direction(fn, e.right, p, depth - 1))
        if isinstance(e.op, ast.Sub):
            return comb(_direction(fn, e.left, p, depth - 1), flip(_direction(fn, e.right, p, depth - 1)))
        if isinstance(e.op, ast.Div):
            return comb(_direction(fn, e.left, p, depth - 1), flip(_direction(fn, e.right, p, depth - 1)))
        if isinstance(e.op, ast.FloorDiv):
            if rm:
                raise AnalysisError(f'divisor `{pf.nsrc(e.right)}` depends on {p}')
            return comb(_direction(fn, e.left, p, depth - 1), 'down')
        if isinstance(e.op, (ast.LShift, ast.RShift)) and not rm:
            return comb(_direction(fn, e.left, p, depth - 1), 'down' if isinstance(e.op, ast.RShift) else 'exact')
        raise AnalysisError(f'unrecognised operator in `{pf.nsrc(e)}`')
    if isinstance(e, ast.UnaryOp) and isinstance(e.op, ast.UAdd):
        return _direction(fn, e.operand, p, depth - 1)
    raise AnalysisError(f'unrecognised expression `{pf.nsrc(e)}` on a value derived from {p}')


def _scale(fn: pf.FuncDef, e: ast.AST, p: str, depth: int = 8) -> Optional[Fraction]:
    """The constant c such that e approximates c * p (roundings ignored); None if e is not such a scaling."""
    if depth <= 0:
        return None
    if isinstance(e, ast.Name):
        if e.id == p:
            return Fraction(1)
        d = pf.single_def(fn, e.id)
        return _scale(fn, d, p, depth - 1) if isinstance(d, ast.expr) else None

    def const(x: ast.AST) -> Optional[Fraction]:
        try:
            iv = absdom.eval_interval(x, {})
            return Fraction(iv.lo) if iv.lo == iv.hi else None
        except Exception:
            return None
    cd = _ceil_div(e)
    if cd is not None:
        a, b = _scale(fn, cd[0], p, depth - 1), const(cd[1])
        return a / b if a is not None and b else None
    if isinstance(e, ast.Call):
        f = pf.dotted(e.func) or ''
        if f in ('math.ceil', 'ceil', 'math.floor', 'floor', 'int', 'round', 'float', 'math.trunc') and len(e.args) >= 1:
            return _scale(fn, e.args[0], p, depth - 1)
        if f.split('.')[-1] == 'round_up_division' and len(e.args) == 2:
            a, b = _scale(fn, e.args[0], p, depth - 1), const(e.args[1])
            return a / b if a is not None and b else None
        return None
    if isinstance(e, ast.BinOp):
        if isinstance(e.op, ast.Mult):
            for x, y in ((e.left, e.right), (e.right, e.left)):
                k = const(y)
                if k is not None:
                    a = _scale(fn, x, p, depth - 1)
                    return a * k if a is not None else None
            return None
        if isinstance(e.op, (ast.Div, ast.FloorDiv)):
            a, k = _scale(fn, e.left, p, depth - 1), const(e.right)
            return a / k if a is not None and k else None
    return None


def _numer(fn: pf.FuncDef, e: ast.AST, p: str, depth: int = 8) -> bool:
    """p occurs in a numerator position of e (e grows with p)."""
    if depth <= 0:
        return False
    if isinstance(e, ast.Name):
        if e.id == p:
            return True
        d = pf.single_def(fn, e.id)
        return isinstance(d, ast.expr) and _numer(fn, d, p, depth - 1)
    cd = _ceil_div(e)
    if cd is not None:
        return _numer(fn, cd[0], p, depth - 1)
    if isinstance(e, ast.Call) and e.args:
        return any(_numer(fn, a, p, depth - 1) for a in e.args)
    if isinstance(e, ast.BinOp):
        if isinstance(e.op, (ast.Mult, ast.Add)):
            return _numer(fn, e.left, p, depth - 1) or _numer(fn, e.right, p, depth - 1)
        if isinstance(e.op, (ast.Div, ast.FloorDiv, ast.Sub, ast.RShift, ast.LShift)):
            return _numer(fn, e.left, p, depth - 1)
    return False


def _check_shapes(ctx: Ctx) -> None:
    for rel, cloud in ((FG, 'gcp'), (FA, 'azure')):
        m = pf.load(rel)
        # adjust cores for memory
        name = f'{cloud}_adjust_cores_for_memory_request'
        fn = m.func(name)
        ps = _params(fn)
        ctx.need(len(ps) >= 2 and _role(ps[0]) == 'cores' and _role(ps[1]) == 'memory', f'{name}: parameters {ps}')
        rets = [n for n in pf.walk_shallow(fn) if isinstance(n, ast.Return)]
        ctx.need(len(rets) == 1 and rets[0].value is not None, f'{name}: expected one return')
        cons = f'{rel}::{name}'
        ctx.check(_ge_param(fn, rets[0].value, ps[0]), 'R5', cons + '::>= requested cores',
                  f'`{short(pf.nsrc(rets[0]), 70)}` is not of the form max({ps[0]}, …): fewer cores than requested can be granted (e.g. cpu=8, memory=1Gi)', m.path, rets[0].lineno)
        # the memory-driven minimum is never below the real quotient request / per-core memory: decided by a direction analysis of the
        # arithmetic (exact | up = rounded up | down = rounded down | mixed), not by the spelling of the rounding
        v = _flat(fn, rets[0].value)
        if not isinstance(v, ast.Call):
            v = pf.resolve_expr(fn, rets[0].value)
        ctx.need(isinstance(v, ast.Call) and pf.dotted(v.func) == 'max', f'{name}: return is not max(...)')
        others = [a for a in v.args if not (isinstance(a, ast.Name) and a.id == ps[0])]
        mem_terms = [a for a in others if _mentions(fn, a, ps[1])]
        ctx.need(len(mem_terms) == 1, f'{name}: expected one memory-driven term in `{pf.nsrc(v)}`, found {len(mem_terms)}')
        t = mem_terms[0]
        d = _direction(fn, t, ps[1])
        shown = short(pf.nsrc(pf.expand_locals(fn, t)), 110)
        ctx.check(d in ('exact', 'up'), 'R5', cons + '::memory minimum rounds up',
                  f'the memory-driven core minimum `{shown}` is {"rounded DOWN" if d == "down" else "rounded in both directions"} on the way from {ps[1]}: the granted cores x '
                  f'memory-per-core can fall below the requested memory (e.g. a request just above a whole multiple of the unit that is floored)', m.path, rets[0].lineno)
        ctx.check(_numer(fn, t, ps[1]), 'R5', cons + '::memory / per-core', f'`{shown}` does not grow with {ps[1]}: more memory does not raise the core count', m.path, rets[0].lineno)
        # storage
        name = f'{cloud}_requested_to_actual_storage_bytes'
        fn = m.func(name)
        ps = _params(fn)
        ctx.need(ps and _role(ps[0]) == 'storage', f'{name}: parameters {ps}')
        rets = [n for n in pf.walk_shallow(fn) if isinstance(n, ast.Return)]
        n_val = 0
        for r in rets:
            if r.value is None or (isinstance(r.value, ast.Constant) and r.value.value is None):
                continue
            n_val += 1
            ctx.check(_ge_param(fn, r.value, ps[0]), 'R5', f'{rel}::{name}::return {short(pf.nsrc(r.value), 50)}',
                      f'`{short(pf.nsrc(r), 70)}` is not provably >= {ps[0]} (expected {ps[0]} or max(…, {ps[0]})): less storage than requested is granted', m.path, r.lineno)
        ctx.need(n_val >= 1, f'{name}: no value-bearing return')
    # bytes -> GiB rounds up
    m = pf.load(FU)
    fn = m.func('round_storage_bytes_to_gib')
    ps = _params(fn)
    rets = [n for n in pf.walk_shallow(fn) if isinstance(n, ast.Return)]
    ctx.need(len(rets) == 1 and rets[0].value is not None and len(ps) == 1, 'round_storage_bytes_to_gib: shape')
    cons = f'{FU}::round_storage_bytes_to_gib'
    rv0 = _flat(fn, rets[0].value)
    d = _direction(fn, rv0, ps[0])
    shown = short(pf.nsrc(rv0), 90)
    ctx.check(d in ('exact', 'up'), 'R5', cons + '::rounds up', f'bytes are converted to GiB by `{shown}`, which is {"rounded down" if d == "down" else "rounded in both directions"}: '
              'a request of 10.5Gi is granted 10 GiB', m.path, rets[0].lineno)
    sc = _scale(fn, rv0, ps[0])
    ctx.need(sc is not None, f'round_storage_bytes_to_gib: `{shown}` is not a scaling of {ps[0]} by a constant')
    ctx.check(sc == Fraction(1, 1024 ** 3), 'R5', cons + '::divides by 2**30', f'`{shown}` scales {ps[0]} by {sc}, not by 1/1024**3: the GiB granted do not cover the bytes requested',
              m.path, rets[0].lineno)
    # dispatcher uses the rounded actual bytes of the request
    fn = m.func('requested_storage_bytes_to_actual_storage_gib')
    ps = _params(fn)
    sto = [p for p in ps if _role(p) == 'storage' and not p.startswith('allow')]
    ctx.need(len(sto) == 1, f'requested_storage_bytes_to_actual_storage_gib: parameters {ps}')
    calls = [c for c in pf.calls_in(fn) if (pf.dotted(c.func) or '').endswith('_requested_to_actual_storage_bytes')]
    ctx.need(len(calls) == 2, 'requested_storage_bytes_to_actual_storage_gib: expected one per-cloud call each')
    for c in calls:
        ctx.check(bool(c.args) and pf.nsrc(c.args[0]) == sto[0], 'R5', f'{FU}::requested_storage_bytes_to_actual_storage_gib::{pf.dotted(c.func)}',
                  f'`{short(pf.nsrc(c), 70)}` is not applied to {sto[0]}', m.path, c.lineno)
    rets = [n for n in pf.walk_shallow(fn) if isinstance(n, ast.Return) and n.value is not None and not (isinstance(n.value, ast.Constant) and n.value.value is None)]
    ctx.need(len(rets) == 1, 'requested_storage_bytes_to_actual_storage_gib: expected one value-bearing return')
    rv = rets[0].value
    tgt = {pf.nsrc(t) for n in pf.walk_shallow(fn) if isinstance(n, ast.Assign) and any(n.value is c for c in calls) for t in n.targets}
    okr = isinstance(rv, ast.Call) and pf.dotted(rv.func) == 'round_storage_bytes_to_gib' and len(rv.args) == 1 and pf.nsrc(rv.args[0]) in tgt and len(tgt) == 1
    ctx.check(okr, 'R5', f'{FU}::requested_storage_bytes_to_actual_storage_gib::return',
              f'`{short(pf.nsrc(rets[0]), 70)}` is not round_storage_bytes_to_gib(<actual bytes of the request>)', m.path, rets[0].lineno)


# --------------------------------------------------------------------------------------
# R6: cloud dispatch agreement
# --------------------------------------------------------------------------------------


def _cloud_idents(stmts: Sequence[ast.stmt]) -> List[Tuple[str, str, int]]:
    out = []
    for st in stmts:
        if isinstance(st, ast.Assert):
            continue
        for n in ast.walk(st):
            name = None
            if isinstance(n, ast.Name):
                name = n.id
            elif isinstance(n, ast.Attribute):
                name = n.attr
            if name is None:
                continue
            low = name.lower()
            for c in CLOUDS:
                if low.startswith(c + '_') or low.startswith(c) and name[:len(c)].lower() == c and len(name) > len(c) and name[len(c)].isupper():
                    out.append((c, name, n.lineno))
    return out


def _check_dispatch_agreement(ctx: Ctx, rels: Sequence[str]) -> None:
    n_regions = 0
    for rel in rels:
        m = pf.load(rel)
        for qual, fn in m.functions():
            if rel == FE and qual != '_create_jobs':
                continue

            def visit(stmts: Sequence[ast.stmt]):
                nonlocal n_regions
                for i, st in enumerate(stmts):
                    if isinstance(st, ast.If):
                        c = _cloud_of_test(st.test)
                        if c is not None:
                            regions: List[Tuple[str, Sequence[ast.stmt]]] = [(c, st.body)]
                            if st.orelse:
                                oc = _cloud_of_test(st.orelse[0].test) if isinstance(st.orelse[0], ast.Assert) else None
                                if oc is None and not (len(st.orelse) == 1 and isinstance(st.orelse[0], ast.If)):
                                    oc = [x for x in CLOUDS if x != c][0]
                                if oc is not None:
                                    regions.append((oc, st.orelse))
                            else:
                                # `if cloud == X: return …` followed by `assert cloud == Y`
                                term = st.body and isinstance(st.body[-1], (ast.Return, ast.Raise))
                                rest = stmts[i + 1:]
                                if term and rest and isinstance(rest[0], ast.Assert) and _cloud_of_test(rest[0].test):
                                    regions.append((_cloud_of_test(rest[0].test), rest))  # type: ignore[arg-type]
                            for cloud, body in regions:
                                n_regions += 1
                                foreign = [(cc, name, ln) for cc, name, ln in _cloud_idents(body) if cc != cloud]
                                # nested dispatch inside the region is judged on its own
                                cons = f'{rel}::{qual}::{cloud} branch of `{short(pf.nsrc(st.test), 40)}`'
                                ctx.check(not foreign, 'R6', cons,
                                          (f'`{foreign[0][1]}` (a {foreign[0][0]} helper, line {foreign[0][2]}) is used where the cloud is {cloud}: requests on {cloud} are '
                                           f'sized / validated with {foreign[0][0]} tables') if foreign else '', m.path, st.lineno)
                    for fld in ('body', 'orelse', 'finalbody'):
                        sub = getattr(st, fld, None)
                        if isinstance(sub, list) and sub and isinstance(sub[0], ast.stmt) and not isinstance(st, (ast.FunctionDef, ast.AsyncFunctionDef, ast.ClassDef)):
                            visit(sub)
                    for h in getattr(st, 'handlers', []) or []:
                        visit(h.body)
            visit(fn.body)
    ctx.unit('cloud_dispatch_regions', n_regions)


def _check_memo(ctx: Ctx, mi: pf.Module) -> None:
    """R7: the selection must be made against the configs in force.  If select_inst_coll memoises its answers (`k in self.X` /
    `self.X[k] = result`), the key must cover every parameter and the memo must be emptied *after* the configs are replaced, with no
    suspension point in between; emptying it before an `await` lets a request handled during the await re-fill it from the old configs."""
    cls = mi.cls('InstanceCollectionConfigs')
    fn = mi.func('InstanceCollectionConfigs.select_inst_coll')
    memo = None
    for n in ast.walk(fn):
        if isinstance(n, ast.Compare) and len(n.ops) == 1 and isinstance(n.ops[0], ast.In) and isinstance(n.comparators[0], ast.Attribute) and pf.nsrc(n.comparators[0]).startswith('self.'):
            attr = pf.nsrc(n.comparators[0])
            writes = [a for a in ast.walk(fn) if isinstance(a, ast.Assign) and isinstance(a.targets[0], ast.Subscript) and pf.nsrc(a.targets[0].value) == attr]
            if writes:
                memo = (attr, n.left, n)
    if memo is None:
        ctx.ok('R7', f'{FI}::InstanceCollectionConfigs.select_inst_coll::not memoised', nontrivial=False)
        return
    attr, key, node = memo
    cons = f'{FI}::InstanceCollectionConfigs.select_inst_coll::memo {attr}'
    key = pf.resolve_expr(fn, key)
    parts = {pf.nsrc(x) for x in (key.elts if isinstance(key, ast.Tuple) else [key])}
    params = [a.arg for a in fn.args.args + fn.args.kwonlyargs if a.arg != 'self']
    missing = [p_ for p_ in params if p_ not in parts]
    ctx.check(not missing, 'R7', cons + '::key', f'memoised selections are keyed by {sorted(parts)} but the selection also depends on {missing}: requests differing only there get each other\'s placement',
              mi.path, node.lineno)
    # config attributes the selection reads
    cfg_attrs = {'self.name_pool_config', 'self.jpim_config', 'self.resource_rates', 'self.product_versions'}
    for q, f2 in mi.functions():
        if not q.startswith('InstanceCollectionConfigs.') or f2.name in ('__init__', 'select_inst_coll'):
            continue
        g = pf.cfg(f2)
        assigns = g.find(lambda n_: n_.kind == 'stmt' and isinstance(n_.ast, ast.Assign) and any(pf.nsrc(x) in cfg_attrs for t in n_.ast.targets for x in ast.walk(t)))
        if not assigns:
            continue
        clears = g.find(lambda n_: any(pf.dotted(c.func) == f'{attr}.clear' for c in pf.node_calls(n_)) or (isinstance(n_.ast, ast.Assign) and pf.nsrc(n_.ast.targets[0]) == attr))
        ok = bool(clears)
        why = 'the memo is never emptied when the configs are replaced'
        if ok:
            # some clear must come after every config assignment without an await in between
            for a in assigns:
                later = [c for c in clears if g.path_avoiding(a, lambda x, c=c: x is c, lambda x: pf.node_has_await(x)) is not None or a is c]
                if not later:
                    ok = False
                    why = (f'`{pf.nsrc(a.ast)[:50]}` is not followed by emptying {attr} before the next suspension point; the only clear happens earlier, so a selection computed '
                           'while the new configs were being loaded (during the await) is cached from the OLD configs and survives the refresh')
        ctx.check(ok, 'R7', f'{FI}::{q}::invalidates {attr}', f'{why}: later identical requests are placed (or rejected) according to pool configurations that are no longer in force',
                  mi.path, f2.lineno)
    raise AnalysisError('select_inst_coll is memoised: the dispatch table rules are not evaluated on the memoised shape')


def run(ctx: Ctx) -> None:
    ctx.explanation = ('Per pool-selection method: CFG must-pass-through (with branch polarity) of the cloud/preemptible/label/worker-type filters before a pool is used; '
                       'fits-one-worker guard and storage provenance of every returned placement; truth table of select_inst_coll; like-named argument plumbing and '
                       'tuple role order along front end -> select_inst_coll -> selector -> convert; max/ceil shape typing of the granted>=requested helpers; per-cloud dispatch agreement.')
    ctx.rule('R1', 'pool selectors use a pool only after pool.cloud/preemptible/label (and worker_type) equal the request; job-private checks the cloud', 8)
    ctx.rule('R2', 'every pool placement is guarded by cores_mcpu <= worker_cores*1000, has storage from the request (not None), memory raises cores before memory is derived', 10)
    ctx.rule('R3', 'rejection only after all pools; select_inst_coll dispatch table; front end maps None to HTTP 400 before use', 11)
    ctx.rule('R4', 'placement tuples are (name, cores, memory, storage) at every writer/reader; arguments go to like-named parameters along the chain', 17)
    ctx.rule('R5', 'granted >= requested shapes: max(cores, ceil(memory/per-core)), storage returns >= request, bytes->GiB rounds up', 15)
    ctx.rule('R6', 'in every cloud == X branch only X helpers are used (anchored modules)', 26)
    ctx.rule('R7', 'selection is computed against the configs in force: no memo, or a memo keyed by all parameters and emptied atomically after the configs are replaced', 1)
    ctx.assume('float arithmetic in adjust_cores_for_packability / cores<->memory conversions is not decided (numeric clause)')
    ctx.assume("the job validator admits no 'cloud' key, so the job's cloud equals the deployment CLOUD")
    mi = pf.load(FI)
    ctx.unit('files', 5)
    _check_memo(ctx, mi)
    facts = Facts()
    selectors = _check_selectors(ctx, mi, facts)
    _check_convert(ctx, mi, facts)
    _check_dispatch(ctx, mi, selectors)
    _check_front_end(ctx, mi)
    _check_shapes(ctx)
    _check_dispatch_agreement(ctx, [FI, FU, 'batch/batch/cloud/utils.py', FE])
