"""C13 Job billing never exceeds the instance and survives serialization.

Decides (from the syntax trees, nothing is run):
  R1  to_dict / from_dict round trip of every Resource subclass and both InstanceConfig subclasses: on the path from_dict takes
      for the dictionary the same class's to_dict writes (version tests evaluated with the written version), every `data[k]` read
      is a key the writer writes, the `type` / version assertions hold, and every constructor argument travels the cycle
      key k -> __init__ parameter -> self.attr -> to_dict[k] back to the same key (no swapped or dropped field); nested
      resources are written with to_dict and re-read through the cloud's dispatcher
  R2  dispatcher exhaustiveness: `<cloud>_resource_from_dict` maps every class TYPE of the module (TYPEs pairwise distinct) to that
      class's from_dict, and every resource class an instance config is created with is covered
  R3  superadditivity typing: every `to_quantified_resource` quantity (resolved through the MRO and super() calls), as a function of
      (cpu_in_mcpu, memory_in_bytes, worker_fraction_in_1024ths), is built only from parameters, non-negative-constant multiples, sums
      and floor division by positive constants; worker_fraction_in_1024ths is `1024*cpu // (cores*1000)` and the parameters are passed
      to the like-named keyword; such functions are monotone with sum f(x_i) <= f(sum x_i), which is the packing clause.
      ceil / max / min / additive constants / subtraction are violations.
Does not decide: "whole worker billed exactly", external (per-job) storage pricing, float prices.
"""
from __future__ import annotations

import ast
from typing import Dict, List, Optional, Sequence, Set, Tuple

from engines import absdom, c13facts as cf, pyfacts as pf
from engines.common import AnalysisError, Ctx, short

META = dict(
    category='other',
    text='Writer/reader agreement decided per class by abstractly executing from_dict on the symbolic dictionary written by to_dict (truth table over its '
         'tests), following each constructor argument through __init__ back to the written key; dispatcher tables compared with the set of classes; '
         'a small type system (superadditive monotone integer expressions) applied to every resolved quantity expression. Level `other`: the exact-whole-worker '
         'clause and prices are numeric and not decided.',
    note='Trusted: CPython ast; engines/absdom.walk_block. Assumes instance attributes used as factors (storage_in_gib, number, cores) are non-negative integers. '
         'Not decided: external storage (billed per job on top of the worker), rates, legacy-version branches of from_dict.',
    technique='static analysis: writer/reader table agreement + dispatch exhaustiveness + superadditivity typing of integer expressions',
    design_ref='DESIGN.md §3 C13',
)

F_RES = 'batch/batch/resources.py'
F_IC = 'batch/batch/instance_config.py'
CLOUD_FILES = {
    'gcp': ('batch/batch/cloud/gcp/resources.py', 'batch/batch/cloud/gcp/instance_config.py', 'gcp_resource_from_dict'),
    'azure': ('batch/batch/cloud/azure/resources.py', 'batch/batch/cloud/azure/instance_config.py', 'azure_resource_from_dict'),
}
PACK_PARAMS = ('cpu_in_mcpu', 'memory_in_bytes', 'worker_fraction_in_1024ths')
EXT_PARAM = 'external_storage_in_gib'


_methods = cf.methods


def _class_consts(cls: ast.ClassDef) -> Dict[str, ast.expr]:
    out = {}
    for s in cls.body:
        if isinstance(s, ast.Assign) and len(s.targets) == 1 and isinstance(s.targets[0], ast.Name):
            out[s.targets[0].id] = s.value
    return out


def _const_value(m: pf.Module, cls: ast.ClassDef, e: ast.AST):
    """Resolve self.X / Cls.X / GLOBAL / literal to a Python constant; raises KeyError if not resolvable."""
    if isinstance(e, ast.Constant):
        return e.value
    if isinstance(e, ast.Attribute) and isinstance(e.value, ast.Name) and e.value.id in ('self', 'cls', cls.name):
        cc = _class_consts(cls)
        if e.attr in cc and isinstance(cc[e.attr], ast.Constant):
            return cc[e.attr].value  # type: ignore[union-attr]
    if isinstance(e, ast.Name):
        try:
            v = m.global_assign(e.id)
        except AnalysisError:
            raise KeyError(e.id)
        if isinstance(v, ast.Constant):
            return v.value
    raise KeyError(pf.nsrc(e))


# --------------------------------------------------------------------------------------
# R1: round trip
# --------------------------------------------------------------------------------------


_CLASSES: cf.Classes = {}      # every analysed class (resource mixins, cloud resources, instance configs), filled by run()
_TYPED_DICTS: Set[str] = set()  # TypedDict classes of batch/batch/resources.py (QuantifiedResource): calling one builds a fresh dict


def _written(ctx: Ctx, m: pf.Module, cls: ast.ClassDef) -> Dict[str, ast.expr]:
    """key -> value expression over self.<attr> / constants that to_dict writes.  The body is evaluated abstractly (engines/c13facts.DictEval): locals,
    tuple unpacking, `d = {...}; d['k'] = v`, `d.update(...)`, `super().to_dict()` and same-class helpers are seen through; the written key set must
    be the same on every path."""
    if _CLASSES.get(cls.name, (None, None))[1] is not cls:
        fn = _methods(cls)['to_dict']
        rets = [n for n in pf.walk_shallow(fn) if isinstance(n, ast.Return)]
        ctx.need(len(rets) == 1 and rets[0].value is not None, f'{m.rel}::{cls.name}.to_dict: expected a single return')
        d = pf.resolve_expr(fn, rets[0].value)
        ctx.need(isinstance(d, ast.Dict), f'{m.rel}::{cls.name}.to_dict does not return a dict literal')
        out0: Dict[str, ast.expr] = {}
        for k, v in zip(d.keys, d.values):  # type: ignore[union-attr]
            ctx.need(k is not None and pf.const_str(k) is not None, f'{m.rel}::{cls.name}.to_dict: non-constant key')
            out0[pf.const_str(k)] = cf.expand(fn, v)  # type: ignore[index,arg-type]
        return out0
    ev = cf.DictEval(_CLASSES, cls.name, sorted(_TYPED_DICTS))
    paths = ev.run('to_dict')
    ctx.need(paths, f'{m.rel}::{cls.name}.to_dict: no path returns')
    out: Optional[Dict[str, ast.expr]] = None
    for p in paths:
        ctx.need(isinstance(p.result, cf.Obj) and not p.result.open, f'{m.rel}::{cls.name}.to_dict: a path returns `{p.result if not isinstance(p.result, ast.AST) else short(pf.nsrc(p.result), 40)}`, '
                 'not a dict with known keys')
        items = p.result.items  # type: ignore[union-attr]
        if out is None:
            out = dict(items)
        else:
            ctx.need({k: pf.nsrc(v) for k, v in out.items()} == {k: pf.nsrc(v) for k, v in items.items()},
                     f'{m.rel}::{cls.name}.to_dict writes different dictionaries on different paths (not a recognised shape)')
    return out or {}


def _init_map(ctx: Ctx, m: pf.Module, cls: ast.ClassDef) -> Tuple[List[str], Dict[str, str]]:
    """(constructor parameters, parameter -> attribute it is stored in)"""
    fn = _methods(cls).get('__init__')
    ctx.need(fn is not None, f'{m.rel}::{cls.name} has no __init__')
    params = [a.arg for a in fn.args.args][1:]  # type: ignore[union-attr]
    store: Dict[str, str] = {}
    for s in fn.body:  # type: ignore[union-attr]
        if isinstance(s, (ast.Assign, ast.AnnAssign)):
            tg = s.targets[0] if isinstance(s, ast.Assign) else s.target
            v = s.value
            if isinstance(tg, ast.Attribute) and isinstance(tg.value, ast.Name) and tg.value.id == 'self' and isinstance(v, ast.Name) and v.id in params:
                store.setdefault(v.id, tg.attr)
    return params, store


def _init_fn(cls: ast.ClassDef) -> Optional[pf.FuncDef]:
    fn = _methods(cls).get('__init__')
    if fn is not None:
        return fn
    for cn in cf.mro(cls.name, _CLASSES)[1:]:
        fn = _methods(_CLASSES[cn][1]).get('__init__')
        if fn is not None:
            return fn
    return None


def _param_info(fn: pf.FuncDef) -> Tuple[Dict[str, Optional[ast.expr]], Dict[str, ast.expr]]:
    """(parameter -> annotation, parameter -> default) of a constructor"""
    params = fn.args.args[1:]
    ann = {a.arg: a.annotation for a in params}
    dfl = dict(zip([a.arg for a in params][len(params) - len(fn.args.defaults):], fn.args.defaults))
    return ann, dfl


_COLLECTION_TYPES = ('Dict', 'dict', 'List', 'list', 'Mapping', 'MutableMapping', 'Sequence', 'Set', 'set', 'FrozenSet', 'frozenset', 'Iterable', 'Collection',
                     'typing.Dict', 'typing.List', 'typing.Mapping', 'typing.Sequence', 'typing.Set', 'OrderedDict', 'DefaultDict')


def _is_collection_annotation(a: Optional[ast.expr]) -> bool:
    if a is None:
        return False
    if isinstance(a, ast.Constant) and isinstance(a.value, str):
        try:
            a = ast.parse(a.value, mode='eval').body
        except SyntaxError:
            return False
    head = a.value if isinstance(a, ast.Subscript) else a
    return pf.dotted(head) in _COLLECTION_TYPES


# --- structural identity of from_dict o to_dict on one attribute ----------------------------------------------------------------------

_SUMMARISERS = ('next', 'min', 'max', 'len', 'sum', 'any', 'all')
_PASS_CALLS = ('iter', 'list', 'sorted', 'tuple', 'dict', 'reversed', 'set', 'frozenset')
_PASS_METHODS = ('values', 'items', 'keys', 'copy')


def _is_identity_on(h: ast.AST, attr: str, annotation: Optional[ast.expr]) -> bool:
    """h (an expression over self.*) denotes a value equal to self.<attr>: the attribute itself, a shallow / element-wise copy of it, a cast to its own
    annotated type, or json.loads(json.dumps(.)) around one of these."""
    if pf.nsrc(h) == f'self.{attr}':
        return True
    if isinstance(h, ast.Call):
        name = pf.dotted(h.func)
        if name in ('dict', 'list', 'tuple', 'set', 'copy.copy', 'copy.deepcopy', 'deepcopy') and len(h.args) == 1 and not h.keywords:
            if name in ('dict', 'list', 'set', 'tuple') and annotation is not None:
                head = annotation.value if isinstance(annotation, ast.Subscript) else annotation
                want = {'dict': ('Dict', 'dict', 'Mapping'), 'list': ('List', 'list', 'Sequence'), 'set': ('Set', 'set'), 'tuple': ('Tuple', 'tuple')}[name]
                if pf.dotted(head) not in want:
                    return False
            return _is_identity_on(h.args[0], attr, annotation)
        if name in ('int', 'str', 'bool', 'float') and len(h.args) == 1 and not h.keywords and annotation is not None and pf.dotted(annotation) == name:
            return _is_identity_on(h.args[0], attr, annotation)
        if name == 'json.loads' and len(h.args) == 1 and isinstance(h.args[0], ast.Call) and pf.dotted(h.args[0].func) == 'json.dumps' and len(h.args[0].args) == 1:
            return _is_identity_on(h.args[0].args[0], attr, annotation)
        if isinstance(h.func, ast.Attribute) and h.func.attr == 'copy' and not h.args and not h.keywords:
            return _is_identity_on(h.func.value, attr, annotation)
    if isinstance(h, ast.DictComp) and len(h.generators) == 1 and not h.generators[0].ifs:
        g = h.generators[0]
        if isinstance(g.iter, ast.Call) and isinstance(g.iter.func, ast.Attribute) and g.iter.func.attr == 'items' and not g.iter.args and isinstance(g.target, ast.Tuple) \
                and len(g.target.elts) == 2 and pf.nsrc(h.key) == pf.nsrc(g.target.elts[0]) and pf.nsrc(h.value) == pf.nsrc(g.target.elts[1]):
            return _is_identity_on(g.iter.func.value, attr, annotation)
    if isinstance(h, (ast.ListComp,)) and len(h.generators) == 1 and not h.generators[0].ifs and pf.nsrc(h.elt) == pf.nsrc(h.generators[0].target):
        return _is_identity_on(h.generators[0].iter, attr, annotation)
    return False


def _attr_occurrences(W: Dict[str, ast.expr], attr: str) -> List[Tuple[str, str, ast.AST]]:
    """Every occurrence of self.<attr> in the written values, classified by what reaches the dictionary:
       'whole'    the attribute itself (possibly through copies / views that keep every element),
       'summary'  one element or one aggregate of it (subscript, .get(k), next(iter(.)), min / max / len / sum ...): many-to-one,
       'other'    anything else (mapped, combined, passed to a function) - not classified.
    Returns (key, class, the outermost sub-expression that still is the summary / whole value)."""
    out: List[Tuple[str, str, ast.AST]] = []
    for key, root in W.items():
        par: Dict[int, ast.AST] = {}
        for p in ast.walk(root):
            for c in ast.iter_child_nodes(p):
                par[id(c)] = p
        for n in ast.walk(root):
            if not (isinstance(n, ast.Attribute) and isinstance(n.value, ast.Name) and n.value.id == 'self' and n.attr == attr):
                continue
            node: ast.AST = n
            kind = 'whole'
            top: ast.AST = n
            while node is not root:
                p = par[id(node)]
                if isinstance(p, ast.Subscript) and p.value is node:
                    if isinstance(p.slice, ast.Slice) and p.slice.lower is None and p.slice.upper is None and p.slice.step is None:
                        pass
                    else:
                        kind, top = 'summary', p
                        break
                elif isinstance(p, ast.Subscript):
                    # self.other[self.attr]: used as an index
                    kind = 'other'
                    break
                elif isinstance(p, ast.Attribute) and p.value is node:
                    gp = par.get(id(p))
                    if isinstance(gp, ast.Call) and gp.func is p and p.attr in _PASS_METHODS:
                        node = p   # the call is looked at next
                    elif isinstance(gp, ast.Call) and gp.func is p and p.attr == 'get':
                        kind, top = 'summary', gp
                        break
                    else:
                        kind = 'other'
                        break
                elif isinstance(p, ast.Call) and p.func is node:
                    pass
                elif isinstance(p, ast.Call) and node in p.args:
                    name = pf.dotted(p.func)
                    if name in _SUMMARISERS:
                        kind, top = 'summary', p
                        break
                    if name in _PASS_CALLS and len(p.args) == 1 and not p.keywords:
                        pass
                    else:
                        kind = 'other'
                        break
                else:
                    kind = 'other'
                    break
                node = p
                top = p
            if kind == 'whole' and node is root and not _is_identity_on(root, attr, None):
                # e.g. list(self.attr.keys()): a view that drops the values
                kind = 'other'
            out.append((key, kind, top))
    return out


def _compose(a2: ast.AST, data: str, W: Dict[str, ast.expr]) -> Tuple[ast.AST, List[str]]:
    """from_dict's argument expression with every data[k] / data.get(k) replaced by what to_dict writes under k; also the keys read."""
    import copy
    keys: List[str] = []

    class T(ast.NodeTransformer):
        def visit_Subscript(self, node):
            k = _data_key(node, data)
            if k is not None and k in W:
                keys.append(k)
                return copy.deepcopy(W[k])
            return self.generic_visit(node)

        def visit_Call(self, node):
            k = _data_key(node, data)
            if k is not None and k in W:
                keys.append(k)
                return copy.deepcopy(W[k])
            return self.generic_visit(node)
    return T().visit(copy.deepcopy(a2)), keys


def _data_key(e: ast.AST, data: str) -> Optional[str]:
    if isinstance(e, ast.Subscript) and isinstance(e.value, ast.Name) and e.value.id == data:
        return pf.const_str(e.slice)
    if isinstance(e, ast.Call) and isinstance(e.func, ast.Attribute) and e.func.attr == 'get' and isinstance(e.func.value, ast.Name) \
            and e.func.value.id == data and e.args:
        return pf.const_str(e.args[0])
    return None


def _check_roundtrip(ctx: Ctx, m: pf.Module, cls: ast.ClassDef, dispatcher: Optional[str], billing_reads: Optional[Dict[str, str]] = None) -> None:
    """billing_reads: attribute -> an expression of the billing path that reads it (None: every attribute counts)."""
    C = cls.name
    meths = _methods(cls)
    W = _written(ctx, m, cls)
    params, store = _init_map(ctx, m, cls)
    ann, defaults = _param_info(meths['__init__'])
    fn = meths['from_dict']
    fparams = [a.arg for a in fn.args.args]
    ctx.need(len(fparams) == 1, f'{m.rel}::{C}.from_dict: parameters {fparams}')
    data = fparams[0]
    base = f'{m.rel}::{C}'

    def written_const(k: str):
        return _const_value(m, cls, W[k])

    # abstract execution of from_dict on data = to_dict(x)
    import copy

    def subst_names(e: ast.AST, env: Dict[str, ast.AST]) -> ast.AST:
        class T(ast.NodeTransformer):
            def visit_Name(self, node):
                if isinstance(node.ctx, ast.Load) and node.id in env:
                    return copy.deepcopy(env[node.id])
                return node

            def visit_ListComp(self, node):
                # comprehension variables shadow
                bound = {n.id for g in node.generators for n in ast.walk(g.target) if isinstance(n, ast.Name)}
                inner = {k: v for k, v in env.items() if k not in bound}
                return subst_names_shallow(node, inner)
        return T().visit(copy.deepcopy(e))

    def subst_names_shallow(node: ast.ListComp, env: Dict[str, ast.AST]) -> ast.AST:
        class T2(ast.NodeTransformer):
            def visit_Name(self, n):
                if isinstance(n.ctx, ast.Load) and n.id in env:
                    return copy.deepcopy(env[n.id])
                return n
        out = copy.deepcopy(node)
        out.elt = T2().visit(out.elt)
        for g in out.generators:
            g.iter = T2().visit(g.iter)
            g.ifs = [T2().visit(x) for x in g.ifs]
        return out

    def env_of(executed: Sequence[ast.stmt]) -> Dict[str, ast.AST]:
        env: Dict[str, ast.AST] = {}
        for s in executed:
            if isinstance(s, ast.Assign) and len(s.targets) == 1 and isinstance(s.targets[0], ast.Name):
                env[s.targets[0].id] = subst_names(s.value, env)
            elif isinstance(s, ast.AnnAssign) and isinstance(s.target, ast.Name) and s.value is not None:
                env[s.target.id] = subst_names(s.value, env)
        return env

    def atom_value(a0: ast.AST, env: Dict[str, ast.AST]) -> Optional[bool]:
        a = subst_names(a0, env)
        # data[k] == const
        if isinstance(a, ast.Compare) and len(a.ops) == 1 and isinstance(a.ops[0], (ast.Eq, ast.NotEq)):
            for x, y in ((a.left, a.comparators[0]), (a.comparators[0], a.left)):
                k = _data_key(x, data)
                if k is not None and k in W:
                    try:
                        eq = written_const(k) == _const_value(m, cls, y)
                    except KeyError:
                        return None
                    return eq if isinstance(a.ops[0], ast.Eq) else not eq
        # <data[k]> is None  where the writer writes a list / dict / constructor
        if isinstance(a, ast.Compare) and len(a.ops) == 1 and isinstance(a.ops[0], (ast.Is, ast.IsNot)) and pf.nsrc(a.comparators[0]) == 'None':
            k = _data_key(a.left, data)
            if k is not None and k in W and isinstance(W[k], (ast.List, ast.ListComp, ast.Dict, ast.DictComp, ast.Tuple)):
                return isinstance(a.ops[0], ast.IsNot)
        # 'k' in data
        if isinstance(a, ast.Compare) and len(a.ops) == 1 and isinstance(a.ops[0], (ast.In, ast.NotIn)) and pf.nsrc(a.comparators[0]) == data:
            k = pf.const_str(a.left)
            if k is not None:
                return (k in W) if isinstance(a.ops[0], ast.In) else (k not in W)
        return None

    atoms = absdom.collect_test_atoms(fn.body)
    ctx.need(not any(isinstance(n, (ast.For, ast.While, ast.Try)) for n in pf.walk_shallow(fn) if n is not fn), f'{base}.from_dict: loops/try are not a recognised shape')
    ctx.need(len(atoms) <= 5, f'{base}.from_dict: too many tests')
    free = [absdom.atom_key(a) for a in atoms]
    n_paths = 0
    problems: List[Tuple[str, str, int]] = []   # (role, message, line)
    oks: List[Tuple[str, object]] = []
    seen_paths: Set[Tuple[int, ...]] = set()
    for fv in absdom.valuations(free):
        executed: List[ast.stmt] = []

        def val(a: ast.AST) -> bool:
            v = atom_value(a, env_of(executed))
            return v if v is not None else fv[absdom.atom_key(a)]
        o = absdom.walk_block(fn.body, val, executed)
        sig = tuple(id(s) for s in executed)
        if sig in seen_paths:
            continue
        seen_paths.add(sig)
        n_paths += 1
        env_path = env_of(executed)

        def res(e: ast.AST) -> ast.AST:
            return subst_names(e, env_path)
        # reads and assertions
        for s in executed:
            for n in ast.walk(s):
                k = _data_key(n, data)
                if k is not None and k not in W:
                    optional = isinstance(n, ast.Call)  # data.get(k): tolerated, yields None
                    if not optional:
                        problems.append((f"reads data['{k}']", f"from_dict reads data['{k}'] but to_dict writes only {sorted(W)}: reloading a stored {C} raises KeyError", n.lineno))
                    else:
                        problems.append((f"reads data.get('{k}')", f"from_dict reads data.get('{k}') but to_dict never writes '{k}': the value is lost on reload", n.lineno))
            if isinstance(s, ast.Assert):
                conjs = s.test.values if isinstance(s.test, ast.BoolOp) and isinstance(s.test.op, ast.And) else [s.test]
                for cj in conjs:
                    v = atom_value(cj, env_of(executed[:executed.index(s)]))
                    if v is False:
                        problems.append((f'assert {short(pf.nsrc(cj), 60)}', f'`assert {short(pf.nsrc(cj), 70)}` fails for the dictionary this class\'s to_dict writes '
                                         f'(written: {", ".join(f"{k}={pf.nsrc(W[k])}" for k in W if k in pf.nsrc(cj))}): a stored {C} cannot be reloaded', s.lineno))
                    elif v is True:
                        oks.append((f'assert {short(pf.nsrc(cj), 60)}', None))
        if o.kind != 'return':
            problems.append(('falls through', f'from_dict ends by {o.kind} for the dictionary to_dict writes', fn.lineno))
            continue
        ret = o.node
        call = res(ret.value) if isinstance(ret, ast.Return) and ret.value is not None else None  # type: ignore[union-attr]
        ctx.need(isinstance(call, ast.Call) and pf.dotted(call.func) in (C, 'cls'), f'{base}.from_dict: does not return {C}(…)')
        pairs: List[Tuple[str, ast.AST]] = []
        for i, a in enumerate(call.args):  # type: ignore[union-attr]
            ctx.need(i < len(params) and not isinstance(a, ast.Starred), f'{base}.from_dict: constructor call does not match __init__{params}')
            pairs.append((params[i], a))
        for kw in call.keywords:  # type: ignore[union-attr]
            ctx.need(kw.arg in params, f'{base}.from_dict: keyword {kw.arg} is not an __init__ parameter')
            pairs.append((kw.arg, kw.value))  # type: ignore[arg-type]
        for p, a in pairs:
            role = f'{p} round trip'
            a2 = res(a)
            attr = store.get(p)
            ctx.need(attr is not None, f'{base}.__init__: parameter `{p}` is not stored in an attribute (unrecognised shape)')
            k = _data_key(a2, data)
            keys_for_attr = [kk for kk, vv in W.items() if pf.nsrc(vv) == f'self.{attr}']
            if k is not None:
                if k not in W:
                    continue  # reported above
                if pf.nsrc(W[k]) == f'self.{attr}':
                    oks.append((role, f"data['{k}'] -> {p} -> self.{attr} -> '{k}'"))
                else:
                    problems.append((role, f"from_dict passes data['{k}'] as `{p}` (stored in self.{attr}) but to_dict writes '{k}': {pf.nsrc(W[k])}"
                                     + (f" and self.{attr} under '{keys_for_attr[0]}'" if keys_for_attr else '')
                                     + f': after a store/reload {attr} holds a different field, so the reloaded config bills different quantities', a2.lineno))
                continue
            # nested resources
            if isinstance(a2, (ast.ListComp,)) and len(a2.generators) == 1:
                g = a2.generators[0]
                kk = _data_key(g.iter, data)
                wv = W.get(kk) if kk else None
                inner_ok = isinstance(a2.elt, ast.Call) and len(a2.elt.args) == 1 and pf.nsrc(a2.elt.args[0]) == pf.nsrc(g.target)
                disp = pf.dotted(a2.elt.func) if isinstance(a2.elt, ast.Call) else None
                w_ok = isinstance(wv, ast.ListComp) and isinstance(wv.elt, ast.Call) and isinstance(wv.elt.func, ast.Attribute) and wv.elt.func.attr == 'to_dict' \
                    and pf.nsrc(wv.generators[0].iter) == f'self.{attr}'
                if kk is None or wv is None:
                    problems.append((role, f'`{p}` is rebuilt from `{short(pf.nsrc(a2), 60)}`, which does not read a key to_dict writes', a2.lineno))
                elif not (inner_ok and w_ok):
                    problems.append((role, f"'{kk}' is written as `{short(pf.nsrc(wv), 60)}` and re-read as `{short(pf.nsrc(a2), 60)}`: not a to_dict / from_dict pair over self.{attr}", a2.lineno))
                elif dispatcher is not None and disp != dispatcher:
                    problems.append((role, f"'{kk}' is re-read with `{disp}` instead of this cloud's `{dispatcher}`: the resources cannot be rebuilt", a2.lineno))
                else:
                    oks.append((role, f"data['{kk}'] -> [{disp}(…)] -> {p} -> self.{attr} -> [r.to_dict()]"))
                continue
            if isinstance(a2, ast.Constant) and keys_for_attr:
                problems.append((role, f"on the path taken for a freshly written dictionary `{p}` is the constant {a2.value!r}, although to_dict writes self.{attr} under "
                                 f"'{keys_for_attr[0]}': the stored value is ignored on reload and the reloaded resource bills a different quantity", a2.lineno))
                continue
            # general case: compose from_dict's expression with what to_dict writes and compare with the attribute structurally
            h, keys_read = _compose(a2, data, W)
            if any(_data_key(n, data) is not None for n in ast.walk(h)):
                continue  # reads a key that is not written: reported above
            if keys_read and _is_identity_on(h, attr, ann.get(p)):
                oks.append((role, f"{'/'.join(sorted(set(keys_read)))} -> `{short(pf.nsrc(a2), 50)}` -> {p} -> self.{attr}: from_dict o to_dict is the identity on it"))
                continue
            occ = _attr_occurrences(W, attr)
            relevant = billing_reads is None or attr in billing_reads
            rebuilt_collection = isinstance(a2, (ast.DictComp, ast.ListComp, ast.SetComp)) or (isinstance(a2, ast.Call) and pf.dotted(a2.func) in ('dict', 'list', 'set'))
            if occ and all(k == 'summary' for _, k, _ in occ) and (_is_collection_annotation(ann.get(p)) or rebuilt_collection):
                ctx.need(relevant, f'{base}: self.{attr} is serialised through a summary only, but the billing path does not read it (not decided)')
                summ = '; '.join(sorted({f"'{k}' <- `{short(pf.nsrc(cf.expand(meths['to_dict'], t)), 90)}`" for k, _, t in occ}))
                reader = f' (billing reads `{billing_reads[attr]}`)' if billing_reads and attr in billing_reads else ''
                problems.append((role, f'self.{attr} is a collection{reader}, but to_dict writes only a summary of it - {summ} - i.e. one element / aggregate (many-to-one), and from_dict rebuilds '
                                 f'the whole collection from that with `{short(pf.nsrc(a2), 110)}` (one-to-many): two {C} objects that differ in any other element (e.g. two entries of '
                                 f'{attr} whose values diverge, such as two disk tiers with different product versions) serialise identically, so the reloaded object cannot equal both '
                                 f'and bills that element under a different resource name / quantity than the object it was stored from', a2.lineno))
                continue
            if not occ and relevant and not any(k in keys_read for k in W):
                raise AnalysisError(f'{base}.from_dict: `{p}` is computed by `{short(pf.nsrc(a2), 50)}`, which reads nothing to_dict writes (not a recognised shape)')
            raise AnalysisError(f'{base}.from_dict: argument `{short(pf.nsrc(a2), 50)}` for `{p}` is not a recognised shape')
        missing = [p for p in params if p not in [q for q, _ in pairs]]
        for p in list(missing):
            # a parameter with a default that from_dict never passes: the reloaded object always carries the default
            if p in defaults and store.get(p) is not None:
                attr = store[p]
                keys_for_attr = [kk for kk, vv in W.items() if pf.nsrc(vv) == f'self.{attr}']
                relevant = billing_reads is None or attr in billing_reads
                if keys_for_attr or relevant:
                    problems.append((f'{p} round trip', f'on the path taken for a freshly written dictionary from_dict never passes `{p}`, so the reloaded {C} has self.{attr} = '
                                     f'{pf.nsrc(defaults[p])} (the default)'
                                     + (f" although to_dict writes self.{attr} under '{keys_for_attr[0]}'" if keys_for_attr else f' and to_dict does not write self.{attr} at all')
                                     + (f'; the billing path reads it (`{billing_reads[attr]}`)' if billing_reads and attr in billing_reads else '')
                                     + f': an object created with another value bills differently after a store / reload', ret.lineno))  # type: ignore[union-attr]
                    missing.remove(p)
                elif not relevant:
                    missing.remove(p)
        ctx.need(not missing, f'{base}.from_dict: constructor parameters {missing} not supplied')
    # type tag
    if 'type' in W:
        role = 'type tag'
        try:
            ok = pf.nsrc(W['type']) in ('self.TYPE', f'{C}.TYPE') and isinstance(_const_value(m, cls, W['type']), str)
        except KeyError:
            ok = False
        if ok:
            oks.append((role, pf.nsrc(W['type'])))
        else:
            problems.append((role, f"to_dict writes 'type': {pf.nsrc(W['type'])}, not this class's TYPE: the dispatcher rebuilds a different class", fn.lineno))
    seen: Set[str] = set()
    for role, msg, line in problems:
        if role in seen:
            continue
        seen.add(role)
        ctx.bad('R1', f'{base}::{role}', msg, m.path, line)
    for role, detail in oks:
        if role in seen:
            continue
        seen.add(role)
        ctx.ok('R1', f'{base}::{role}', detail)
    ctx.unit('from_dict_paths', n_paths)


# --------------------------------------------------------------------------------------
# R2: dispatchers
# --------------------------------------------------------------------------------------


def _check_dispatcher(ctx: Ctx, m: pf.Module, mic: pf.Module, name: str, concrete: List[ast.ClassDef]) -> None:
    fn = m.func(name)
    ps = [a.arg for a in fn.args.args]
    ctx.need(len(ps) == 1, f'{name}: parameters {ps}')
    data = ps[0]
    covered: Dict[str, int] = {}
    typ_var = None
    for st in fn.body:
        if isinstance(st, ast.Assign) and len(st.targets) == 1 and isinstance(st.targets[0], ast.Name) and _data_key(st.value, data) == 'type':
            typ_var = st.targets[0].id
    ctx.need(typ_var is not None, f"{name}: `typ = {data}['type']` not found")

    def tested_class(t: ast.AST) -> Optional[str]:
        if isinstance(t, ast.Compare) and len(t.ops) == 1 and isinstance(t.ops[0], ast.Eq):
            for x, y in ((t.left, t.comparators[0]), (t.comparators[0], t.left)):
                if isinstance(x, ast.Name) and x.id == typ_var and isinstance(y, ast.Attribute) and y.attr == 'TYPE' and isinstance(y.value, ast.Name):
                    return y.value.id
        return None

    def returned_class(r: ast.stmt) -> Optional[str]:
        if isinstance(r, ast.Return) and isinstance(r.value, ast.Call) and isinstance(r.value.func, ast.Attribute) and r.value.func.attr == 'from_dict' \
                and isinstance(r.value.func.value, ast.Name) and [pf.nsrc(a) for a in r.value.args] == [data]:
            return r.value.func.value.id
        return None
    if _table_dispatcher(ctx, m, fn, name, data, typ_var, concrete, covered):
        pass
    else:
        _chain_dispatcher(ctx, m, fn, name, data, tested_class, returned_class, covered)
    _dispatcher_tail(ctx, m, mic, fn, name, concrete, covered)


def _table_dispatcher(ctx: Ctx, m: pf.Module, fn: pf.FuncDef, name: str, data: str, typ_var: str, concrete: List[ast.ClassDef], covered: Dict[str, int]) -> bool:
    """Recognise  TABLE = {C.TYPE: C.from_dict ...};  return TABLE[typ](data)  (optionally memoised).  Returns False if the function is not table driven."""
    calls = [c for c in ast.walk(fn) if isinstance(c, ast.Call) and isinstance(c.func, ast.Subscript) and isinstance(c.func.value, ast.Name)
             and pf.nsrc(c.func.slice) == typ_var and [pf.nsrc(a) for a in c.args] == [data]]
    if len(calls) != 1:
        return False
    table = calls[0].func.value.id  # type: ignore[union-attr]
    tv = m.global_assign(table)
    classes: List[str] = []
    if isinstance(tv, ast.DictComp) and len(tv.generators) == 1 and isinstance(tv.generators[0].iter, (ast.Tuple, ast.List)):
        v = pf.nsrc(tv.generators[0].target)
        ctx.need(pf.nsrc(tv.key) == f'{v}.TYPE' and pf.nsrc(tv.value) == f'{v}.from_dict', f'{name}: table {table} is not {{C.TYPE: C.from_dict for C in (...)}}')
        classes = [pf.nsrc(x) for x in tv.generators[0].iter.elts]
    elif isinstance(tv, ast.Dict):
        for k, v in zip(tv.keys, tv.values):
            ctx.need(k is not None and pf.nsrc(k).endswith('.TYPE') and pf.nsrc(v).endswith('.from_dict'), f'{name}: table {table} entry {pf.nsrc(k) if k else None} not recognised')
            kc, vc = pf.nsrc(k)[:-5], pf.nsrc(v)[:-10]
            ctx.check(kc == vc, 'R2', f'{m.rel}::{name}::{kc}.TYPE', f'a dictionary tagged {kc}.TYPE is rebuilt with {vc}.from_dict', m.path, k.lineno)
            classes.append(kc)
    else:
        raise AnalysisError(f'{name}: dispatch table {table} has an unrecognised shape')
    for c in classes:
        covered[c] = tv.lineno
    # is the freshly built object what is returned on every path?  A value read back from a module-level container is a memo.
    fresh = calls[0]
    rets = [r for r in ast.walk(fn) if isinstance(r, ast.Return)]
    ctx.need(rets, f'{name}: no return')
    by_name = {c.name: c for c in concrete}
    for r in rets:
        if r.value is fresh:
            continue
        ctx.need(isinstance(r.value, ast.Name), f'{name}: return value `{pf.nsrc(r.value)}` not recognised')
        defs = [d for d in pf.assignments(fn).get(r.value.id, []) if isinstance(d, ast.AST)]
        memo_reads = []
        for d in defs:
            d2 = d.value if isinstance(d, ast.Assign) else d
            if d2 is fresh:
                continue
            if isinstance(d2, ast.Call) and isinstance(d2.func, ast.Attribute) and d2.func.attr == 'get' and isinstance(d2.func.value, ast.Name):
                memo_reads.append((d2.func.value.id, d2.args[0]))
            elif isinstance(d2, ast.Subscript) and isinstance(d2.value, ast.Name):
                memo_reads.append((d2.value.id, d2.slice))
            else:
                raise AnalysisError(f'{name}: `{r.value.id}` may hold `{pf.nsrc(d2)[:50]}` (not understood)')
        for cache, key in memo_reads:
            key = pf.resolve_expr(fn, key)
            kparts = key.elts if isinstance(key, ast.Tuple) else [key]
            kkeys = set()
            for kp in kparts:
                kp = pf.resolve_expr(fn, kp)
                dk = _data_key(kp, data)
                if dk is None:
                    raise AnalysisError(f'{name}: memo key part `{pf.nsrc(kp)}` is not a field of {data}')
                kkeys.add(dk)
            for cname in classes:
                cls = by_name.get(cname)
                if cls is None:
                    continue
                written = set(_written(ctx, m, cls))
                missing = sorted(k for k in written - kkeys if k not in ('type', 'format_version'))
                ctx.check(not missing, 'R2', f'{m.rel}::{name}::memo key covers {cname}', f'{name} returns objects memoised in `{cache}` under the key {sorted(kkeys)}, but a serialised {cname} also '
                          f'carries {missing}: two records that differ only there (e.g. disk size, accelerator count) are reloaded as the same object and bill the same quantity',
                          m.path, r.lineno)
    return True


def _chain_dispatcher(ctx: Ctx, m: pf.Module, fn: pf.FuncDef, name: str, data: str, tested_class, returned_class, covered: Dict[str, int]) -> None:
    pending: Optional[str] = None
    for st in fn.body:
        if isinstance(st, ast.Expr) and isinstance(st.value, ast.Constant):
            continue
        if isinstance(st, ast.Assign):
            continue
        if isinstance(st, ast.If):
            c = tested_class(st.test)
            ctx.need(c is not None and len(st.body) == 1 and not st.orelse, f'{name}: branch `{short(pf.nsrc(st.test), 50)}` is not `if typ == C.TYPE: return C.from_dict(data)`')
            rc = returned_class(st.body[0])
            ctx.need(rc is not None, f'{name}: branch for {c} does not return X.from_dict({data})')
            ctx.check(rc == c, 'R2', f'{m.rel}::{name}::{c}.TYPE', f'a dictionary tagged {c}.TYPE is rebuilt with {rc}.from_dict: the reloaded resource has another class '
                      'and bills by another formula', m.path, st.lineno)
            covered[c] = st.lineno  # type: ignore[index]
        elif isinstance(st, ast.Assert):
            pending = tested_class(st.test)
            ctx.need(pending is not None, f'{name}: `{short(pf.nsrc(st), 50)}` is not `assert typ == C.TYPE`')
        elif isinstance(st, ast.Return):
            rc = returned_class(st)
            ctx.need(rc is not None and pending is not None, f'{name}: final return is not `assert typ == C.TYPE; return C.from_dict(data)`')
            ctx.check(rc == pending, 'R2', f'{m.rel}::{name}::{pending}.TYPE', f'a dictionary tagged {pending}.TYPE is rebuilt with {rc}.from_dict', m.path, st.lineno)
            covered[pending] = st.lineno  # type: ignore[index]
        else:
            raise AnalysisError(f'{name}: unrecognised statement `{short(pf.nsrc(st), 50)}`')


def _dispatcher_tail(ctx: Ctx, m: pf.Module, mic: pf.Module, fn: pf.FuncDef, name: str, concrete: List[ast.ClassDef], covered: Dict[str, int]) -> None:
    names = {c.name for c in concrete}
    for c in concrete:
        ctx.check(c.name in covered, 'R2', f'{m.rel}::{name}::covers {c.name}',
                  f'{name} has no branch for {c.name}.TYPE: an instance config containing a {c.name} cannot be reloaded (AssertionError / wrong class)', m.path, fn.lineno)
    ctx.need(set(covered) <= names, f'{name}: dispatches on unknown classes {sorted(set(covered) - names)}')
    # TYPE uniqueness
    types: Dict[str, str] = {}
    for c in concrete:
        t = _class_consts(c).get('TYPE')
        ctx.need(isinstance(t, ast.Constant) and isinstance(t.value, str), f'{c.name}.TYPE is not a string literal')
        other = types.get(t.value)  # type: ignore[union-attr]
        ctx.check(other is None, 'R2', f'{m.rel}::{c.name}.TYPE unique', f"{c.name}.TYPE == {other}.TYPE == '{t.value}': the dispatcher rebuilds the first one for both",  # type: ignore[union-attr]
                  m.path, c.lineno)
        types[t.value] = c.name  # type: ignore[union-attr]
    # every class an instance config is created with is covered
    used: Set[str] = set()
    for qual, f2 in mic.functions():
        if qual.endswith('.create'):
            for c in pf.calls_in(f2):
                if isinstance(c.func, ast.Attribute) and c.func.attr == 'create' and isinstance(c.func.value, ast.Name) and c.func.value.id in names:
                    used.add(c.func.value.id)
    ctx.need(used, f'{mic.rel}: no resource is created in InstanceConfig.create (anchor changed)')
    for u in sorted(used):
        ctx.check(u in covered, 'R2', f'{mic.rel}::create uses {u}', f'instance configs are created with {u} but {name} cannot rebuild it', mic.path, 0)


# --------------------------------------------------------------------------------------
# R3: superadditivity typing
# --------------------------------------------------------------------------------------


class NotSA(Exception):
    pass


def _is_const(e: ast.AST, consts: Set[str]) -> bool:
    """Non-negative integer constant expression (literals, instance attributes assumed non-negative, products/sums/powers thereof)."""
    if isinstance(e, ast.Constant):
        return isinstance(e.value, int) and not isinstance(e.value, bool) and e.value >= 0
    if isinstance(e, ast.Attribute) and isinstance(e.value, ast.Name) and e.value.id == 'self':
        return True
    if isinstance(e, ast.Name):
        return e.id in consts
    if isinstance(e, ast.BinOp) and isinstance(e.op, (ast.Mult, ast.Add, ast.Pow)):
        return _is_const(e.left, consts) and _is_const(e.right, consts)
    return False


def _is_pos_const(e: ast.AST, consts: Set[str]) -> bool:
    if isinstance(e, ast.Constant):
        return isinstance(e.value, int) and not isinstance(e.value, bool) and e.value > 0
    if isinstance(e, ast.Attribute) and isinstance(e.value, ast.Name) and e.value.id == 'self':
        return True  # e.g. self.cores: a machine has at least one core
    if isinstance(e, ast.BinOp) and isinstance(e.op, (ast.Mult, ast.Pow)):
        return _is_pos_const(e.left, consts) and _is_pos_const(e.right, consts)
    return False


def _sa(e: ast.AST, params: Sequence[str], subst: Dict[str, ast.AST], consts: Set[str]) -> Set[str]:
    """Type e as a monotone superadditive function of `params`; returns the parameters it depends on. Raises NotSA(reason)."""
    if isinstance(e, ast.Name):
        if e.id in params:
            return {e.id}
        if e.id in subst:
            return _sa(subst[e.id], params, subst, consts)
        raise NotSA(f'`{e.id}` is not a billing parameter')
    if isinstance(e, ast.Constant):
        if e.value == 0 and not isinstance(e.value, bool):
            return set()
        raise NotSA(f'additive constant {e.value!r}: k jobs are billed k x {e.value!r} but the whole worker only once')
    if isinstance(e, ast.BinOp):
        if isinstance(e.op, ast.Mult):
            if _is_const(e.left, consts) and _is_const(e.right, consts):
                raise NotSA(f'`{short(pf.nsrc(e), 60)}` is a per-job constant: k jobs are billed k times this amount but the whole worker only once')
            if _is_const(e.left, consts):
                return _sa(e.right, params, subst, consts)
            if _is_const(e.right, consts):
                return _sa(e.left, params, subst, consts)
            raise NotSA(f'product `{short(pf.nsrc(e), 60)}` has no constant factor')
        if isinstance(e.op, ast.FloorDiv):
            if _is_pos_const(e.right, consts):
                return _sa(e.left, params, subst, consts)
            raise NotSA(f'`{short(pf.nsrc(e), 60)}` floor-divides by a non-constant')
        if isinstance(e.op, ast.Add):
            return _sa(e.left, params, subst, consts) | _sa(e.right, params, subst, consts)
        if isinstance(e.op, ast.Sub):
            raise NotSA(f'subtraction in `{short(pf.nsrc(e), 60)}`')
        if isinstance(e.op, ast.Div):
            raise NotSA(f'true division in `{short(pf.nsrc(e), 60)}` (float; rounding direction unknown)')
        raise NotSA(f'operator {type(e.op).__name__} in `{short(pf.nsrc(e), 60)}`')
    if isinstance(e, ast.UnaryOp) and isinstance(e.op, ast.USub):
        raise NotSA(f'negation in `{short(pf.nsrc(e), 60)}`')
    if isinstance(e, ast.Call):
        f = pf.dotted(e.func) or pf.nsrc(e.func)
        if f in ('math.ceil', 'ceil', 'round_up_division'):
            raise NotSA(f'`{short(pf.nsrc(e), 60)}` rounds up: two jobs of half a unit are each billed a whole unit, together more than the worker')
        if f in ('max',):
            raise NotSA(f'`{short(pf.nsrc(e), 60)}` imposes a minimum charge per job: many small jobs together exceed the worker')
        if f in ('min', 'round', 'int', 'abs', 'math.floor'):
            raise NotSA(f'`{short(pf.nsrc(e), 60)}` ({f}) is not in the superadditive fragment')
        raise AnalysisError(f'superadditivity typing: unrecognised call `{short(pf.nsrc(e), 60)}`')
    raise AnalysisError(f'superadditivity typing: unrecognised expression `{short(pf.nsrc(e), 60)}`')


def _mro(cls_name: str, classes: Dict[str, Tuple[pf.Module, ast.ClassDef]]) -> List[str]:
    """C3 linearisation restricted to the analysed classes."""
    if cls_name not in classes:
        return []
    _, c = classes[cls_name]
    bases = [pf.dotted(b) for b in c.bases if pf.dotted(b) in classes]
    seqs = [_mro(b, classes) for b in bases] + [list(bases)]  # type: ignore[arg-type]
    out = [cls_name]
    seqs = [s for s in seqs if s]
    while seqs:
        for s in seqs:
            head = s[0]
            if not any(head in t[1:] for t in seqs):
                break
        else:
            raise AnalysisError(f'inconsistent MRO for {cls_name}')
        out.append(head)
        seqs = [[x for x in s if x != head] for s in seqs]
        seqs = [s for s in seqs if s]
    return out


def _quantities(ctx: Ctx, cls_name: str, classes: Dict[str, Tuple[pf.Module, ast.ClassDef]], start_after: Optional[str] = None) -> Tuple[str, List[Tuple[ast.AST, Dict[str, ast.AST], int]], pf.Module]:
    """Resolve to_quantified_resource through the MRO; return (defining class, [(quantity expr, local substitution, line)], module)."""
    order = _mro(cls_name, classes)
    if start_after is not None:
        order = order[order.index(start_after) + 1:]
    for cn in order:
        m, c = classes[cn]
        fn = _methods(c).get('to_quantified_resource')
        if fn is None:
            continue
        if any(pf.nsrc(d) in ('abc.abstractmethod', 'abstractmethod') for d in fn.decorator_list):
            continue
        ps = [a.arg for a in fn.args.args][1:]
        ctx.need(ps == list(PACK_PARAMS) + [EXT_PARAM], f'{m.rel}::{cn}.to_quantified_resource: parameters {ps}')
        out = []
        subst: Dict[str, ast.AST] = {}
        for name, vals in pf.assignments(fn).items():
            if len(vals) == 1 and isinstance(vals[0], ast.expr):
                subst[name] = vals[0]
        for r in [n for n in pf.walk_shallow(fn) if isinstance(n, ast.Return)]:
            if r.value is None or (isinstance(r.value, ast.Constant) and r.value.value is None):
                continue
            d = r.value
            ctx.need(isinstance(d, ast.Dict), f'{m.rel}::{cn}.to_quantified_resource: return `{short(pf.nsrc(r), 60)}` is not a dict literal')
            q = [v for k, v in zip(d.keys, d.values) if k is not None and pf.const_str(k) == 'quantity']  # type: ignore[union-attr]
            ctx.need(len(q) == 1, f"{m.rel}::{cn}.to_quantified_resource: no 'quantity'")
            out.append((q[0], subst, r.lineno))
        ctx.need(out, f'{m.rel}::{cn}.to_quantified_resource returns no quantity')
        return cn, out, m
    raise AnalysisError(f'{cls_name}: no concrete to_quantified_resource in its MRO')


def _expand_super(ctx: Ctx, e: ast.AST, subst: Dict[str, ast.AST], owner: str, cls_name: str, classes, depth: int = 3) -> ast.AST:
    """Replace X['quantity'] where X = super().to_quantified_resource(<own params in order>) by the parent's quantity expression."""
    class T(ast.NodeTransformer):
        def visit_Subscript(self, node):
            self.generic_visit(node)
            if pf.const_str(node.slice) == 'quantity' and isinstance(node.value, ast.Name) and node.value.id in subst:
                src = subst[node.value.id]
                if isinstance(src, ast.Call) and pf.nsrc(src.func) == 'super().to_quantified_resource':
                    args = [pf.nsrc(a) for a in src.args] + [pf.nsrc(k.value) for k in src.keywords]
                    ctx.need(args == list(PACK_PARAMS) + [EXT_PARAM] and all(k.arg in (None,) + PACK_PARAMS + (EXT_PARAM,) for k in src.keywords),
                             f'{owner}.to_quantified_resource: super() call does not forward the parameters unchanged')
                    ctx.need(depth > 0, 'super() chain too deep')
                    pcn, pq, _ = _quantities(ctx, cls_name, classes, start_after=owner)
                    ctx.need(len(pq) == 1, f'{pcn}.to_quantified_resource has several quantities (unsupported under super())')
                    inner, psub, _ = pq[0]
                    return _expand_super(ctx, inner, psub, pcn, cls_name, classes, depth - 1)
            return node
    import copy
    return T().visit(copy.deepcopy(e))


def _check_superadditive(ctx: Ctx, classes: Dict[str, Tuple[pf.Module, ast.ClassDef]], concrete: List[Tuple[pf.Module, ast.ClassDef]]) -> None:
    for m, c in concrete:
        owner, qs, mo = _quantities(ctx, c.name, classes)
        for q, subst, line in qs:
            cons = f'{m.rel}::{c.name}::quantity {short(pf.nsrc(q), 60)} (from {owner})'
            q2 = _expand_super(ctx, q, subst, owner, c.name, classes)
            names = pf.names_in(q2)
            # local names that stand for values derived only from the external storage are outside the packing clause
            def only_external(e: ast.AST, depth: int = 4) -> bool:
                ns = {n.id for n in ast.walk(e) if isinstance(n, ast.Name) and isinstance(n.ctx, ast.Load)}
                ns -= {'self'}
                for n in list(ns):
                    if n == EXT_PARAM:
                        continue
                    if n in PACK_PARAMS:
                        return False
                    if n in subst and depth > 0:
                        if not only_external(subst[n], depth - 1):
                            return False
                return True
            if not (names & set(PACK_PARAMS)) and only_external(q2) and (EXT_PARAM in {n for e in [q2] + [subst[x] for x in names if x in subst] for n in pf.names_in(e)}
                                                                        or any(EXT_PARAM in pf.names_in(subst[x]) for x in names if x in subst)):
                ctx.ok('R3', cons, 'depends only on the per-job external storage: outside the packing clause (not decided)', nontrivial=False)
                continue
            try:
                deps = _sa(q2, PACK_PARAMS, {k: v for k, v in subst.items() if k not in PACK_PARAMS}, set())
                ctx.ok('R3', cons, {'resolved': short(pf.nsrc(q2), 100), 'depends_on': sorted(deps)})
            except NotSA as e:
                ctx.bad('R3', cons, f'`{short(pf.nsrc(q2), 90)}` is not superadditive in (cpu, memory, worker fraction): {e}; e.g. the jobs filling one worker are '
                        'billed more of this resource than the whole worker', mo.path, line)
    # worker fraction and plumbing
    m = pf.load(F_IC)
    fn = m.func('InstanceConfig.quantified_resources')
    ps = [a.arg for a in fn.args.args][1:]
    ctx.need(len(ps) == 3, f'InstanceConfig.quantified_resources: parameters {ps}')
    wf = pf.single_def(fn, 'worker_fraction_in_1024ths')
    ctx.need(isinstance(wf, ast.expr), 'InstanceConfig.quantified_resources: worker_fraction_in_1024ths is not singly defined')
    cons = f'{F_IC}::InstanceConfig.quantified_resources::worker_fraction_in_1024ths'
    try:
        deps = _sa(wf, [ps[0]], {}, set())
        ok = deps == {ps[0]}
        ctx.check(ok, 'R3', cons, f'`{pf.nsrc(wf)}` does not depend on {ps[0]}', m.path, wf.lineno, detail={'expr': pf.nsrc(wf)})
    except NotSA as e:
        ctx.bad('R3', cons, f'`{pf.nsrc(wf)}` is not a superadditive function of {ps[0]}: {e}; per-worker resources (VM, disks, IP) billed to the jobs packed on a worker '
                'add up to more than the worker', m.path, wf.lineno)
    # exact shape: 1024 * cpu // (self.cores * 1000)  (whole worker == 1024)
    shape_ok = (isinstance(wf, ast.BinOp) and isinstance(wf.op, ast.FloorDiv) and pf.nsrc(wf.right) in ('self.cores * 1000', '1000 * self.cores')
                and pf.nsrc(wf.left) in (f'1024 * {ps[0]}', f'{ps[0]} * 1024'))
    ctx.check(shape_ok, 'R3', cons + '::scale', f'`{pf.nsrc(wf)}` is not 1024 * {ps[0]} // (self.cores * 1000): the fraction of a whole worker (cpu = cores*1000) '
              'is not 1024/1024ths, so static per-worker resources are over- or under-billed', m.path, wf.lineno)
    calls = [c for c in pf.calls_in(fn) if isinstance(c.func, ast.Attribute) and c.func.attr == 'to_quantified_resource']
    ctx.need(len(calls) == 1, 'InstanceConfig.quantified_resources: to_quantified_resource call not found')
    c = calls[0]
    want = {'cpu_in_mcpu': ps[0], 'memory_in_bytes': ps[1], 'worker_fraction_in_1024ths': 'worker_fraction_in_1024ths', EXT_PARAM: ps[2]}
    got: Dict[str, str] = {}
    for i, a in enumerate(c.args):
        got[(list(PACK_PARAMS) + [EXT_PARAM])[i]] = pf.nsrc(a)
    for k in c.keywords:
        ctx.need(k.arg is not None, 'quantified_resources: ** in call')
        got[k.arg] = pf.nsrc(k.value)  # type: ignore[index]
    ctx.check(got == want, 'R3', f'{F_IC}::InstanceConfig.quantified_resources::arguments of to_quantified_resource',
              f'parameters are passed as {got}, expected {want}: a quantity is computed from the wrong request dimension', m.path, c.lineno)
    # every resource of the config is billed exactly once: loop over self.resources, append when not None
    loops = [n for n in pf.walk_shallow(fn) if isinstance(n, ast.For)]
    ctx.need(len(loops) == 1 and pf.nsrc(loops[0].iter) == 'self.resources', 'InstanceConfig.quantified_resources: loop over self.resources not found')
    appends = [x for x in ast.walk(loops[0]) if isinstance(x, ast.Call) and isinstance(x.func, ast.Attribute) and x.func.attr in ('append', 'extend')]
    ctx.check(len(appends) == 1, 'R3', f'{F_IC}::InstanceConfig.quantified_resources::one entry per resource',
              f'{len(appends)} append/extend calls per resource in the loop: a resource is billed more than once (or never)', m.path, loops[0].lineno)


def run(ctx: Ctx) -> None:
    ctx.explanation = ('from_dict is executed abstractly on the symbolic dictionary written by to_dict of the same class (all test valuations that the written '
                       'constants do not decide), every constructor argument is followed through __init__ back to the written key; dispatch tables are compared with '
                       'the class set; quantity expressions are typed in a superadditive-monotone fragment.')
    ctx.rule('R1', 'to_dict/from_dict round trip per class: keys read are written, type/version assertions hold, each field returns to its own key', 66)
    ctx.rule('R2', 'resource dispatchers cover every class TYPE with that class\'s from_dict; TYPEs distinct; created resource classes covered', 56)
    ctx.rule('R3', 'every billed quantity is a monotone superadditive function of (cpu, memory, worker fraction); worker fraction = 1024*cpu // (cores*1000)', 18)
    ctx.assume('instance attributes used as factors/divisors (storage_in_gib, number, cores) are non-negative (cores positive) integers')
    ctx.assume('external storage is billed per job on top of the worker and is outside the packing clause')
    mres = pf.load(F_RES)
    classes: Dict[str, Tuple[pf.Module, ast.ClassDef]] = {c.name: (mres, c) for c in mres.classes()}
    all_concrete: List[Tuple[pf.Module, ast.ClassDef]] = []
    for cloud, (fres, fic, disp) in CLOUD_FILES.items():
        m = pf.load(fres)
        mic = pf.load(fic)
        ctx.unit('files', 2)
        for c in m.classes():
            classes[c.name] = (m, c)
        concrete = [c for c in m.classes() if 'TYPE' in _class_consts(c)]
        ctx.need(len(concrete) >= 4, f'{fres}: only {len(concrete)} resource classes with a TYPE')
        for c in concrete:
            meths = _methods(c)
            ctx.need('to_dict' in meths and 'from_dict' in meths, f'{fres}::{c.name} lacks to_dict/from_dict')
            _check_roundtrip(ctx, m, c, None)
            ctx.unit('classes')
            all_concrete.append((m, c))
        _check_dispatcher(ctx, m, mic, disp, concrete)
        ics = [c for c in mic.classes() if 'to_dict' in _methods(c) and 'from_dict' in _methods(c)]
        ctx.need(len(ics) == 1, f'{fic}: expected one InstanceConfig subclass with to_dict/from_dict')
        _check_roundtrip(ctx, mic, ics[0], disp)
        ctx.unit('classes')
    ctx.unit('files', 2)
    _check_superadditive(ctx, classes, all_concrete)
