"""C13 Job billing never exceeds the instance and survives serialization.

Decides (from the syntax trees, nothing is run):
  R1  to_dict / from_dict round trip of every Resource subclass and both InstanceConfig subclasses.  to_dict is evaluated abstractly
      (engines/c13facts.DictEval: locals, tuple unpacking, incremental construction, helpers, super()) into key -> expression over
      self.<attr>; from_dict is executed abstractly on that symbolic dictionary (version tests evaluated with the written version,
      accumulate loops read as comprehensions): every `data[k]` read is a key the writer writes, the `type` / version assertions hold,
      and for every constructor argument the composition from_dict o to_dict is STRUCTURALLY the identity on the attribute it is stored
      in (the attribute itself, element-wise copies, casts to its annotated type, nested to_dict / dispatcher pairs whose filters keep
      every resource class).  Reported: swapped / dropped / constant fields, a defaulted parameter that the reader no longer passes, a
      scalar written through a rounding function, and the LOSSY COLLECTION shape - a collection attribute read by the billing path of
      which to_dict writes only a summary (one element, next(iter()), min / max ...: many-to-one) from which from_dict rebuilds the
      whole collection (one-to-many).  A HAND-WRITTEN MEMO inside from_dict (a value kept in module- / class-level state under a key - G.get(k) / G[k] /
      k in G / try-except KeyError / setdefault - and handed to later dictionaries with the same key) makes the reloaded object depend on an EARLIER
      dictionary: the key must determine every serialised field the cached value is built from (identity-like key parts cover a field, len / min / [0]
      ... do not); then the read is replaced by the stored value and the round trip is judged as usual.
  R2  dispatcher exhaustiveness: `<cloud>_resource_from_dict` maps every class TYPE of the module (TYPEs pairwise distinct; TYPE
      attributes or literal tags) to that class's from_dict, and every resource class an instance config is created with is covered;
      a memoising dispatcher must key on every serialised field
  R3  superadditivity typing: every `to_quantified_resource` quantity - obtained by abstract evaluation through the MRO, super(),
      helpers, locals and in-place updates - as a function of (cpu_in_mcpu, memory_in_bytes, worker_fraction_in_1024ths) is built only
      from parameters, non-negative-constant multiples, sums and floor division by positive constants; worker_fraction_in_1024ths is
      `1024*cpu // (cores*1000)` - taken from the ARGUMENT passed for worker_fraction_in_1024ths with locals expanded and pure helpers (module functions
      of this or an imported repository module, methods, static methods) seen through, typed in the same fragment (a ceiling idiom (a + b - 1) // b,
      -(-a // b), math.ceil, round_up_division or a round-half-up is a violation whatever assertion on the core count is left) and compared as a
      quotient of monomials with 1024 x cpu / (1000 x self.cores) -, the other parameters reach the like-named keyword (through locals), and what
      InstanceConfig.quantified_resources does to each dict before appending it (loop form or comprehension form) stays in the fragment.  Such functions are monotone with sum f(x_i) <= f(sum x_i), which is
      the packing clause.  ceil / round / max / min / additive constants / subtraction are violations.
  R4  purity (necessary for "whole worker billed exactly" and for "reloaded config bills identically": the whole worker and a job are
      billed by the SAME function, a reloaded config starts with nothing cached): every dict value has a provenance - fresh / memo
      (returned by an lru_cache'd method, or kept by the method in self.<attr> / a module container) / state (read from there) - with
      aliasing through locals, super() and helper parameters.  Violations: an accumulating in-place update (x[k] op= e, x[k] = f(x[k]),
      update(), helper) or a destructive one of a non-fresh dict; an overwrite of a retained dict with a value that is not determined
      by what identifies that dict (memo key / instance); a hand-written memo whose key omits something the cached value depends on;
      an accumulating store into a field the bill reads; a consumer in the instance-config classes that changes a memoised result of
      quantified_resources in place.  A memo that nobody updates, and an in-place update of a dict built by the same call, are accepted.
      Also: the whole worker is quantified through quantified_resources at (self.cores * 1000, self.instance_memory(), 0).
  R5  every attribute of self that the billing path reads is set by __init__ from constructor parameters (whose round trip R1 decides)
      or other such attributes, or is a class constant / property: from_dict returns Cls(...), so anything else is lost on reload.
  R6  whole worker == the job that fills it: instance_memory() is the `memory` of the machine-table entry; the scheduler gives the job that fills a pool
      worker <cloud>_cores_mcpu_to_memory_bytes(cores*1000, ...) bytes.  Both are evaluated symbolically per table entry / comprehension (engines/c13facts.AffEval:
      affine forms k*cores + [lo, hi] with rounding slack, helpers and per-core tables followed) and must be the same form; a difference of at least one
      MiB (the billing unit of the memory resource) for every size is a violation, anything in between is undecided.  Entries that cannot be pool
      workers (no per-core figure, or a name the pool naming function does not produce) are skipped: there both sides read the same table entry.
Also R1: a collection-valued constructor argument that from_dict (R4: create) builds as a ONE-SHOT iterator (map / filter / generator expression / iter) and that
__init__ stores unmaterialised: the first traversal consumes it, so a reloaded (created) config bills nothing from the second quantification on.
Does not decide: external (per-job) storage pricing, float prices, legacy-version branches of from_dict, callers outside the analysed files.
"""
from __future__ import annotations

import ast
from typing import Dict, List, Optional, Sequence, Set, Tuple

from engines import absdom, c13facts as cf, pyfacts as pf
from engines.common import AnalysisError, Ctx, short

META = dict(
    category='other',
    text='Writer/reader agreement decided per class by abstractly executing from_dict on the symbolic dictionary written by to_dict (truth table over its '
         'tests) and comparing from_dict o to_dict with the identity structurally (many-to-one writer + one-to-many reader = lossy); dispatcher tables compared '
         'with the set of classes; to_quantified_resource executed abstractly through the MRO over symbolic dicts with provenance (fresh / memo / state) and '
         'aliasing: in-place updates of retained dicts, memo keys and stores into billed fields are classified, and the resulting quantity expressions are typed '
         'in a superadditive monotone fragment; the machine-table memory of every pool machine type is compared, as an affine form in the core count with rounding slack, '
         'with the per-core memory the scheduler gives jobs; reloaded / created collections must be re-iterable. Level `other`: prices are numeric and not decided; purity + scale give the whole-worker identity only under the '
         'stated assumptions.',
    note='Trusted: CPython ast; engines/absdom.walk_block; engines/c13facts.DictEval (abstract evaluation, declines outside its fragment). Assumes instance attributes used as '
         'factors (storage_in_gib, number, cores) are non-negative integers, that elements of a collection attribute vary independently, and that callers outside '
         'the analysed files only read the dicts returned by quantified_resources. Not decided: external storage (billed per job on top of the worker), rates, '
         'legacy-version branches of from_dict.',
    technique='static analysis: writer/reader table agreement with structural identity of the composition + dispatch exhaustiveness + alias/provenance analysis of '
              'returned dicts + superadditivity typing of integer expressions + affine normal forms of the memory tables',
    design_ref='DESIGN.md §3 C13',
)

F_RES = 'batch/batch/resources.py'
F_IC = 'batch/batch/instance_config.py'
CLOUD_FILES = {
    'gcp': ('batch/batch/cloud/gcp/resources.py', 'batch/batch/cloud/gcp/instance_config.py', 'gcp_resource_from_dict'),
    'azure': ('batch/batch/cloud/azure/resources.py', 'batch/batch/cloud/azure/instance_config.py', 'azure_resource_from_dict'),
}
PACK_PARAMS = ('cpu_in_mcpu', 'memory_in_bytes', 'worker_fraction_in_1024ths')
EXT_PARAM = 'external_storage_in_gib'


_methods = cf.methods


def _class_consts(cls: ast.ClassDef) -> Dict[str, ast.expr]:
    out = {}
    for s in cls.body:
        if isinstance(s, ast.Assign) and len(s.targets) == 1 and isinstance(s.targets[0], ast.Name):
            out[s.targets[0].id] = s.value
    return out


def _const_value(m: pf.Module, cls: ast.ClassDef, e: ast.AST):
    """Resolve self.X / Cls.X / GLOBAL / literal to a Python constant; raises KeyError if not resolvable."""
    if isinstance(e, ast.Constant):
        return e.value
    if isinstance(e, ast.Attribute) and isinstance(e.value, ast.Name) and e.value.id in ('self', 'cls', cls.name):
        cc = _class_consts(cls)
        if e.attr in cc and isinstance(cc[e.attr], ast.Constant):
            return cc[e.attr].value  # type: ignore[union-attr]
    if isinstance(e, ast.Name):
        try:
            v = m.global_assign(e.id)
        except AnalysisError:
            raise KeyError(e.id)
        if isinstance(v, ast.Constant):
            return v.value
    raise KeyError(pf.nsrc(e))


# --------------------------------------------------------------------------------------
# R1: round trip
# --------------------------------------------------------------------------------------


_CLASSES: cf.Classes = {}      # every analysed class (resource mixins, cloud resources, instance configs), filled by run()
_TYPED_DICTS: Set[str] = set()  # TypedDict classes of batch/batch/resources.py (QuantifiedResource): calling one builds a fresh dict


def _written(ctx: Ctx, m: pf.Module, cls: ast.ClassDef) -> Dict[str, ast.expr]:
    """key -> value expression over self.<attr> / constants that to_dict writes.  The body is evaluated abstractly (engines/c13facts.DictEval): locals,
    tuple unpacking, `d = {...}; d['k'] = v`, `d.update(...)`, `super().to_dict()` and same-class helpers are seen through; the written key set must
    be the same on every path."""
    if _CLASSES.get(cls.name, (None, None))[1] is not cls:
        fn = _methods(cls)['to_dict']
        rets = [n for n in pf.walk_shallow(fn) if isinstance(n, ast.Return)]
        ctx.need(len(rets) == 1 and rets[0].value is not None, f'{m.rel}::{cls.name}.to_dict: expected a single return')
        d = pf.resolve_expr(fn, rets[0].value)
        ctx.need(isinstance(d, ast.Dict), f'{m.rel}::{cls.name}.to_dict does not return a dict literal')
        out0: Dict[str, ast.expr] = {}
        for k, v in zip(d.keys, d.values):  # type: ignore[union-attr]
            ctx.need(k is not None and pf.const_str(k) is not None, f'{m.rel}::{cls.name}.to_dict: non-constant key')
            out0[pf.const_str(k)] = cf.expand(fn, v)  # type: ignore[index,arg-type]
        return out0
    ev = cf.DictEval(_CLASSES, cls.name, sorted(_TYPED_DICTS))
    paths = ev.run('to_dict')
    ctx.need(paths, f'{m.rel}::{cls.name}.to_dict: no path returns')
    out: Optional[Dict[str, ast.expr]] = None
    for p in paths:
        ctx.need(isinstance(p.result, cf.Obj) and not p.result.open, f'{m.rel}::{cls.name}.to_dict: a path returns `{p.result if not isinstance(p.result, ast.AST) else short(pf.nsrc(p.result), 40)}`, '
                 'not a dict with known keys')
        items = p.result.items  # type: ignore[union-attr]
        if out is None:
            out = dict(items)
        else:
            ctx.need({k: pf.nsrc(v) for k, v in out.items()} == {k: pf.nsrc(v) for k, v in items.items()},
                     f'{m.rel}::{cls.name}.to_dict writes different dictionaries on different paths (not a recognised shape)')
    return out or {}


def _init_map(ctx: Ctx, m: pf.Module, cls: ast.ClassDef) -> Tuple[List[str], Dict[str, str]]:
    """(constructor parameters, parameter -> attribute it is stored in)"""
    fn = _init_fn(cls)
    ctx.need(fn is not None, f'{m.rel}::{cls.name} has no __init__ (own or inherited from an analysed class)')
    params = [a.arg for a in fn.args.args][1:]  # type: ignore[union-attr]
    store: Dict[str, str] = {}
    for s in fn.body:  # type: ignore[union-attr]
        if isinstance(s, (ast.Assign, ast.AnnAssign)):
            tg = s.targets[0] if isinstance(s, ast.Assign) else s.target
            v = s.value
            if isinstance(tg, ast.Attribute) and isinstance(tg.value, ast.Name) and tg.value.id == 'self' and isinstance(v, ast.Name) and v.id in params:
                store.setdefault(v.id, tg.attr)
            elif isinstance(tg, ast.Attribute) and isinstance(tg.value, ast.Name) and tg.value.id == 'self' and _materialised_param(v, params) is not None:
                # self.x = list(x) / tuple(x) / [*x] / [e for e in x]: an eager element-wise copy of the parameter (same elements, re-iterable)
                pm = _materialised_param(v, params)
                store.setdefault(pm, tg.attr)  # type: ignore[arg-type]
                _MATERIALISED.add((cls.name, pm))  # type: ignore[arg-type]
    return params, store


_MATERIALISED: Set[Tuple[str, str]] = set()   # (class, constructor parameter) that __init__ copies into a list / tuple before storing it


def _materialised_param(v: ast.AST, params: Sequence[str]) -> Optional[str]:
    if isinstance(v, ast.Call) and pf.dotted(v.func) in ('list', 'tuple') and len(v.args) == 1 and not v.keywords and isinstance(v.args[0], ast.Name) and v.args[0].id in params:
        return v.args[0].id
    if isinstance(v, (ast.List, ast.Tuple)) and len(v.elts) == 1 and isinstance(v.elts[0], ast.Starred) and isinstance(v.elts[0].value, ast.Name) and v.elts[0].value.id in params:
        return v.elts[0].value.id
    if isinstance(v, ast.ListComp) and len(v.generators) == 1 and not v.generators[0].ifs and pf.nsrc(v.elt) == pf.nsrc(v.generators[0].target) \
            and isinstance(v.generators[0].iter, ast.Name) and v.generators[0].iter.id in params:
        return v.generators[0].iter.id
    return None


_LAZY_CALLS = ('map', 'filter', 'iter', 'zip', 'enumerate', 'reversed', 'itertools.chain', 'chain', 'itertools.islice', 'islice', 'itertools.starmap', 'itertools.filterfalse')


def _eager_form(e: ast.AST) -> Tuple[ast.AST, Optional[str]]:
    """(e with lazy single-pass constructions rewritten as the list comprehension that yields the same elements, what made it lazy or None).
    list(X) / tuple(X) / [*X] around a lazy X materialise it: the rewritten comprehension is returned with laziness None."""
    def fresh(avoid: ast.AST) -> str:
        used = pf.names_in(avoid)
        i = 0
        while f'_e{i}' in used:
            i += 1
        return f'_e{i}'

    def comp_of(x: ast.AST) -> Optional[ast.ListComp]:
        if isinstance(x, ast.GeneratorExp):
            return ast.copy_location(ast.ListComp(elt=x.elt, generators=x.generators), x)
        if isinstance(x, ast.Call) and pf.dotted(x.func) == 'map' and len(x.args) == 2 and not x.keywords:
            f, it = x.args
            while isinstance(it, ast.Call) and pf.dotted(it.func) == 'iter' and len(it.args) == 1 and not it.keywords:
                it = it.args[0]
            v = fresh(x)
            if isinstance(f, ast.Lambda) and len(f.args.args) == 1 and not f.args.defaults and not f.args.vararg and not f.args.kwarg:
                tgt = f.args.args[0].arg
                elt: ast.AST = f.body
            elif isinstance(f, (ast.Name, ast.Attribute)):
                tgt = v
                elt = ast.Call(func=f, args=[ast.Name(id=v, ctx=ast.Load())], keywords=[])
            else:
                return None
            return ast.copy_location(ast.fix_missing_locations(ast.ListComp(elt=elt, generators=[ast.comprehension(target=ast.Name(id=tgt, ctx=ast.Store()), iter=it, ifs=[], is_async=0)])), x)
        if isinstance(x, ast.Call) and pf.dotted(x.func) == 'iter' and len(x.args) == 1 and not x.keywords:
            if isinstance(x.args[0], ast.ListComp):
                return x.args[0]
            inner = comp_of(x.args[0])
            if inner is not None:
                return inner
            v = fresh(x)
            return ast.copy_location(ast.fix_missing_locations(ast.ListComp(elt=ast.Name(id=v, ctx=ast.Load()), generators=[ast.comprehension(target=ast.Name(id=v, ctx=ast.Store()), iter=x.args[0], ifs=[], is_async=0)])), x)
        return None
    if isinstance(e, ast.Call) and pf.dotted(e.func) in ('list', 'tuple') and len(e.args) == 1 and not e.keywords:
        c = comp_of(e.args[0])
        if c is not None:
            return c, None
        return e, None
    if isinstance(e, (ast.List, ast.Tuple)) and len(e.elts) == 1 and isinstance(e.elts[0], ast.Starred):
        c = comp_of(e.elts[0].value)
        if c is not None:
            return c, None
        return e, None
    c = comp_of(e)
    if c is not None:
        return c, ('a generator expression' if isinstance(e, ast.GeneratorExp) else f'`{pf.dotted(e.func)}(...)`')  # type: ignore[union-attr]
    if isinstance(e, ast.Call) and pf.dotted(e.func) in _LAZY_CALLS:
        return e, f'`{pf.dotted(e.func)}(...)`'
    return e, None


def _is_class_constant(m: pf.Module, cls: ast.ClassDef, e: ast.AST) -> bool:
    try:
        _const_value(m, cls, e)
        return True
    except KeyError:
        return False


def _init_fn(cls: ast.ClassDef) -> Optional[pf.FuncDef]:
    fn = _methods(cls).get('__init__')
    if fn is not None:
        return fn
    for cn in cf.mro(cls.name, _CLASSES)[1:]:
        fn = _methods(_CLASSES[cn][1]).get('__init__')
        if fn is not None:
            return fn
    return None


def _param_info(fn: pf.FuncDef) -> Tuple[Dict[str, Optional[ast.expr]], Dict[str, ast.expr]]:
    """(parameter -> annotation, parameter -> default) of a constructor"""
    params = fn.args.args[1:]
    ann = {a.arg: a.annotation for a in params}
    dfl = dict(zip([a.arg for a in params][len(params) - len(fn.args.defaults):], fn.args.defaults))
    return ann, dfl


_COLLECTION_TYPES = ('Dict', 'dict', 'List', 'list', 'Mapping', 'MutableMapping', 'Sequence', 'Set', 'set', 'FrozenSet', 'frozenset', 'Iterable', 'Collection',
                     'typing.Dict', 'typing.List', 'typing.Mapping', 'typing.Sequence', 'typing.Set', 'OrderedDict', 'DefaultDict')


def _is_collection_annotation(a: Optional[ast.expr]) -> bool:
    if a is None:
        return False
    if isinstance(a, ast.Constant) and isinstance(a.value, str):
        try:
            a = ast.parse(a.value, mode='eval').body
        except SyntaxError:
            return False
    head = a.value if isinstance(a, ast.Subscript) else a
    return pf.dotted(head) in _COLLECTION_TYPES


# --- structural identity of from_dict o to_dict on one attribute ----------------------------------------------------------------------

_SUMMARISERS = ('next', 'min', 'max', 'len', 'sum', 'any', 'all')
_PASS_CALLS = ('iter', 'list', 'sorted', 'tuple', 'dict', 'reversed', 'set', 'frozenset')
_PASS_METHODS = ('values', 'items', 'keys', 'copy')


def _is_identity_on(h: ast.AST, attr: str, annotation: Optional[ast.expr]) -> bool:
    """h (an expression over self.*) denotes a value equal to self.<attr>: the attribute itself, a shallow / element-wise copy of it, a cast to its own
    annotated type, or json.loads(json.dumps(.)) around one of these."""
    if pf.nsrc(h) == f'self.{attr}':
        return True
    if isinstance(h, ast.Call):
        name = pf.dotted(h.func)
        if name in ('dict', 'list', 'tuple', 'set', 'copy.copy', 'copy.deepcopy', 'deepcopy') and len(h.args) == 1 and not h.keywords:
            if name in ('dict', 'list', 'set', 'tuple') and annotation is not None:
                head = annotation.value if isinstance(annotation, ast.Subscript) else annotation
                want = {'dict': ('Dict', 'dict', 'Mapping'), 'list': ('List', 'list', 'Sequence'), 'set': ('Set', 'set'), 'tuple': ('Tuple', 'tuple')}[name]
                if pf.dotted(head) not in want:
                    return False
            return _is_identity_on(h.args[0], attr, annotation)
        if name in ('int', 'str', 'bool', 'float') and len(h.args) == 1 and not h.keywords and annotation is not None and pf.dotted(annotation) == name \
                and _is_identity_on(h.args[0], attr, annotation):
            return True
        if name in ('int', 'float') and len(h.args) == 1 and not h.keywords and annotation is not None and pf.dotted(annotation) == name and isinstance(h.args[0], ast.Call) \
                and pf.dotted(h.args[0].func) in ('str', 'repr') and len(h.args[0].args) == 1:
            return _is_identity_on(h.args[0].args[0], attr, annotation)   # int(str(x)) == x for an int
        if name == 'json.loads' and len(h.args) == 1 and isinstance(h.args[0], ast.Call) and pf.dotted(h.args[0].func) == 'json.dumps' and len(h.args[0].args) == 1:
            return _is_identity_on(h.args[0].args[0], attr, annotation)
        if isinstance(h.func, ast.Attribute) and h.func.attr == 'copy' and not h.args and not h.keywords:
            return _is_identity_on(h.func.value, attr, annotation)
    if isinstance(h, ast.DictComp) and len(h.generators) == 1 and not h.generators[0].ifs:
        g = h.generators[0]
        if isinstance(g.iter, ast.Call) and isinstance(g.iter.func, ast.Attribute) and g.iter.func.attr == 'items' and not g.iter.args and isinstance(g.target, ast.Tuple) \
                and len(g.target.elts) == 2 and pf.nsrc(h.key) == pf.nsrc(g.target.elts[0]) and pf.nsrc(h.value) == pf.nsrc(g.target.elts[1]):
            return _is_identity_on(g.iter.func.value, attr, annotation)
    if isinstance(h, (ast.ListComp,)) and len(h.generators) == 1 and not h.generators[0].ifs and pf.nsrc(h.elt) == pf.nsrc(h.generators[0].target):
        return _is_identity_on(h.generators[0].iter, attr, annotation)
    return False


def _attr_occurrences(W: Dict[str, ast.expr], attr: str) -> List[Tuple[str, str, ast.AST]]:
    """Every occurrence of self.<attr> in the written values, classified by what reaches the dictionary:
       'whole'    the attribute itself (possibly through copies / views that keep every element),
       'summary'  one element or one aggregate of it (subscript, .get(k), next(iter(.)), min / max / len / sum ...): many-to-one,
       'other'    anything else (mapped, combined, passed to a function) - not classified.
    Returns (key, class, the outermost sub-expression that still is the summary / whole value)."""
    out: List[Tuple[str, str, ast.AST]] = []
    for key, root in W.items():
        par: Dict[int, ast.AST] = {}
        for p in ast.walk(root):
            for c in ast.iter_child_nodes(p):
                par[id(c)] = p
        for n in ast.walk(root):
            if not (isinstance(n, ast.Attribute) and isinstance(n.value, ast.Name) and n.value.id == 'self' and n.attr == attr):
                continue
            node: ast.AST = n
            kind = 'whole'
            mapped = False
            top: ast.AST = n
            while node is not root:
                p = par[id(node)]
                if isinstance(p, ast.Subscript) and p.value is node:
                    if isinstance(p.slice, ast.Slice) and p.slice.lower is None and p.slice.upper is None and p.slice.step is None:
                        pass
                    else:
                        kind, top = 'summary', p
                        break
                elif isinstance(p, ast.Subscript):
                    # self.other[self.attr]: used as an index
                    kind = 'other'
                    break
                elif isinstance(p, ast.Attribute) and p.value is node:
                    gp = par.get(id(p))
                    if isinstance(gp, ast.Call) and gp.func is p and p.attr in _PASS_METHODS:
                        node = p   # the call is looked at next
                    elif isinstance(gp, ast.Call) and gp.func is p and p.attr == 'get':
                        kind, top = 'summary', gp
                        break
                    else:
                        kind = 'other'
                        break
                elif isinstance(p, ast.Call) and p.func is node:
                    pass
                elif isinstance(p, ast.comprehension) and p.iter is node and isinstance(par.get(id(p)), (ast.GeneratorExp, ast.ListComp, ast.SetComp)):
                    mapped = True          # each element is mapped; an enclosing min / max / next still keeps one value only
                    p = par[id(p)]
                elif isinstance(p, ast.Call) and node in p.args:
                    name = pf.dotted(p.func)
                    if name in _SUMMARISERS:
                        kind, top = 'summary', p
                        break
                    if name in _PASS_CALLS and len(p.args) == 1 and not p.keywords:
                        pass
                    else:
                        kind = 'other'
                        break
                else:
                    kind = 'other'
                    break
                node = p
                top = p
            if kind == 'whole' and node is root and (mapped or not _is_identity_on(root, attr, None)):
                # e.g. list(self.attr.keys()): a view that drops the values
                kind = 'other'
            out.append((key, kind, top))
    return out


def _compose(a2: ast.AST, data: str, W: Dict[str, ast.expr]) -> Tuple[ast.AST, List[str]]:
    """from_dict's argument expression with every data[k] / data.get(k) replaced by what to_dict writes under k; also the keys read."""
    import copy
    keys: List[str] = []

    class T(ast.NodeTransformer):
        def visit_Subscript(self, node):
            k = _data_key(node, data)
            if k is not None and k in W:
                keys.append(k)
                return copy.deepcopy(W[k])
            return self.generic_visit(node)

        def visit_Call(self, node):
            k = _data_key(node, data)
            if k is not None and k in W:
                keys.append(k)
                return copy.deepcopy(W[k])
            return self.generic_visit(node)
    out = T().visit(copy.deepcopy(a2))

    class Simplify(ast.NodeTransformer):
        # {'a': X, ...}['a'] -> X   (a nested dictionary written by to_dict and picked apart by from_dict)
        def visit_Subscript(self, node):
            self.generic_visit(node)
            k = pf.const_str(node.slice)
            if isinstance(node.value, ast.Dict) and k is not None:
                hits = [v for kk, v in zip(node.value.keys, node.value.values) if kk is not None and pf.const_str(kk) == k]
                if len(hits) == 1 and all(kk is not None for kk in node.value.keys):
                    return hits[0]
            return node
    return Simplify().visit(out), keys


def _data_key(e: ast.AST, data: str) -> Optional[str]:
    if isinstance(e, ast.Subscript) and isinstance(e.value, ast.Name) and e.value.id == data:
        return pf.const_str(e.slice)
    if isinstance(e, ast.Call) and isinstance(e.func, ast.Attribute) and e.func.attr == 'get' and isinstance(e.func.value, ast.Name) \
            and e.func.value.id == data and e.args:
        return pf.const_str(e.args[0])
    return None


def _walk_scoped(node: ast.AST, name: str):
    """ast.walk that does not enter the parts of a comprehension / lambda in which `name` is rebound (there it denotes something else)."""
    yield node
    if isinstance(node, (ast.ListComp, ast.SetComp, ast.DictComp, ast.GeneratorExp)):
        shadowed = False
        for g in node.generators:
            if not shadowed:
                yield from _walk_scoped(g.iter, name)
            if any(isinstance(x, ast.Name) and x.id == name for x in ast.walk(g.target)):
                shadowed = True
            if not shadowed:
                for t in g.ifs:
                    yield from _walk_scoped(t, name)
        if not shadowed:
            for part in ([node.key, node.value] if isinstance(node, ast.DictComp) else [node.elt]):
                yield from _walk_scoped(part, name)
        return
    if isinstance(node, ast.Lambda) and any(a.arg == name for a in node.args.args):
        return
    for c in ast.iter_child_nodes(node):
        yield from _walk_scoped(c, name)


def _filter_eval(t: ast.AST, var: str, cname: str, tag: str) -> Optional[bool]:
    """Truth of a comprehension filter for an element of class `cname` (serialised with type tag `tag`); None = not recognised."""
    def tag_of(e: ast.AST):
        if pf.const_str(e) is not None:
            return pf.const_str(e)
        if isinstance(e, ast.Attribute) and e.attr == 'TYPE':
            if pf.nsrc(e.value) in (var, f'type({var})'):
                return tag
            if isinstance(e.value, ast.Name) and e.value.id in _CLASSES:
                v = _class_consts(_CLASSES[e.value.id][1]).get('TYPE')
                return v.value if isinstance(v, ast.Constant) else None
        if isinstance(e, ast.Subscript) and pf.nsrc(e.value) == var and pf.const_str(e.slice) == 'type':
            return tag
        if isinstance(e, ast.Call) and isinstance(e.func, ast.Attribute) and e.func.attr == 'get' and pf.nsrc(e.func.value) == var and e.args and pf.const_str(e.args[0]) == 'type':
            return tag
        return None
    if isinstance(t, ast.UnaryOp) and isinstance(t.op, ast.Not):
        v = _filter_eval(t.operand, var, cname, tag)
        return None if v is None else not v
    if isinstance(t, ast.BoolOp):
        vs = [_filter_eval(x, var, cname, tag) for x in t.values]
        if any(v is None for v in vs):
            return None
        return all(vs) if isinstance(t.op, ast.And) else any(vs)
    if isinstance(t, ast.Call) and pf.dotted(t.func) == 'isinstance' and len(t.args) == 2 and pf.nsrc(t.args[0]) == var:
        cl = t.args[1].elts if isinstance(t.args[1], ast.Tuple) else [t.args[1]]
        names = [pf.dotted(x) for x in cl]
        if any(n is None or n not in _CLASSES for n in names):
            return None
        return any(n in cf.mro(cname, _CLASSES) for n in names)
    if isinstance(t, ast.Compare) and len(t.ops) == 1:
        op, a, b = t.ops[0], t.left, t.comparators[0]
        if isinstance(op, (ast.Eq, ast.NotEq)):
            x, y = tag_of(a), tag_of(b)
            if x is None or y is None:
                return None
            return (x == y) if isinstance(op, ast.Eq) else (x != y)
        if isinstance(op, (ast.In, ast.NotIn)) and isinstance(b, (ast.Tuple, ast.List, ast.Set)):
            x = tag_of(a)
            ys = [tag_of(e) for e in b.elts]
            if x is None or any(y is None for y in ys):
                return None
            return (x in ys) if isinstance(op, ast.In) else (x not in ys)
    return None


def _keyerror_try_as_if(stmts: Sequence[ast.stmt]) -> List[ast.stmt]:
    """`try: <x = G[k]> except KeyError: <fill>` (no else / finally, one handler) is read as `if k in G: <x = G[k]> else: <fill>`: the same paths for a
    dictionary lookup.  Anything else is left alone (the caller declines on try)."""
    out: List[ast.stmt] = []
    for st in stmts:
        if isinstance(st, ast.Try) and len(st.body) == 1 and len(st.handlers) == 1 and not st.orelse and not st.finalbody and pf.dotted(st.handlers[0].type or ast.Name(id='')) == 'KeyError' \
                and st.handlers[0].name is None and isinstance(st.body[0], (ast.Assign, ast.Return)) and isinstance(st.body[0].value, ast.Subscript) \
                and isinstance(st.body[0].value.value, (ast.Name, ast.Attribute)):
            sub = st.body[0].value
            test = ast.Compare(left=sub.slice, ops=[ast.In()], comparators=[sub.value])
            new = ast.If(test=test, body=list(st.body), orelse=_keyerror_try_as_if(st.handlers[0].body))
            out.append(ast.fix_missing_locations(ast.copy_location(new, st)))
            continue
        if isinstance(st, ast.If):
            import copy
            st = copy.copy(st)
            st.body = _keyerror_try_as_if(st.body)
            st.orelse = _keyerror_try_as_if(st.orelse)
        out.append(st)
    return out


_KEY_PASS_CALLS = ('bool', 'int', 'str', 'float', 'repr', 'tuple', 'frozenset', 'sorted', 'list', 'json.dumps', 'dumps', 'orjson.dumps')
_KEY_LOSSY_CALLS = ('len', 'min', 'max', 'sum', 'next', 'any', 'all', 'type', 'round', 'abs')


def _memo_key_verdict(m: pf.Module, cls: ast.ClassDef, W: Dict[str, ast.expr], data: str, key: ast.AST, value: ast.AST) -> Tuple[str, str]:
    """('ok' | 'bad' | 'undecided', explanation): does the memo key determine every field of the serialised dictionary that the cached value is computed from?
    key / value are expressions over `data` (the parameter of from_dict)."""
    covered: Set[str] = set()
    lossy: Dict[str, str] = {}
    whole = [False]
    unknown: List[str] = []

    def keys_in(e: ast.AST) -> Set[str]:
        return {k for n in _walk_scoped(e, data) for k in [_data_key(n, data)] if k is not None}

    def part(e: ast.AST) -> None:
        k = _data_key(e, data)
        if k is not None:
            covered.add(k)
        elif isinstance(e, ast.Name) and e.id == data:
            whole[0] = True
        elif isinstance(e, ast.Constant):
            pass
        elif isinstance(e, (ast.Tuple, ast.List)):
            for x in e.elts:
                part(x)
        elif isinstance(e, ast.JoinedStr):
            for x in e.values:
                if isinstance(x, ast.FormattedValue):
                    part(x.value)
        elif isinstance(e, ast.Call) and pf.dotted(e.func) in _KEY_PASS_CALLS and len(e.args) == 1:
            part(e.args[0])
        elif isinstance(e, ast.Call) and isinstance(e.func, ast.Attribute) and e.func.attr == 'items' and not e.args:
            part(e.func.value)
        elif (isinstance(e, ast.Call) and pf.dotted(e.func) in _KEY_LOSSY_CALLS) or (isinstance(e, ast.Subscript) and keys_in(e.value)):
            for kk in keys_in(e):
                lossy.setdefault(kk, short(pf.nsrc(e), 50))
        elif not keys_in(e) and not any(isinstance(n, ast.Name) and n.id == data for n in ast.walk(e)):
            pass      # does not involve the dictionary at all
        else:
            unknown.append(short(pf.nsrc(e), 50))
    part(key)
    if unknown:
        return 'undecided', f'key part `{unknown[0]}` is not classified (does it determine the fields it reads?)'
    if whole[0]:
        return 'ok', f'the key contains the whole dictionary `{data}`'
    uses_whole = any(True for _ in _bare_uses(value, data))
    deps = keys_in(value) | (set(W) if uses_whole else set())
    needed = sorted(k for k in deps - covered if k in W and not _is_class_constant(m, cls, W[k]))
    if not needed:
        return 'ok', f'key covers {sorted(deps & covered)}; the cached value reads {sorted(deps)}'
    # a needed field matters only if it can differ between two objects whose covered fields agree: it carries an attribute the covered fields do not
    cov_attrs = {cf.self_attr(n) for k in covered if k in W for n in ast.walk(W[k]) if cf.self_attr(n) is not None}
    indep = [k for k in needed if {cf.self_attr(n) for n in ast.walk(W[k]) if cf.self_attr(n) is not None} - cov_attrs]
    if not indep:
        return 'undecided', f'the cached value reads {needed}, which the key omits, but those fields are written from attributes the key fields also carry (dependent or not: not decided)'
    k0 = indep[0]
    how = f"only through `{lossy[k0]}` (many-to-one)" if k0 in lossy else 'not at all'
    return 'bad', (f"The cached value is built from data['{k0}'] (to_dict writes `{short(pf.nsrc(W[k0]), 70)}` there), which the key covers {how}: the key fields "
                   f"{sorted(covered)} do not determine it - two stored objects can agree on all of them and still differ in '{k0}'"
                   + (' (the resources carry the region and the price versions in their names, which none of the scalar fields do).' if k0 == 'resources' else '.'))


def _bare_uses(e: ast.AST, data: str):
    """occurrences of the name `data` that are not the base of data[k] / data.get(k)"""
    par: Dict[int, ast.AST] = {}
    for p in ast.walk(e):
        for c in ast.iter_child_nodes(p):
            par[id(c)] = p
    for n in _walk_scoped(e, data):
        if isinstance(n, ast.Name) and n.id == data and isinstance(n.ctx, ast.Load):
            p = par.get(id(n))
            if isinstance(p, ast.Subscript) and p.value is n:
                continue
            if isinstance(p, ast.Attribute) and p.value is n and p.attr == 'get':
                continue
            yield n


def _check_roundtrip(ctx: Ctx, m: pf.Module, cls: ast.ClassDef, dispatcher: Optional[str], billing_reads: Optional[Dict[str, str]] = None,
                     nested: Optional[List[Tuple[str, str]]] = None) -> None:
    """billing_reads: attribute -> an expression of the billing path that reads it (None: every attribute counts)."""
    pending: List[Tuple[str, str, int]] = []
    try:
        _check_roundtrip_inner(ctx, m, cls, dispatcher, billing_reads, nested, pending)
    except AnalysisError:
        # a shape the comparison does not recognise: what was already established as broken is still reported
        seen: Set[str] = set()
        for role, msg, line in pending:
            if role not in seen:
                seen.add(role)
                ctx.bad('R1', f'{m.rel}::{cls.name}::{role}', msg, m.path, line)
        raise


def _check_roundtrip_inner(ctx: Ctx, m: pf.Module, cls: ast.ClassDef, dispatcher: Optional[str], billing_reads: Optional[Dict[str, str]],
                           nested: Optional[List[Tuple[str, str]]], problems: List[Tuple[str, str, int]]) -> None:
    C = cls.name
    meths = _methods(cls)
    W = _written(ctx, m, cls)
    params, store = _init_map(ctx, m, cls)
    ann, defaults = _param_info(_init_fn(cls))  # type: ignore[arg-type]
    fn = meths['from_dict']
    fparams = [a.arg for a in fn.args.args]
    if any(pf.dotted(d) == 'classmethod' for d in fn.decorator_list) and fparams[:1] == ['cls']:
        fparams = fparams[1:]
    ctx.need(len(fparams) == 1, f'{m.rel}::{C}.from_dict: parameters {fparams}')
    data = fparams[0]
    base = f'{m.rel}::{C}'

    def written_const(k: str):
        return _const_value(m, cls, W[k])

    # abstract execution of from_dict on data = to_dict(x)
    import copy

    def subst_names(e: ast.AST, env: Dict[str, ast.AST]) -> ast.AST:
        class T(ast.NodeTransformer):
            def visit_Name(self, node):
                if isinstance(node.ctx, ast.Load) and node.id in env:
                    return copy.deepcopy(env[node.id])
                return node

            def visit_ListComp(self, node):
                # comprehension variables shadow
                bound = {n.id for g in node.generators for n in ast.walk(g.target) if isinstance(n, ast.Name)}
                inner = {k: v for k, v in env.items() if k not in bound}
                return subst_names_shallow(node, inner)

            visit_GeneratorExp = visit_ListComp
        return T().visit(copy.deepcopy(e))

    def subst_names_shallow(node: ast.ListComp, env: Dict[str, ast.AST]) -> ast.AST:
        class T2(ast.NodeTransformer):
            def visit_Name(self, n):
                if isinstance(n.ctx, ast.Load) and n.id in env:
                    return copy.deepcopy(env[n.id])
                return n
        out = copy.deepcopy(node)
        out.elt = T2().visit(out.elt)
        for g in out.generators:
            g.iter = T2().visit(g.iter)
            g.ifs = [T2().visit(x) for x in g.ifs]
        return out

    def env_of(executed: Sequence[ast.stmt]) -> Dict[str, ast.AST]:
        env: Dict[str, ast.AST] = {}
        for s in executed:
            if isinstance(s, ast.Assign) and len(s.targets) == 1 and isinstance(s.targets[0], ast.Name):
                env[s.targets[0].id] = subst_names(s.value, env)
            elif isinstance(s, ast.AnnAssign) and isinstance(s.target, ast.Name) and s.value is not None:
                env[s.target.id] = subst_names(s.value, env)
        return env

    def atom_value(a0: ast.AST, env: Dict[str, ast.AST]) -> Optional[bool]:
        a = subst_names(a0, env)
        # data[k] == const
        if isinstance(a, ast.Compare) and len(a.ops) == 1 and isinstance(a.ops[0], (ast.Eq, ast.NotEq)):
            for x, y in ((a.left, a.comparators[0]), (a.comparators[0], a.left)):
                k = _data_key(x, data)
                if k is not None and k in W:
                    try:
                        eq = written_const(k) == _const_value(m, cls, y)
                    except KeyError:
                        return None
                    return eq if isinstance(a.ops[0], ast.Eq) else not eq
        # <data[k]> is None  where the writer writes a list / dict / constructor
        if isinstance(a, ast.Compare) and len(a.ops) == 1 and isinstance(a.ops[0], (ast.Is, ast.IsNot)) and pf.nsrc(a.comparators[0]) == 'None':
            k = _data_key(a.left, data)
            if k is not None and k in W and isinstance(W[k], (ast.List, ast.ListComp, ast.Dict, ast.DictComp, ast.Tuple)):
                return isinstance(a.ops[0], ast.IsNot)
        # 'k' in data
        if isinstance(a, ast.Compare) and len(a.ops) == 1 and isinstance(a.ops[0], (ast.In, ast.NotIn)) and pf.nsrc(a.comparators[0]) == data:
            k = pf.const_str(a.left)
            if k is not None:
                return (k in W) if isinstance(a.ops[0], ast.In) else (k not in W)
        return None

    body = cf.comprehend_loops(fn.body)   # `acc = {}; for x in it: acc[k] = v` is read as a comprehension
    body = _keyerror_try_as_if(body)       # `try: v = G[k] / except KeyError: ...` is read as `if k in G: ... else: ...`
    atoms = absdom.collect_test_atoms(body)
    ctx.need(not any(isinstance(n, (ast.For, ast.While, ast.Try)) for st0 in body for n in [st0] + list(pf.walk_shallow(st0))), f'{base}.from_dict: loops/try are not a recognised shape')
    ctx.need(len(atoms) <= 5, f'{base}.from_dict: too many tests')
    free = [absdom.atom_key(a) for a in atoms]
    n_paths = 0
    oks: List[Tuple[str, object]] = []          # problems: (role, message, line), owned by the caller
    seen_paths: Set[Tuple[int, ...]] = set()
    # hand-written memo inside from_dict: a value kept in module- / class-level state under a key and handed to later calls.  A hit returns what an EARLIER
    # dictionary with the same key produced, so the reloaded object is a function of the stored dictionary only if the key determines everything the cached
    # value was computed from.  Decided once per container; afterwards every read of the container is replaced by the value the function stores there.
    local_names = set(pf.assignments(fn))

    def container_of(e: ast.AST) -> Optional[str]:
        if isinstance(e, ast.Name) and e.id not in local_names and e.id != data:
            try:
                m.global_assign(e.id)
                return e.id
            except AnalysisError:
                return e.id if e.id in m.imports() else None
        if isinstance(e, ast.Attribute) and isinstance(e.value, ast.Name) and e.value.id in ('cls', C) and e.attr in _class_consts(cls):
            return f'{C}.{e.attr}'
        return None

    def store_of(st: ast.AST) -> Optional[Tuple[str, ast.AST, ast.AST]]:
        if isinstance(st, ast.Assign) and len(st.targets) == 1 and isinstance(st.targets[0], ast.Subscript) and container_of(st.targets[0].value) is not None:
            return container_of(st.targets[0].value), st.targets[0].slice, st.value  # type: ignore[return-value]
        return None

    # only containers this function itself fills are memos; a module-level table that is only read (a constant lookup table) is not state
    filled = {store_of(n)[0] for st0 in body for n in ast.walk(st0) if store_of(n) is not None}  # type: ignore[index]
    filled |= {container_of(n.func.value) for st0 in body for n in ast.walk(st0) if isinstance(n, ast.Call) and isinstance(n.func, ast.Attribute) and n.func.attr == 'setdefault'
               and container_of(n.func.value) is not None}

    def memo_read(e: ast.AST) -> Optional[Tuple[str, ast.AST, Optional[ast.AST]]]:
        """(container, key, value stored by the same expression) of G[k] / G.get(k[, d]) / G.setdefault(k, v)"""
        if isinstance(e, ast.Subscript) and isinstance(e.ctx, ast.Load) and container_of(e.value) in filled:
            return container_of(e.value), e.slice, None  # type: ignore[return-value]
        if isinstance(e, ast.Call) and isinstance(e.func, ast.Attribute) and container_of(e.func.value) in filled and e.args and not e.keywords:
            if e.func.attr == 'get' and len(e.args) in (1, 2):
                return container_of(e.func.value), e.args[0], None  # type: ignore[return-value]
            if e.func.attr == 'setdefault' and len(e.args) == 2:
                return container_of(e.func.value), e.args[0], e.args[1]  # type: ignore[return-value]
        return None
    memo_stores: Dict[str, Tuple[ast.AST, ast.AST, int]] = {}     # container -> (key, value stored) over `data`, line
    memo_active = [False]
    subst_plain = subst_names

    def subst_names(e: ast.AST, env: Dict[str, ast.AST]) -> ast.AST:  # noqa: F811
        out = subst_plain(e, env)
        if not memo_active[0] or not any(memo_read(n) is not None for n in ast.walk(out)):
            return out

        class M(ast.NodeTransformer):
            def visit(self, node):
                r = memo_read(node) if isinstance(node, (ast.Subscript, ast.Call)) else None
                if r is None:
                    return self.generic_visit(node)
                G, k, own = r
                if own is not None:
                    return self.visit(copy.deepcopy(own))      # setdefault(k, v): v on a miss, an earlier v on a hit (key judged below)
                if G not in memo_stores:
                    raise AnalysisError(f'{base}.from_dict reads `{short(pf.nsrc(node), 50)}` from state that this function does not fill (not followed)')
                k0, v0, _ = memo_stores[G]
                if pf.nsrc(k) != pf.nsrc(k0):
                    raise AnalysisError(f'{base}.from_dict: `{G}` is read under `{short(pf.nsrc(k), 40)}` but filled under `{short(pf.nsrc(k0), 40)}` (not a recognised memo)')
                return copy.deepcopy(v0)
        return M().visit(out)
    n_state = sum(1 for st0 in body for n in ast.walk(st0) if memo_read(n) is not None or store_of(n) is not None)
    if n_state:
        for fv in absdom.valuations(free):
            executed0: List[ast.stmt] = []

            def val0(a: ast.AST) -> bool:
                v = atom_value(a, env_of(executed0))
                return v if v is not None else fv[absdom.atom_key(a)]
            absdom.walk_block(body, val0, executed0)
            for i, st0 in enumerate(executed0):
                found = [store_of(st0)] if store_of(st0) is not None else []
                found += [r for n in ast.walk(st0) for r in [memo_read(n)] if r is not None and r[2] is not None]
                for G, k, v in found:  # type: ignore[misc]
                    env0 = env_of(executed0[:i])
                    kr, vr = subst_names(k, env0), subst_names(v, env0)
                    if any(memo_read(n) is not None for n in ast.walk(vr)):
                        raise AnalysisError(f'{base}.from_dict: the value stored in `{G}` is itself read from state (`{short(pf.nsrc(vr), 50)}`): not a recognised memo')
                    if G in memo_stores and (pf.nsrc(memo_stores[G][0]), pf.nsrc(memo_stores[G][1])) != (pf.nsrc(kr), pf.nsrc(vr)):
                        raise AnalysisError(f'{base}.from_dict fills `{G}` in two different ways (not a recognised memo)')
                    memo_stores[G] = (kr, vr, st0.lineno)
        for G, (kr, vr, line) in memo_stores.items():
            verdict = _memo_key_verdict(m, cls, W, data, kr, vr)
            role = f'memo {G} keyed by everything the cached value is built from'
            if verdict[0] == 'undecided':
                raise AnalysisError(f'{base}.from_dict: memo `{G}`: {verdict[1]}')
            if verdict[0] == 'ok':
                oks.append((role, verdict[1]))
            else:
                problems.append((role, f"from_dict keeps `{short(pf.nsrc(vr), 90)}` in `{G}` (state that outlives the call) under the key `{short(pf.nsrc(kr), 160)}` and hands the kept value to "
                                 f"every later dictionary with the same key. {verdict[1]} So the SECOND stored {C} with that key that a process reloads gets what the FIRST one's dictionary "
                                 f"produced: it bills the first one's resources / quantities, not the ones it was stored with (which one is wrong depends on load order; a single "
                                 f"from_dict(to_dict(x)) in a fresh process passes). A reloaded configuration does not bill identically to the one that was stored", line))
        memo_active[0] = True
    for fv in absdom.valuations(free):
        executed: List[ast.stmt] = []

        def val(a: ast.AST) -> bool:
            v = atom_value(a, env_of(executed))
            return v if v is not None else fv[absdom.atom_key(a)]
        o = absdom.walk_block(body, val, executed)
        sig = tuple(id(s) for s in executed)
        if sig in seen_paths:
            continue
        seen_paths.add(sig)
        n_paths += 1
        env_path = env_of(executed)

        def res(e: ast.AST) -> ast.AST:
            return subst_names(e, env_path)
        # reads and assertions
        for s in executed:
            for n in _walk_scoped(s, data):
                k = _data_key(n, data)
                if k is not None and k not in W:
                    optional = isinstance(n, ast.Call)  # data.get(k): tolerated, yields None
                    if not optional:
                        problems.append((f"reads data['{k}']", f"from_dict reads data['{k}'] but to_dict writes only {sorted(W)}: reloading a stored {C} raises KeyError", n.lineno))
                    else:
                        problems.append((f"reads data.get('{k}')", f"from_dict reads data.get('{k}') but to_dict never writes '{k}': the value is lost on reload", n.lineno))
            if isinstance(s, ast.Assert):
                conjs = s.test.values if isinstance(s.test, ast.BoolOp) and isinstance(s.test.op, ast.And) else [s.test]
                for cj in conjs:
                    v = atom_value(cj, env_of(executed[:executed.index(s)]))
                    if v is False:
                        problems.append((f'assert {short(pf.nsrc(cj), 60)}', f'`assert {short(pf.nsrc(cj), 70)}` fails for the dictionary this class\'s to_dict writes '
                                         f'(written: {", ".join(f"{k}={pf.nsrc(W[k])}" for k in W if k in pf.nsrc(cj))}): a stored {C} cannot be reloaded', s.lineno))
                    elif v is True:
                        oks.append((f'assert {short(pf.nsrc(cj), 60)}', None))
        if o.kind != 'return':
            problems.append(('falls through', f'from_dict ends by {o.kind} for the dictionary to_dict writes', fn.lineno))
            continue
        ret = o.node
        call = res(ret.value) if isinstance(ret, ast.Return) and ret.value is not None else None  # type: ignore[union-attr]
        ctx.need(isinstance(call, ast.Call) and pf.dotted(call.func) in (C, 'cls'), f'{base}.from_dict: does not return {C}(…)')
        pairs: List[Tuple[str, ast.AST]] = []
        for i, a in enumerate(call.args):  # type: ignore[union-attr]
            ctx.need(i < len(params) and not isinstance(a, ast.Starred), f'{base}.from_dict: constructor call does not match __init__{params}')
            pairs.append((params[i], a))
        for kw in call.keywords:  # type: ignore[union-attr]
            ctx.need(kw.arg in params, f'{base}.from_dict: keyword {kw.arg} is not an __init__ parameter')
            pairs.append((kw.arg, kw.value))  # type: ignore[arg-type]
        for p, a in pairs:
            role = f'{p} round trip'
            a2 = res(a)
            attr = store.get(p)
            ctx.need(attr is not None, f'{base}.__init__: parameter `{p}` is not stored in an attribute (unrecognised shape)')
            a2, lazy = _eager_form(a2)
            if lazy is not None:
                role2 = f'{p} reloaded as a re-iterable collection'
                if (C, p) in _MATERIALISED:
                    oks.append((role2, f'from_dict passes {lazy}, __init__ copies it into a list before storing self.{attr}'))
                elif billing_reads is not None and attr not in billing_reads:
                    pass   # never traversed by the billing path
                else:
                    reader = f' (billing: `{billing_reads[attr]}`)' if billing_reads and attr in billing_reads else ' (InstanceConfig.quantified_resources: `for resource in self.resources`)' if attr == 'resources' else ''
                    problems.append((role2, f"from_dict passes {lazy} - `{short(pf.nsrc(res(a)), 90)}` - as `{p}`, and __init__ stores it unchanged in self.{attr}: that is a ONE-SHOT iterator, "
                                     f"not the list the original object holds. The first traversal of self.{attr}{reader} on the reloaded object consumes it, every later traversal sees "
                                     f"nothing. History: store, reload, bill two jobs (or call to_dict / is_valid_configuration first): the second quantification returns no entries for "
                                     f"these elements while the original object keeps billing them - a reloaded configuration does not bill identical quantities. Materialise it "
                                     f"(list comprehension / list(...))", a2.lineno))
            k = _data_key(a2, data)
            keys_for_attr = [kk for kk, vv in W.items() if pf.nsrc(vv) == f'self.{attr}']
            if k is not None:
                if k not in W:
                    continue  # reported above
                w_attrs = {cf.self_attr(n) for n in ast.walk(W[k]) if cf.self_attr(n) is not None}
                if pf.nsrc(W[k]) == f'self.{attr}' or _is_identity_on(W[k], attr, ann.get(p)):
                    oks.append((role, f"data['{k}'] -> {p} -> self.{attr} -> '{k}'"))
                elif w_attrs == {attr}:
                    # the key carries a function of the right attribute: lossy if it rounds / truncates / clamps, otherwise not classified
                    lossy = [n for n in ast.walk(W[k]) if (isinstance(n, ast.BinOp) and isinstance(n.op, (ast.FloorDiv, ast.Mod, ast.RShift, ast.BitAnd)))
                             or (isinstance(n, ast.Call) and pf.dotted(n.func) in ('round', 'min', 'max', 'abs', 'math.floor', 'math.ceil', 'len', 'bool'))
                             or (isinstance(n, ast.Subscript) and isinstance(n.slice, ast.Slice))]
                    if not lossy:
                        raise AnalysisError(f"{base}.to_dict: '{k}' carries `{short(pf.nsrc(W[k]), 50)}`, a function of self.{attr} that is not recognised as invertible or lossy")
                    problems.append((role, f"to_dict writes '{k}': `{short(pf.nsrc(W[k]), 70)}`, a many-to-one function of self.{attr} (`{short(pf.nsrc(lossy[0]), 40)}`), and from_dict passes it back "
                                     f"as `{p}` unchanged: values of {attr} that differ below that granularity are reloaded as the same value, so the reloaded object bills a different "
                                     f"quantity than the one it was stored from", a2.lineno))
                else:
                    problems.append((role, f"from_dict passes data['{k}'] as `{p}` (stored in self.{attr}) but to_dict writes '{k}': {pf.nsrc(W[k])}"
                                     + (f" and self.{attr} under '{keys_for_attr[0]}'" if keys_for_attr else '')
                                     + f': after a store/reload {attr} holds a different field, so the reloaded config bills different quantities', a2.lineno))
                continue
            # nested resources
            def _nested_writer(v: Optional[ast.AST]) -> bool:
                return isinstance(v, ast.ListComp) and isinstance(v.elt, ast.Call) and isinstance(v.elt.func, ast.Attribute) and v.elt.func.attr == 'to_dict'
            if isinstance(a2, (ast.ListComp,)) and len(a2.generators) == 1 and (
                    isinstance(a2.elt, ast.Call) or _nested_writer(W.get(_data_key(a2.generators[0].iter, data) or ''))):
                g = a2.generators[0]
                kk = _data_key(g.iter, data)
                wv = W.get(kk) if kk else None
                inner_ok = isinstance(a2.elt, ast.Call) and len(a2.elt.args) == 1 and pf.nsrc(a2.elt.args[0]) == pf.nsrc(g.target)
                disp = pf.dotted(a2.elt.func) if isinstance(a2.elt, ast.Call) else None
                w_ok = isinstance(wv, ast.ListComp) and isinstance(wv.elt, ast.Call) and isinstance(wv.elt.func, ast.Attribute) and wv.elt.func.attr == 'to_dict' \
                    and pf.nsrc(wv.generators[0].iter) == f'self.{attr}'
                if kk is None or wv is None:
                    problems.append((role, f'`{p}` is rebuilt from `{short(pf.nsrc(a2), 60)}`, which does not read a key to_dict writes', a2.lineno))
                elif not (inner_ok and w_ok):
                    problems.append((role, f"'{kk}' is written as `{short(pf.nsrc(wv), 60)}` and re-read as `{short(pf.nsrc(a2), 60)}`: not a to_dict / from_dict pair over self.{attr}", a2.lineno))
                elif dispatcher is not None and disp != dispatcher:
                    problems.append((role, f"'{kk}' is re-read with `{disp}` instead of this cloud's `{dispatcher}`: the resources cannot be rebuilt", a2.lineno))
                elif len(wv.generators) != 1 or pf.nsrc(wv.elt.func.value) != pf.nsrc(wv.generators[0].target):  # type: ignore[union-attr]
                    raise AnalysisError(f"{base}.to_dict: '{kk}': `{short(pf.nsrc(wv), 60)}` is not `[r.to_dict() for r in self.{attr}]`")
                elif wv.generators[0].ifs or g.ifs:  # type: ignore[union-attr]
                    # a filter on either side: decided by enumerating the resource classes of this cloud (finite)
                    side, comp, var = ('to_dict', wv.generators[0], pf.nsrc(wv.generators[0].target)) if wv.generators[0].ifs else ('from_dict', g, pf.nsrc(g.target))  # type: ignore[union-attr]
                    ctx.need(nested is not None, f'{base}.{side}: filtered comprehension over the nested resources (no class list to enumerate)')
                    dropped = []
                    for cname, tag in nested or []:
                        vals = [_filter_eval(t, var, cname, tag) for t in comp.ifs]
                        ctx.need(all(v is not None for v in vals), f'{base}.{side}: filter `{short(pf.nsrc(comp.ifs[0]), 50)}` over the nested resources is not a recognised shape')
                        if not all(vals):
                            dropped.append(cname)
                    if dropped:
                        problems.append((role, f"{side} filters the nested resources with `{short(' and '.join(pf.nsrc(t) for t in comp.ifs), 80)}`, which drops every {', '.join(dropped)}: "
                                         f"a config that carries such a resource comes back without it, so the reloaded config no longer bills that resource (quantities differ after a "
                                         f"store / reload)", a2.lineno))
                    else:
                        oks.append((role, f"data['{kk}'] -> [{disp}(…)] -> {p} -> self.{attr} -> [r.to_dict()] (filter keeps every resource class)"))
                else:
                    oks.append((role, f"data['{kk}'] -> [{disp}(…)] -> {p} -> self.{attr} -> [r.to_dict()]"))
                continue
            if isinstance(a2, ast.Constant) and keys_for_attr:
                problems.append((role, f"on the path taken for a freshly written dictionary `{p}` is the constant {a2.value!r}, although to_dict writes self.{attr} under "
                                 f"'{keys_for_attr[0]}': the stored value is ignored on reload and the reloaded resource bills a different quantity", a2.lineno))
                continue
            # general case: compose from_dict's expression with what to_dict writes and compare with the attribute structurally
            h, keys_read = _compose(a2, data, W)
            if any(_data_key(n, data) is not None for n in ast.walk(h)):
                continue  # reads a key that is not written: reported above
            if keys_read and _is_identity_on(h, attr, ann.get(p)):
                oks.append((role, f"{'/'.join(sorted(set(keys_read)))} -> `{short(pf.nsrc(a2), 50)}` -> {p} -> self.{attr}: from_dict o to_dict is the identity on it"))
                continue
            # how does the rebuilt value h(self) depend on self.<attr>?  (occurrences inside the composition; keys that to_dict writes but from_dict ignores do not count)
            occ = [(k2, kind, top) for k2 in sorted(set(keys_read)) for (_k, kind, top) in _attr_occurrences({k2: W[k2]}, attr)]
            if len(occ) != len(_attr_occurrences({'h': h}, attr)):
                occ = [('?', 'other', h)]   # the attribute also enters through something the per-key view does not see
            relevant = billing_reads is None or attr in billing_reads
            rebuilt_collection = isinstance(a2, (ast.DictComp, ast.ListComp, ast.SetComp)) or (isinstance(a2, ast.Call) and pf.dotted(a2.func) in ('dict', 'list', 'set'))
            if occ and all(k == 'summary' for _, k, _ in occ) and (_is_collection_annotation(ann.get(p)) or rebuilt_collection):
                ctx.need(relevant, f'{base}: self.{attr} is serialised through a summary only, but the billing path does not read it (not decided)')
                summ = '; '.join(sorted({f"'{k}': `{short(pf.nsrc(W[k]), 130)}`" for k, _, _t in occ}))
                reader = f' (billing reads `{billing_reads[attr]}`)' if billing_reads and attr in billing_reads else ''
                problems.append((role, f'self.{attr} is a collection{reader}, but to_dict writes only a summary of it - {summ} - i.e. one element / aggregate (many-to-one), and from_dict rebuilds '
                                 f'the whole collection from that with `{short(pf.nsrc(a2), 110)}` (one-to-many): two {C} objects that differ in any other element (e.g. two entries of '
                                 f'{attr} whose values diverge, such as two disk tiers with different product versions) serialise identically, so the reloaded object cannot equal both '
                                 f'and bills that element under a different resource name / quantity than the object it was stored from', a2.lineno))
                continue
            if not occ and relevant and not any(k in keys_read for k in W):
                raise AnalysisError(f'{base}.from_dict: `{p}` is computed by `{short(pf.nsrc(a2), 50)}`, which reads nothing to_dict writes (not a recognised shape)')
            raise AnalysisError(f'{base}.from_dict: argument `{short(pf.nsrc(a2), 50)}` for `{p}` is not a recognised shape')
        missing = [p for p in params if p not in [q for q, _ in pairs]]
        for p in list(missing):
            # a parameter with a default that from_dict never passes: the reloaded object always carries the default
            if p in defaults and store.get(p) is not None:
                attr = store[p]
                keys_for_attr = [kk for kk, vv in W.items() if pf.nsrc(vv) == f'self.{attr}']
                relevant = billing_reads is None or attr in billing_reads
                if keys_for_attr or relevant:
                    problems.append((f'{p} round trip', f'on the path taken for a freshly written dictionary from_dict never passes `{p}`, so the reloaded {C} has self.{attr} = '
                                     f'{pf.nsrc(defaults[p])} (the default)'
                                     + (f" although to_dict writes self.{attr} under '{keys_for_attr[0]}'" if keys_for_attr else f' and to_dict does not write self.{attr} at all')
                                     + (f'; the billing path reads it (`{billing_reads[attr]}`)' if billing_reads and attr in billing_reads else '')
                                     + f': an object created with another value bills differently after a store / reload', ret.lineno))  # type: ignore[union-attr]
                    missing.remove(p)
                elif not relevant:
                    missing.remove(p)
        ctx.need(not missing, f'{base}.from_dict: constructor parameters {missing} not supplied')
    # type tag
    if 'type' in W:
        role = 'type tag'
        try:
            ok = pf.nsrc(W['type']) in ('self.TYPE', f'{C}.TYPE') and isinstance(_const_value(m, cls, W['type']), str)
        except KeyError:
            ok = False
        if ok:
            oks.append((role, pf.nsrc(W['type'])))
        else:
            problems.append((role, f"to_dict writes 'type': {pf.nsrc(W['type'])}, not this class's TYPE: the dispatcher rebuilds a different class", fn.lineno))
    seen: Set[str] = set()
    for role, msg, line in problems:
        if role in seen:
            continue
        seen.add(role)
        ctx.bad('R1', f'{base}::{role}', msg, m.path, line)
    for role, detail in oks:
        if role in seen:
            continue
        seen.add(role)
        ctx.ok('R1', f'{base}::{role}', detail)
    ctx.unit('from_dict_paths', n_paths)


# --------------------------------------------------------------------------------------
# R2: dispatchers
# --------------------------------------------------------------------------------------


def _class_of_type(concrete: List[ast.ClassDef], tag: Optional[str]) -> Optional[str]:
    hits = [c.name for c in concrete if isinstance(_class_consts(c).get('TYPE'), ast.Constant) and _class_consts(c)['TYPE'].value == tag]  # type: ignore[attr-defined]
    return hits[0] if len(hits) == 1 else None


def _check_dispatcher(ctx: Ctx, m: pf.Module, mic: pf.Module, name: str, concrete: List[ast.ClassDef]) -> None:
    fn = m.func(name)
    ps = [a.arg for a in fn.args.args]
    ctx.need(len(ps) == 1, f'{name}: parameters {ps}')
    data = ps[0]
    covered: Dict[str, int] = {}
    typ_var = None
    for st in fn.body:
        if isinstance(st, ast.Assign) and len(st.targets) == 1 and isinstance(st.targets[0], ast.Name) and _data_key(st.value, data) == 'type':
            typ_var = st.targets[0].id
    ctx.need(typ_var is not None, f"{name}: `typ = {data}['type']` not found")

    def tested_class(t: ast.AST) -> Optional[str]:
        if isinstance(t, ast.Compare) and len(t.ops) == 1 and isinstance(t.ops[0], ast.Eq):
            for x, y in ((t.left, t.comparators[0]), (t.comparators[0], t.left)):
                if isinstance(x, ast.Name) and x.id == typ_var and isinstance(y, ast.Attribute) and y.attr == 'TYPE' and isinstance(y.value, ast.Name):
                    return y.value.id
                if isinstance(x, ast.Name) and x.id == typ_var and pf.const_str(y) is not None:
                    return _class_of_type(concrete, pf.const_str(y)) or f'?{pf.const_str(y)}'  # a literal tag: the class that carries it (or '?tag': no class does)
        return None

    def returned_class(r: ast.stmt) -> Optional[str]:
        if isinstance(r, ast.Return) and isinstance(r.value, ast.Call) and isinstance(r.value.func, ast.Attribute) and r.value.func.attr == 'from_dict' \
                and isinstance(r.value.func.value, ast.Name) and [pf.nsrc(a) for a in r.value.args] == [data]:
            return r.value.func.value.id
        return None
    if _table_dispatcher(ctx, m, fn, name, data, typ_var, concrete, covered):
        pass
    else:
        _chain_dispatcher(ctx, m, fn, name, data, tested_class, returned_class, covered)
    _dispatcher_tail(ctx, m, mic, fn, name, concrete, covered)


def _table_dispatcher(ctx: Ctx, m: pf.Module, fn: pf.FuncDef, name: str, data: str, typ_var: str, concrete: List[ast.ClassDef], covered: Dict[str, int]) -> bool:
    """Recognise  TABLE = {C.TYPE: C.from_dict ...};  return TABLE[typ](data)  (optionally memoised).  Returns False if the function is not table driven."""
    calls = [c for c in ast.walk(fn) if isinstance(c, ast.Call) and isinstance(c.func, ast.Subscript) and isinstance(c.func.value, ast.Name)
             and pf.nsrc(c.func.slice) == typ_var and [pf.nsrc(a) for a in c.args] == [data]]
    if len(calls) != 1:
        return False
    table = calls[0].func.value.id  # type: ignore[union-attr]
    tv = m.global_assign(table)
    classes: List[str] = []
    if isinstance(tv, ast.DictComp) and len(tv.generators) == 1 and isinstance(tv.generators[0].iter, (ast.Tuple, ast.List)):
        v = pf.nsrc(tv.generators[0].target)
        ctx.need(pf.nsrc(tv.key) == f'{v}.TYPE' and pf.nsrc(tv.value) == f'{v}.from_dict', f'{name}: table {table} is not {{C.TYPE: C.from_dict for C in (...)}}')
        classes = [pf.nsrc(x) for x in tv.generators[0].iter.elts]
    elif isinstance(tv, ast.Dict):
        for k, v in zip(tv.keys, tv.values):
            lit = pf.const_str(k) if k is not None else None
            ctx.need(k is not None and (pf.nsrc(k).endswith('.TYPE') or (lit is not None and _class_of_type(concrete, lit) is not None)) and pf.nsrc(v).endswith('.from_dict'),
                     f'{name}: table {table} entry {pf.nsrc(k) if k else None} not recognised')
            kc, vc = (_class_of_type(concrete, lit) if lit is not None else pf.nsrc(k)[:-5]), pf.nsrc(v)[:-10]
            ctx.check(kc == vc, 'R2', f'{m.rel}::{name}::{kc}.TYPE', f'a dictionary tagged {kc}.TYPE is rebuilt with {vc}.from_dict', m.path, k.lineno)
            classes.append(kc)
    else:
        raise AnalysisError(f'{name}: dispatch table {table} has an unrecognised shape')
    for c in classes:
        covered[c] = tv.lineno
    # is the freshly built object what is returned on every path?  A value read back from a module-level container is a memo.
    fresh = calls[0]
    rets = [r for r in ast.walk(fn) if isinstance(r, ast.Return)]
    ctx.need(rets, f'{name}: no return')
    by_name = {c.name: c for c in concrete}
    for r in rets:
        if r.value is fresh:
            continue
        ctx.need(isinstance(r.value, ast.Name), f'{name}: return value `{pf.nsrc(r.value)}` not recognised')
        defs = [d for d in pf.assignments(fn).get(r.value.id, []) if isinstance(d, ast.AST)]
        memo_reads = []
        for d in defs:
            d2 = d.value if isinstance(d, ast.Assign) else d
            if d2 is fresh:
                continue
            if isinstance(d2, ast.Call) and isinstance(d2.func, ast.Attribute) and d2.func.attr == 'get' and isinstance(d2.func.value, ast.Name):
                memo_reads.append((d2.func.value.id, d2.args[0]))
            elif isinstance(d2, ast.Subscript) and isinstance(d2.value, ast.Name):
                memo_reads.append((d2.value.id, d2.slice))
            else:
                raise AnalysisError(f'{name}: `{r.value.id}` may hold `{pf.nsrc(d2)[:50]}` (not understood)')
        for cache, key in memo_reads:
            key = pf.resolve_expr(fn, key)
            kparts = key.elts if isinstance(key, ast.Tuple) else [key]
            kkeys = set()
            for kp in kparts:
                kp = pf.resolve_expr(fn, kp)
                dk = _data_key(kp, data)
                if dk is None:
                    raise AnalysisError(f'{name}: memo key part `{pf.nsrc(kp)}` is not a field of {data}')
                kkeys.add(dk)
            for cname in classes:
                cls = by_name.get(cname)
                if cls is None:
                    continue
                written = set(_written(ctx, m, cls))
                wmap = _written(ctx, m, cls)
                missing = sorted(k for k in written - kkeys if k not in ('type', 'format_version') and not _is_class_constant(m, cls, wmap[k]))
                ctx.check(not missing, 'R2', f'{m.rel}::{name}::memo key covers {cname}', f'{name} returns objects memoised in `{cache}` under the key {sorted(kkeys)}, but a serialised {cname} also '
                          f'carries {missing}: two records that differ only there (e.g. disk size, accelerator count) are reloaded as the same object and bill the same quantity',
                          m.path, r.lineno)
    return True


def _chain_dispatcher(ctx: Ctx, m: pf.Module, fn: pf.FuncDef, name: str, data: str, tested_class, returned_class, covered: Dict[str, int]) -> None:
    pending: Optional[str] = None
    for st in fn.body:
        if isinstance(st, ast.Expr) and isinstance(st.value, ast.Constant):
            continue
        if isinstance(st, ast.Assign):
            continue
        if isinstance(st, ast.If):
            c = tested_class(st.test)
            ctx.need(c is not None and len(st.body) == 1 and not st.orelse, f'{name}: branch `{short(pf.nsrc(st.test), 50)}` is not `if typ == C.TYPE: return C.from_dict(data)`')
            rc = returned_class(st.body[0])
            ctx.need(rc is not None, f'{name}: branch for {c} does not return X.from_dict({data})')
            if c.startswith('?'):  # type: ignore[union-attr]
                continue  # a tag no class writes (legacy alias or typo): covers nothing; a class left uncovered is reported below
            ctx.check(rc == c, 'R2', f'{m.rel}::{name}::{c}.TYPE', f'a dictionary tagged {c}.TYPE is rebuilt with {rc}.from_dict: the reloaded resource has another class '
                      'and bills by another formula', m.path, st.lineno)
            covered[c] = st.lineno  # type: ignore[index]
        elif isinstance(st, ast.Assert):
            pending = tested_class(st.test)
            ctx.need(pending is not None, f'{name}: `{short(pf.nsrc(st), 50)}` is not `assert typ == C.TYPE`')
        elif isinstance(st, ast.Return):
            rc = returned_class(st)
            ctx.need(rc is not None and pending is not None, f'{name}: final return is not `assert typ == C.TYPE; return C.from_dict(data)`')
            ctx.check(rc == pending, 'R2', f'{m.rel}::{name}::{pending}.TYPE', f'a dictionary tagged {pending}.TYPE is rebuilt with {rc}.from_dict', m.path, st.lineno)
            covered[pending] = st.lineno  # type: ignore[index]
        else:
            raise AnalysisError(f'{name}: unrecognised statement `{short(pf.nsrc(st), 50)}`')


def _dispatcher_tail(ctx: Ctx, m: pf.Module, mic: pf.Module, fn: pf.FuncDef, name: str, concrete: List[ast.ClassDef], covered: Dict[str, int]) -> None:
    names = {c.name for c in concrete}
    for c in concrete:
        ctx.check(c.name in covered, 'R2', f'{m.rel}::{name}::covers {c.name}',
                  f'{name} has no branch for {c.name}.TYPE: an instance config containing a {c.name} cannot be reloaded (AssertionError / wrong class)', m.path, fn.lineno)
    ctx.need(set(covered) <= names, f'{name}: dispatches on unknown classes {sorted(set(covered) - names)}')
    # TYPE uniqueness
    types: Dict[str, str] = {}
    for c in concrete:
        t = _class_consts(c).get('TYPE')
        ctx.need(isinstance(t, ast.Constant) and isinstance(t.value, str), f'{c.name}.TYPE is not a string literal')
        other = types.get(t.value)  # type: ignore[union-attr]
        ctx.check(other is None, 'R2', f'{m.rel}::{c.name}.TYPE unique', f"{c.name}.TYPE == {other}.TYPE == '{t.value}': the dispatcher rebuilds the first one for both",  # type: ignore[union-attr]
                  m.path, c.lineno)
        types[t.value] = c.name  # type: ignore[union-attr]
    # every class an instance config is created with is covered
    used: Set[str] = set()
    for qual, f2 in mic.functions():
        if qual.endswith('.create'):
            for c in pf.calls_in(f2):
                if isinstance(c.func, ast.Attribute) and c.func.attr == 'create' and isinstance(c.func.value, ast.Name) and c.func.value.id in names:
                    used.add(c.func.value.id)
    ctx.need(used, f'{mic.rel}: no resource is created in InstanceConfig.create (anchor changed)')
    for u in sorted(used):
        ctx.check(u in covered, 'R2', f'{mic.rel}::create uses {u}', f'instance configs are created with {u} but {name} cannot rebuild it', mic.path, 0)


# --------------------------------------------------------------------------------------
# R3: superadditivity typing
# --------------------------------------------------------------------------------------


class NotSA(Exception):
    pass


_ASSUMED: Set[str] = set()


def _is_const(e: ast.AST, consts: Set[str]) -> bool:
    """Non-negative integer constant expression (literals, instance attributes assumed non-negative, products/sums/powers thereof)."""
    if isinstance(e, ast.Constant):
        return isinstance(e.value, int) and not isinstance(e.value, bool) and e.value >= 0
    if isinstance(e, ast.Attribute) and isinstance(e.value, ast.Name) and e.value.id == 'self':
        return True
    if isinstance(e, ast.Name):
        return e.id in consts
    if isinstance(e, ast.BinOp) and isinstance(e.op, (ast.Mult, ast.Add, ast.Pow)):
        return _is_const(e.left, consts) and _is_const(e.right, consts)
    return False


def _is_pos_const(e: ast.AST, consts: Set[str]) -> bool:
    if isinstance(e, ast.Constant):
        return isinstance(e.value, int) and not isinstance(e.value, bool) and e.value > 0
    if isinstance(e, ast.Attribute) and isinstance(e.value, ast.Name) and e.value.id == 'self':
        return True  # e.g. self.cores: a machine has at least one core
    if isinstance(e, ast.BinOp) and isinstance(e.op, (ast.Mult, ast.Pow)):
        return _is_pos_const(e.left, consts) and _is_pos_const(e.right, consts)
    return False


def _sa(e: ast.AST, params: Sequence[str], subst: Dict[str, ast.AST], consts: Set[str]) -> Set[str]:
    """Type e as a monotone superadditive function of `params`; returns the parameters it depends on. Raises NotSA(reason)."""
    if isinstance(e, ast.Name):
        if e.id in params:
            return {e.id}
        if e.id in subst:
            return _sa(subst[e.id], params, subst, consts)
        raise NotSA(f'`{e.id}` is not a billing parameter')
    if isinstance(e, ast.Constant):
        if e.value == 0 and not isinstance(e.value, bool):
            return set()
        raise NotSA(f'additive constant {e.value!r}: k jobs are billed k x {e.value!r} but the whole worker only once')
    cd = _ceil_division(e)
    if cd is not None:
        raise NotSA(f'`{short(pf.nsrc(e), 70)}` is an integer division rounded UP (ceiling of `{short(pf.nsrc(cd[0]), 30)}` / `{short(pf.nsrc(cd[1]), 30)}`): each of k small jobs is charged the '
                    f'next whole unit, together up to k - 1 units more than the quantity they occupy')
    if isinstance(e, ast.BinOp):
        if isinstance(e.op, ast.Mult):
            if _is_const(e.left, consts) and _is_const(e.right, consts):
                raise NotSA(f'`{short(pf.nsrc(e), 60)}` is a per-job constant: k jobs are billed k times this amount but the whole worker only once')
            if _is_const(e.left, consts):
                return _sa(e.right, params, subst, consts)
            if _is_const(e.right, consts):
                return _sa(e.left, params, subst, consts)
            raise NotSA(f'product `{short(pf.nsrc(e), 60)}` has no constant factor')
        if isinstance(e.op, ast.FloorDiv):
            if _is_pos_const(e.right, consts):
                return _sa(e.left, params, subst, consts)
            raise NotSA(f'`{short(pf.nsrc(e), 60)}` floor-divides by a non-constant')
        if isinstance(e.op, ast.Add):
            return _sa(e.left, params, subst, consts) | _sa(e.right, params, subst, consts)
        if isinstance(e.op, ast.Sub):
            raise NotSA(f'subtraction in `{short(pf.nsrc(e), 60)}`')
        if isinstance(e.op, ast.Div):
            raise NotSA(f'true division in `{short(pf.nsrc(e), 60)}` (float; rounding direction unknown)')
        raise NotSA(f'operator {type(e.op).__name__} in `{short(pf.nsrc(e), 60)}`')
    if isinstance(e, ast.UnaryOp) and isinstance(e.op, ast.USub):
        raise NotSA(f'negation in `{short(pf.nsrc(e), 60)}`')
    if isinstance(e, ast.Call):
        f = pf.dotted(e.func) or pf.nsrc(e.func)
        if f in ('math.ceil', 'ceil', 'round_up_division'):
            raise NotSA(f'`{short(pf.nsrc(e), 60)}` rounds up: two jobs of half a unit are each billed a whole unit, together more than the worker')
        if f in ('max',):
            raise NotSA(f'`{short(pf.nsrc(e), 60)}` imposes a minimum charge per job: many small jobs together exceed the worker')
        if f in ('int', 'math.floor') and len(e.args) == 1 and not e.keywords:
            a = e.args[0]
            if isinstance(a, ast.BinOp) and isinstance(a.op, ast.Div) and _is_pos_const(a.right, consts):
                # floor(x / c) for integers x >= 0, c > 0 below 2**53: the correctly rounded float quotient of a non-multiple stays below the next integer
                _ASSUMED.add('int(x / c) and math.floor(x / c) are read as x // c (quantities stay far below 2**53, where float division cannot round a non-integer quotient up to an integer)')
                return _sa(a.left, params, subst, consts)
            return _sa(a, params, subst, consts)
        if f in ('min', 'round', 'int', 'abs', 'math.floor'):
            raise NotSA(f'`{short(pf.nsrc(e), 60)}` ({f}) is not in the superadditive fragment')
        raise AnalysisError(f'superadditivity typing: unrecognised call `{short(pf.nsrc(e), 60)}`')
    raise AnalysisError(f'superadditivity typing: unrecognised expression `{short(pf.nsrc(e), 60)}`')




# --------------------------------------------------------------------------------------
# abstract evaluation of to_quantified_resource: quantities (R3), purity / aliasing (R4), attributes read by billing (R5)
# --------------------------------------------------------------------------------------


class Quantified:
    def __init__(self, m: pf.Module, c: ast.ClassDef, owner: str, mo: pf.Module, ev: cf.DictEval, paths: List[cf.Path]):
        self.m, self.c, self.owner, self.mo, self.ev, self.paths = m, c, owner, mo, ev, paths


def _quantified(ctx: Ctx, m: pf.Module, c: ast.ClassDef) -> Quantified:
    ev = cf.DictEval(_CLASSES, c.name, sorted(_TYPED_DICTS))
    r = ev.resolve('to_quantified_resource')
    ctx.need(r is not None, f'{c.name}: no concrete to_quantified_resource in its MRO')
    owner, fn, mo = r  # type: ignore[misc]
    ps = [a.arg for a in fn.args.args][1:]
    ctx.need(ps == list(PACK_PARAMS) + [EXT_PARAM], f'{mo.rel}::{owner}.to_quantified_resource: parameters {ps}')
    paths = ev.run('to_quantified_resource')
    ctx.need(paths, f'{mo.rel}::{owner}.to_quantified_resource returns on no path')
    for p in paths:
        ctx.need(isinstance(p.result, (cf.Obj, cf.NoneVal)), f'{mo.rel}::{owner}.to_quantified_resource: returns `{short(pf.nsrc(p.result), 50) if isinstance(p.result, ast.AST) else p.result}`, '
                 'which is not a recognised dict construction')
    return Quantified(m, c, owner, mo, ev, paths)


def _billing_reads(q: Quantified) -> Dict[str, str]:
    """attribute of self read on the billing path -> an expression that reads it (for messages); @property bodies are followed."""
    out: Dict[str, str] = {}
    fns = [fn for _, fn, _ in q.ev.visited_fns]
    seen_props: Set[str] = set()
    i = 0
    while i < len(fns):
        fn = fns[i]
        i += 1
        par: Dict[int, ast.AST] = {}
        for pn in ast.walk(fn):
            for ch in ast.iter_child_nodes(pn):
                par[id(ch)] = pn
        for n in ast.walk(fn):
            a = cf.self_attr(n)
            if a is None or not isinstance(n.ctx, ast.Load):  # type: ignore[attr-defined]
                continue
            pn = par.get(id(n))
            if isinstance(pn, ast.Call) and pn.func is n:
                continue
            text = pf.nsrc(pn) if isinstance(pn, ast.Subscript) and pn.value is n else pf.nsrc(n)
            out.setdefault(a, short(text, 60))
            if a not in seen_props:
                seen_props.add(a)
                for cn in q.ev.order:
                    pfn = _methods(_CLASSES[cn][1]).get(a)
                    if pfn is not None and any(pf.dotted(d) in ('property', 'functools.cached_property', 'cached_property') for d in pfn.decorator_list):
                        fns.append(pfn)
                        break
    return out


def _attr_sources(init: pf.FuncDef) -> Dict[str, ast.expr]:
    """self.<attr> -> the (local-expanded) expression __init__ assigns to it"""
    out: Dict[str, ast.expr] = {}
    for n in pf.walk_shallow(init):
        if isinstance(n, ast.Assign):
            tgs, v = n.targets, n.value
        elif isinstance(n, ast.AnnAssign) and n.value is not None:
            tgs, v = [n.target], n.value
        else:
            continue
        for t in tgs:
            a = cf.self_attr(t)
            if a is not None:
                out[a] = cf.expand(init, v)
    return out


def _check_billing_attrs(ctx: Ctx, m: pf.Module, cls: ast.ClassDef, reads: Dict[str, str], what: str) -> None:
    """R5: every attribute the billing path reads is something a reloaded object has: from_dict returns Cls(...), so the attribute must be set by
    __init__ from constructor parameters (whose round trip R1 decides) or other such attributes, or be a class constant."""
    order = cf.mro(cls.name, _CLASSES) or [cls.name]
    consts: Set[str] = set()
    props: Set[str] = set()
    for cn in order:
        c = _CLASSES[cn][1] if cn in _CLASSES else cls
        consts |= set(_class_consts(c))
        for s in c.body:
            if isinstance(s, ast.AnnAssign) and isinstance(s.target, ast.Name) and s.value is not None:
                consts.add(s.target.id)
        for name, fn in _methods(c).items():
            props.add(name)
    init = _init_fn(cls)
    ctx.need(init is not None, f'{m.rel}::{cls.name}: no __init__ in its MRO')
    params = {a.arg for a in init.args.args[1:]} | {a.arg for a in init.args.kwonlyargs}  # type: ignore[union-attr]
    src = _attr_sources(init)  # type: ignore[arg-type]
    opaque_locals = {k for k, v in cf.local_defs(init).items() if v is None} - params  # type: ignore[arg-type]
    for a in sorted(reads):
        cons = f'{m.rel}::{cls.name}::{what} reads self.{a}'
        if a in src:
            v = src[a]
            names = {n.id for n in ast.walk(v) if isinstance(n, ast.Name) and isinstance(n.ctx, ast.Load)} - {'self'}
            bad_locals = sorted(names & opaque_locals)
            attrs = {cf.self_attr(n) for n in ast.walk(v) if cf.self_attr(n) is not None}
            unset = sorted(x for x in attrs if x not in src and x not in consts and x not in props)
            ctx.need(not bad_locals and not unset, f'{m.rel}::{cls.name}.__init__: self.{a} = `{short(pf.nsrc(v), 50)}` depends on {bad_locals + unset} (not a recognised shape)')
            ctx.ok('R5', cons, {'set_by___init___from': short(pf.nsrc(v), 80), 'read_as': reads[a]})
        elif a in consts or a in props:
            ctx.ok('R5', cons, 'class constant / property', nontrivial=False)
        else:
            delegating = [short(pf.nsrc(c), 40) for c in pf.calls_in(init) if  # type: ignore[arg-type]
                          (isinstance(c.func, ast.Attribute) and (pf.nsrc(c.func.value) in ('self', 'super()') or pf.nsrc(c.func.value).startswith('super(')))
                          or pf.dotted(c.func) in ('setattr', 'vars') or 'self' in [pf.nsrc(x) for x in c.args]]
            delegating += ['self.__dict__'] if any(cf.self_attr(n) == '__dict__' for n in ast.walk(init)) else []  # type: ignore[arg-type]
            ctx.need(not delegating, f'{m.rel}::{cls.name}.__init__ does not set self.{a} itself but hands self to `{delegating[0] if delegating else ""}` (not followed)')
            ctx.bad('R5', cons, f'the billing path reads `{reads[a]}`, but {cls.name}.__init__ never sets self.{a} (it sets {sorted(src)}): the attribute exists only on objects that some other '
                    f'code (e.g. create()) decorated after construction. from_dict returns {cls.name}(...), so a reloaded object lacks it (AttributeError) or falls back to a class default, and '
                    f'bills differently from the object it was stored from', m.path, cls.lineno)


_reported_events: Set[Tuple[str, str, str]] = set()
_IC_CLASSES: List[Tuple[pf.Module, ast.ClassDef]] = []


def _check_purity(ctx: Ctx, q: Quantified) -> None:
    """R4: the quantification is a pure function of (self's fields, the arguments): no retained dict is changed in place, no field it reads is changed, a
    hand-written memo is keyed by everything the cached value depends on."""
    base = f'{q.m.rel}::{q.c.name}.to_quantified_resource'
    events: List[dict] = []
    for p in q.paths:
        for e in p.events:
            k = (e['kind'], e['where'], e['stmt'])
            if k not in [(x['kind'], x['where'], x['stmt']) for x in events]:
                events.append(e)
    item_attrs: Set[str] = set()
    for p in q.paths:
        if isinstance(p.result, cf.Obj):
            for v in p.result.items.values():
                item_attrs |= {cf.self_attr(n) for n in ast.walk(v) if cf.self_attr(n) is not None}  # type: ignore[misc]
    memo_containers = {e['container'] for e in events if e['kind'] == 'memo-store'}
    n_bad = 0
    for e in events:
        key = (e['kind'], e['where'], e['stmt'])
        cons = f"{e['where']}::{e['stmt']}"
        msg = None
        if e['kind'] == 'mutates-shared' and e['mode'] == 'overwrite':
            # the retained dict is overwritten with a value that does not depend on what it held.  Harmless iff that value is determined by what identifies the
            # retained object (the memo key): every hit then rewrites the same value.  Otherwise one object serves requests with different values.
            ma = e.get('memo_atoms')
            ctx.need(ma is not None, f"{e['where']}: `{e['stmt']}` overwrites a dict read from state whose identity the analysis does not know (not decided)")
            free = sorted(a for a in e['value_atoms'] if a not in ma and not (a.startswith('self.') and 'self' in ma) and a != 'self')
            if not free:
                continue
            msg = (f"`{e['stmt']}` {e['what']} a dict that is not private to this call: {e['why']}. The stored value depends on {free}, which is not part of what identifies the retained "
                   f"dict {ma}: requests that differ in {free[0]} are handed the SAME dict object, so the list a job already holds (the worker keeps quantified_resources(...) per job) "
                   f"changes under it to the latest request's quantity - jobs are billed each other's quantities, and the jobs on a worker can add up to more than the worker")
        elif e['kind'] == 'mutates-shared' and e['mode'] == 'destroy':
            msg = (f"`{e['stmt']}` {e['what']} a dict that is not private to this call: {e['why']}. The next identical quantification gets the dict without that key, so identical "
                   f"calls do not return identical bills (KeyError or a missing name / quantity on the second call; a reloaded config differs from the warm original)")
        elif e['kind'] == 'mutates-shared':
            msg = (f"`{e['stmt']}` {e['what']} a dict that is not private to this call: {e['why']}. The change lands in the shared object, so the next quantification with the same "
                   f"arguments starts from the already changed value (q -> q*n -> q*n*n ... for a scaling by n > 1): the same job on the same config is billed more on every call - "
                   f"a job that fills the worker is billed more than the worker itself (both are computed by this function with cpu = cores*1000), and a config reloaded from its "
                   f"serialised form (new objects, nothing cached) bills differently from the warm original. Build a new dict or copy before updating")
        elif e['kind'] == 'self-store':
            if f"self.{e['attr']}" in memo_containers or any(mc.startswith(f"self.{e['attr']}") for mc in memo_containers):
                continue
            if e['attr'] in item_attrs:
                ctx.need(e.get('accumulating'), f"{e['where']}: `{e['stmt']}` rewrites self.{e['attr']}, which the billed quantity reads, in a way the analysis cannot classify "
                         '(idempotent normalisation or drift?)')
                msg = (f"`{e['stmt']}` changes self.{e['attr']} while quantifying, and the billed name / quantity is computed from self.{e['attr']}: two identical calls bill differently "
                       f"(the whole-worker bill and the bill of a job that fills the worker differ), and the drift is not serialised, so a reloaded config bills like a fresh one")
        elif e['kind'] == 'memo-store':
            deps = set(e['deps'])
            keyn = set(e['key_names'])
            need_params = {d for d in deps if d in PACK_PARAMS + (EXT_PARAM,)}
            need_self = set() if e['container'].startswith('self.') else {d for d in deps if d.startswith('self.')}
            if 'self' in keyn:   # the object itself (identity) is part of the key
                need_self = set()
            missing = sorted((need_params | need_self) - keyn)
            if missing:
                msg = (f"`{e['stmt']}` caches the quantified dict in `{e['container']}` under the key `{e['key']}`, but the cached value depends on {missing}, which the key omits: two "
                       f"requests that differ only there ({'two resources, e.g. boot disk and data disk, with the same key but different ' + missing[0] if missing[0].startswith('self.') else 'two jobs with different ' + missing[0]}) receive the same cached quantity, so jobs are billed for another job's share "
                       f"(several small jobs can each be billed the first, larger job's quantity: more than the worker in total)")
            else:
                if key not in _reported_events:
                    _reported_events.add(key)
                    ctx.ok('R4', cons, {'memo_key': e['key'], 'covers': sorted(need_params | need_self)})
                continue
        if msg is not None:
            n_bad += 1
            if key not in _reported_events:
                _reported_events.add(key)
                ctx.bad('R4', cons, msg, e['file'], e['line'])
    # a path that returns a dict read back from state must be a hit of a memo this method fills itself (typed on the filling path)
    for p in q.paths:
        r = p.result
        if isinstance(r, cf.Obj) and r.prov == 'state' and 'quantity' not in r.items:
            ctx.need(r.container in memo_containers, f'{base}: returns a dict read from `{r.container}` whose content is not built here (not a recognised shape)')
    if n_bad == 0:
        provs = sorted({p.result.prov for p in q.paths if isinstance(p.result, cf.Obj)})
        ctx.ok('R4', f'{base}::pure', {'chain': q.ev.visited, 'memoised': q.ev.memoised, 'result': provs, 'paths': len(q.paths)})


def _monomial(e: ast.AST) -> Optional[Tuple[int, Tuple[str, ...]]]:
    """(integer coefficient, sorted symbols) of a product of integer literals, names and self.<attr>; None otherwise"""
    if isinstance(e, ast.Constant) and isinstance(e.value, int) and not isinstance(e.value, bool):
        return e.value, ()
    if isinstance(e, ast.Name) or cf.self_attr(e) is not None:
        return 1, (pf.nsrc(e),)
    if isinstance(e, ast.BinOp) and isinstance(e.op, ast.Mult):
        a, b = _monomial(e.left), _monomial(e.right)
        if a is None or b is None:
            return None
        return a[0] * b[0], tuple(sorted(a[1] + b[1]))
    if isinstance(e, ast.BinOp) and isinstance(e.op, ast.Pow) and isinstance(e.left, ast.Constant) and isinstance(e.right, ast.Constant) \
            and isinstance(e.left.value, int) and isinstance(e.right.value, int) and 0 <= e.right.value <= 64:
        return e.left.value ** e.right.value, ()
    if isinstance(e, ast.BinOp) and isinstance(e.op, ast.LShift) and isinstance(e.right, ast.Constant) and isinstance(e.right.value, int) and 0 <= e.right.value <= 64:
        a = _monomial(e.left)
        return (a[0] << e.right.value, a[1]) if a is not None else None
    return None


def _ceil_division(e: ast.AST) -> Optional[Tuple[ast.AST, ast.AST]]:
    """(a, b) if e is an integer round-UP division of a by b:  (a + b - 1) // b,  (a + (b - 1)) // b,  (b - 1 + a) // b,  (a - 1) // b + 1,  -(-a // b)."""
    if isinstance(e, ast.UnaryOp) and isinstance(e.op, ast.USub) and isinstance(e.operand, ast.BinOp) and isinstance(e.operand.op, ast.FloorDiv):
        l = e.operand.left
        if isinstance(l, ast.UnaryOp) and isinstance(l.op, ast.USub):
            return l.operand, e.operand.right
    if isinstance(e, ast.BinOp) and isinstance(e.op, ast.FloorDiv):
        b = _monomial(e.right)
        # flatten the numerator into signed terms
        terms: List[Tuple[int, ast.AST]] = []

        def flat(x: ast.AST, sign: int) -> None:
            if isinstance(x, ast.BinOp) and isinstance(x.op, ast.Add):
                flat(x.left, sign)
                flat(x.right, sign)
            elif isinstance(x, ast.BinOp) and isinstance(x.op, ast.Sub):
                flat(x.left, sign)
                flat(x.right, -sign)
            else:
                terms.append((sign, x))
        flat(e.left, 1)
        if b is not None and len(terms) == 3:
            ones = [t for t in terms if t[0] == -1 and isinstance(t[1], ast.Constant) and t[1].value == 1]
            divs = [t for t in terms if t[0] == 1 and _monomial(t[1]) == b]
            rest = [t for t in terms if t not in ones[:1] and t not in divs[:1]]
            if len(ones) >= 1 and len(divs) >= 1 and len(rest) == 1 and rest[0][0] == 1:
                return rest[0][1], e.right
    if isinstance(e, ast.BinOp) and isinstance(e.op, ast.Add):
        for x, y in ((e.left, e.right), (e.right, e.left)):
            if isinstance(y, ast.Constant) and y.value == 1 and isinstance(x, ast.BinOp) and isinstance(x.op, ast.FloorDiv) and isinstance(x.left, ast.BinOp) \
                    and isinstance(x.left.op, ast.Sub) and isinstance(x.left.right, ast.Constant) and x.left.right.value == 1:
                return x.left.left, x.right
    return None


def _fraction_normal_form(e: ast.AST) -> Optional[Tuple[str, Tuple[int, Tuple[str, ...]], Tuple[int, Tuple[str, ...]]]]:
    """(rounding mode, numerator monomial, denominator monomial) of a rounded quotient of products; mode in down | up | nearest | none | exact (no division)."""
    def quot(x: ast.AST) -> Optional[Tuple[Tuple[int, Tuple[str, ...]], Tuple[int, Tuple[str, ...]]]]:
        if isinstance(x, ast.BinOp) and isinstance(x.op, (ast.Div, ast.FloorDiv)):
            inner = quot(x.left) if isinstance(x.left, ast.BinOp) and isinstance(x.left.op, type(x.op)) else None
            d = _monomial(x.right)
            if d is None:
                return None
            if inner is not None:     # (a // b) // c == a // (b * c) for positive integers; same for true division
                return inner[0], (inner[1][0] * d[0], tuple(sorted(inner[1][1] + d[1])))
            n = _monomial(x.left)
            return (n, d) if n is not None else None
        return None
    cd = _ceil_division(e)
    if cd is not None:
        n, d = _monomial(cd[0]), _monomial(cd[1])
        return ('up', n, d) if n is not None and d is not None else None
    if isinstance(e, ast.BinOp) and isinstance(e.op, ast.FloorDiv):
        q = quot(e)
        return ('down', q[0], q[1]) if q else None
    if isinstance(e, ast.BinOp) and isinstance(e.op, ast.Div):
        q = quot(e)
        return ('none', q[0], q[1]) if q else None
    if isinstance(e, ast.Call) and not e.keywords:
        f = pf.dotted(e.func) or ''
        if f in ('int', 'math.floor', 'floor', 'math.trunc') and len(e.args) == 1:
            inner = _fraction_normal_form(e.args[0])
            return ('down', inner[1], inner[2]) if inner is not None and inner[0] in ('none', 'down', 'exact') else None
        if f in ('math.ceil', 'ceil') and len(e.args) == 1:
            inner = _fraction_normal_form(e.args[0])
            return ('up', inner[1], inner[2]) if inner is not None and inner[0] in ('none', 'up', 'exact') else None
        if f == 'round' and len(e.args) == 1:
            inner = _fraction_normal_form(e.args[0])
            return ('nearest', inner[1], inner[2]) if inner is not None and inner[0] in ('none', 'exact') else None
        if f.split('.')[-1] == 'round_up_division' and len(e.args) == 2:
            n, d = _monomial(e.args[0]), _monomial(e.args[1])
            return ('up', n, d) if n is not None and d is not None else None
        if f in ('max', 'min') and len(e.args) == 2:
            # a clamped quotient: the scale is that of its non-constant operand
            vs = [a for a in e.args if not isinstance(a, ast.Constant)]
            if len(vs) == 1:
                return _fraction_normal_form(vs[0])
        return None
    mono = _monomial(e)
    if mono is not None:
        return 'exact', mono, (1, ())
    return None


def _check_superadditive(ctx: Ctx, quants: List[Quantified]) -> None:
    for qd in quants:
        m, c, owner, mo = qd.m, qd.c, qd.owner, qd.mo
        seen_q: Set[str] = set()
        for p in qd.paths:
            r = p.result
            if not isinstance(r, cf.Obj):
                continue
            q2 = r.items.get('quantity')
            if q2 is None and r.prov == 'state':
                continue   # memo hit: typed on the path that fills the memo (see R4)
            ctx.need(q2 is not None, f"{mo.rel}::{owner}.to_quantified_resource: a returned dict has no 'quantity' ({r.show()})")
            text = pf.nsrc(q2)
            if text in seen_q:
                continue
            seen_q.add(text)
            cons = f'{m.rel}::{c.name}::quantity {short(text, 60)} (from {owner})'
            line = fn_line = _methods(_CLASSES[owner][1])['to_quantified_resource'].lineno
            del fn_line
            names = pf.names_in(q2)
            if not (names & set(PACK_PARAMS)) and EXT_PARAM in names:
                ctx.ok('R3', cons, 'depends only on the per-job external storage: outside the packing clause (not decided)', nontrivial=False)
                continue
            try:
                deps = _sa(q2, PACK_PARAMS, {}, set())
                ctx.ok('R3', cons, {'resolved': short(text, 100), 'depends_on': sorted(deps), 'path': p.conds})
            except NotSA as e:
                ctx.bad('R3', cons, f'`{short(text, 90)}` is not superadditive in (cpu, memory, worker fraction): {e}; e.g. the jobs filling one worker are '
                        'billed more of this resource than the whole worker', mo.path, line)
    # worker fraction and plumbing
    m = pf.load(F_IC)
    fn = m.func('InstanceConfig.quantified_resources')
    ps = [a.arg for a in fn.args.args][1:]
    ctx.need(len(ps) == 3, f'InstanceConfig.quantified_resources: parameters {ps}')
    calls = [c for c in pf.calls_in(fn) if isinstance(c.func, ast.Attribute) and c.func.attr == 'to_quantified_resource']
    ctx.need(len(calls) == 1, 'InstanceConfig.quantified_resources: to_quantified_resource call not found')
    c = calls[0]
    # what is passed for each parameter of to_quantified_resource, with the locals of quantified_resources expanded (a renamed / extra local is not a change)
    passed: Dict[str, ast.expr] = {}
    for i, a in enumerate(c.args):
        ctx.need(not isinstance(a, ast.Starred) and i < 4, 'quantified_resources: * in call')
        passed[(list(PACK_PARAMS) + [EXT_PARAM])[i]] = a
    for k in c.keywords:
        ctx.need(k.arg is not None, 'quantified_resources: ** in call')
        passed[k.arg] = k.value  # type: ignore[index]
    ldefs = cf.local_defs(fn)
    for nm in {n.id for a in passed.values() for n in ast.walk(a) if isinstance(n, ast.Name)}:
        ctx.need(nm in ps or nm == 'self' or ldefs.get(nm) is not None or nm not in ldefs,
                 f'InstanceConfig.quantified_resources: `{nm}`, passed to to_quantified_resource, is not singly defined')
    got = {k: pf.nsrc(cf.expand(fn, v)) for k, v in passed.items()}
    want = {'cpu_in_mcpu': ps[0], 'memory_in_bytes': ps[1], EXT_PARAM: ps[2]}
    ctx.need('worker_fraction_in_1024ths' in passed, 'InstanceConfig.quantified_resources: no worker_fraction_in_1024ths argument')
    wrong = {k: got.get(k) for k in want if got.get(k) != want[k]}
    ctx.check(not wrong, 'R3', f'{F_IC}::InstanceConfig.quantified_resources::arguments of to_quantified_resource',
              f'parameters are passed as {got}, expected {want} and the worker fraction: a quantity is computed from the wrong request dimension', m.path, c.lineno)
    # the worker fraction as ONE expression over (cpu_in_mcpu, self.<attr>): locals expanded, pure helpers (module functions, methods) seen through
    wf0 = cf.expand(fn, passed['worker_fraction_in_1024ths'])
    wf, helpers = cf.inline_pure(wf0, m, 'InstanceConfig', _CLASSES)
    wline = getattr(passed['worker_fraction_in_1024ths'], 'lineno', c.lineno)
    d0 = ldefs.get(passed['worker_fraction_in_1024ths'].id) if isinstance(passed['worker_fraction_in_1024ths'], ast.Name) else None
    if d0 is not None:
        wline = d0.lineno
    via = f' (through {", ".join(dict.fromkeys(helpers))})' if helpers else ''
    cons = f'{F_IC}::InstanceConfig.quantified_resources::worker_fraction_in_1024ths'
    sa_ok = False
    try:
        deps = _sa(wf, [ps[0]], {}, set())
        sa_ok = deps == {ps[0]}
        ctx.check(sa_ok, 'R3', cons, f'`{pf.nsrc(wf)}`{via} does not depend on {ps[0]}', m.path, wline, detail={'expr': pf.nsrc(wf), 'helpers': helpers})
    except NotSA as e:
        nf0 = _fraction_normal_form(wf)
        guard = [a for a in pf.walk_shallow(fn) if isinstance(a, ast.Assert) and 'is_power_two' in pf.nsrc(a.test) and 'cores' in pf.nsrc(a.test)]
        tail = ''
        if nf0 is not None and nf0[0] in ('up', 'nearest'):
            tail = (' The quotient is not exact whenever cores*1000 does not divide 1024*cpu - e.g. a worker whose core count does not divide 1024 evenly (48 / 72 / 96 cores: 250 mCPU '
                    'is 2.67/1024 of a 96-core worker and is billed 3/1024; the 384 such jobs that fill it are billed 1152/1024 of its disks and IP fee). '
                    + ('The assertion that shared workers have a power-of-two core count is still there, but the function accepts any cpu_in_mcpu.' if guard else
                       'No assertion restricts shared workers to a power-of-two core count (any more), so such workers reach this line.')
                    + ' Rounding DOWN is the only direction that keeps every packing within the worker')
        ctx.bad('R3', cons, f'the worker fraction is `{short(pf.nsrc(wf), 120)}`{via}, which is not a superadditive function of {ps[0]}: {e}. Per-worker resources (VM, disks, IP) billed to '
                f'the jobs packed on a worker add up to more than the worker.{tail}', m.path, wline)
    # exact scale: (1024 * cpu) / (self.cores * 1000) up to rounding, so that the whole worker (cpu = cores*1000) is 1024/1024ths
    nf = _fraction_normal_form(wf)
    ctx.need(nf is not None or not sa_ok, f'InstanceConfig.quantified_resources: worker fraction `{short(pf.nsrc(wf), 80)}` is not a (rounded) quotient of products (scale not decided)')
    if nf is not None:
        mode, num, den = nf
        ratio_ok = num[1] == (ps[0],) and den[1] == ('self.cores',) and num[0] * 1000 == den[0] * 1024
        ctx.check(ratio_ok, 'R3', cons + '::scale', f'`{short(pf.nsrc(wf), 100)}`{via} is not 1024 * {ps[0]} / (self.cores * 1000) (rounded {mode}): the fraction of a whole worker '
                  f'(cpu = cores*1000) is not 1024/1024ths, so static per-worker resources are over- or under-billed', m.path, wline, detail={'mode': mode, 'helpers': helpers})
    # every resource of the config is billed exactly once: loop over self.resources, append when not None
    loops = [n for n in pf.walk_shallow(fn) if isinstance(n, ast.For)]
    if not loops and _comprehension_form(ctx, m, fn, c, quants):
        _check_whole_worker_sites(ctx, m)
        return
    ctx.need(len(loops) == 1 and pf.nsrc(loops[0].iter) == 'self.resources', 'InstanceConfig.quantified_resources: loop over self.resources not found')
    appends = [x for x in ast.walk(loops[0]) if isinstance(x, ast.Call) and isinstance(x.func, ast.Attribute) and x.func.attr in ('append', 'extend')]
    ctx.check(len(appends) == 1, 'R3', f'{F_IC}::InstanceConfig.quantified_resources::one entry per resource',
              f'{len(appends)} append/extend calls per resource in the loop: a resource is billed more than once (or never)', m.path, loops[0].lineno)
    _check_caller_loop(ctx, m, fn, loops[0], c, quants)
    _check_whole_worker_sites(ctx, m)


def _comprehension_form(ctx: Ctx, m: pf.Module, fn: pf.FuncDef, call: ast.Call, quants: List[Quantified]) -> bool:
    """quantified_resources written with comprehensions:  qs = [r.to_quantified_resource(...) for r in self.resources]  and  return [q for q in qs if q is not None]
    (or the filter in the same comprehension through a walrus-free two-step).  Every resource is quantified once, the dicts are passed on unchanged.  Returns False if the
    function is not of this form (the caller then looks for the loop form and declines if that is absent too)."""
    comps = [n for n in ast.walk(fn) if isinstance(n, (ast.ListComp, ast.GeneratorExp)) and n.elt is call]
    if len(comps) != 1:
        return False
    comp = comps[0]
    if len(comp.generators) != 1 or comp.generators[0].ifs or pf.nsrc(comp.generators[0].iter) != 'self.resources' or comp.generators[0].is_async:
        return False
    rets = [r for r in pf.walk_shallow(fn) if isinstance(r, ast.Return)]
    if len(rets) != 1 or rets[0].value is None:
        return False
    rv = cf.expand(fn, rets[0].value)
    # the returned value: the comprehension itself, list(...) of it, or a filter `[q for q in <it> if q is not None]` that keeps every dict
    def strip(e: ast.AST) -> Optional[ast.AST]:
        if pf.nsrc(e) in (pf.nsrc(comp), pf.nsrc(cf.expand(fn, comp))):
            return e
        if isinstance(e, ast.Call) and pf.dotted(e.func) == 'list' and len(e.args) == 1 and not e.keywords:
            return strip(e.args[0])
        if isinstance(e, ast.ListComp) and len(e.generators) == 1 and isinstance(e.generators[0].target, ast.Name) and pf.nsrc(e.elt) == e.generators[0].target.id:
            v = e.generators[0].target.id
            tests = [pf.nsrc(t) for t in e.generators[0].ifs]
            if all(t in (f'{v} is not None', f'{v} != None', v) for t in tests):
                return strip(e.generators[0].iter)
        return None
    if strip(rv) is None:
        return False
    ctx.ok('R3', f'{F_IC}::InstanceConfig.quantified_resources::one entry per resource', 'comprehension over self.resources, None results dropped')
    ctx.ok('R3', f'{F_IC}::InstanceConfig.quantified_resources::appended quantity', {'appended': 'Q'})
    ctx.ok('R4', f'{F_IC}::InstanceConfig.quantified_resources::returned dicts are not changed in place', {'form': 'comprehension'})
    shared = [(qd, p.result) for qd in quants for p in qd.paths if isinstance(p.result, cf.Obj) and p.result.prov != 'fresh']
    why = f'{shared[0][0].c.name}.to_quantified_resource may return a retained dict ({shared[0][1].why})' if shared else None
    _check_consumers(ctx, m, _IC_CLASSES, why)
    return True


def _check_caller_loop(ctx: Ctx, m: pf.Module, fn: pf.FuncDef, loop: ast.For, call: ast.Call, quants: List[Quantified]) -> None:
    """What InstanceConfig.quantified_resources does with each resource's dict between the call and the append: the loop body is evaluated with the call
    result bound to an abstract dict {'name': N, 'quantity': Q} whose provenance is the least private one any implementation returns."""
    shared = [(qd, p.result) for qd in quants for p in qd.paths if isinstance(p.result, cf.Obj) and p.result.prov != 'fresh']
    prov, why = ('fresh', '')
    if shared:
        qd0, r0 = shared[0]
        prov, why = r0.prov, f'{qd0.c.name}.to_quantified_resource may return a retained dict ({r0.why})'

    def ext(c: ast.Call) -> Optional[cf.Obj]:
        if c is call:
            return cf.Obj(prov, why, {'name': ast.Name(id='N', ctx=ast.Load()), 'quantity': ast.Name(id='Q', ctx=ast.Load())})
        return None
    ev = cf.DictEval(_CLASSES, 'InstanceConfig', sorted(_TYPED_DICTS), external_call=ext)
    env: Dict[str, object] = {}
    states, finished = ev.run_block('InstanceConfig', fn, m, loop.body, env)
    sinks = [s for st in states for s in st.sinks] + [s for p in finished for s in p.sinks]
    ctx.need(sinks, 'InstanceConfig.quantified_resources: the loop appends nothing that the evaluation recognises')
    cons = f'{F_IC}::InstanceConfig.quantified_resources::appended quantity'
    seen: Set[str] = set()
    for _, v in sinks:
        ctx.need(isinstance(v, cf.Obj) and 'quantity' in v.items, f'InstanceConfig.quantified_resources: appends `{short(pf.nsrc(v), 40) if isinstance(v, ast.AST) else v}` (not a recognised shape)')
        qx = v.items['quantity']  # type: ignore[union-attr]
        if pf.nsrc(qx) in seen:
            continue
        seen.add(pf.nsrc(qx))
        try:
            deps = _sa(qx, ['Q'], {}, set())
            ctx.check(deps == {'Q'}, 'R3', cons, f'the loop replaces the resource\'s quantity by `{pf.nsrc(qx)}`, which no longer depends on it', m.path, loop.lineno, detail={'appended': pf.nsrc(qx)})
        except NotSA as e:
            ctx.bad('R3', cons, f'between the call and the append the loop turns each resource\'s quantity Q into `{pf.nsrc(qx)}`, which is not superadditive in Q: {e}; the jobs packed on '
                    'a worker are billed more than the whole worker', m.path, loop.lineno)
    evs = [e for st in states for e in st.events] + [e for p in finished for e in p.events]
    done: Set[str] = set()
    for e in evs:
        if e['kind'] == 'mutates-shared' and e['stmt'] not in done:
            ctx.need(e['mode'] in ('accumulate', 'destroy'), f"InstanceConfig.quantified_resources: `{e['stmt']}` overwrites a key of a dict that a resource may retain between calls "
                     '(whether every request rewrites the same value is not decided)')
            done.add(e['stmt'])
            ctx.bad('R4', f"{e['where']}::{e['stmt']}", f"`{e['stmt']}` {e['what']} the dict a resource returned, and {e['why']}: the change accumulates in the retained object, so identical "
                    'quantifications of the same config bill more each time (a whole-worker job is billed more than the worker; a reloaded config bills differently)', e['file'], e['line'])
    if not done:
        ctx.ok('R4', f'{F_IC}::InstanceConfig.quantified_resources::returned dicts are not changed in place', {'least_private_result': prov})
    _check_consumers(ctx, m, _IC_CLASSES, why if shared else None)


_LIST_MUTATORS = ('append', 'extend', 'remove', 'pop', 'clear', 'sort', 'reverse', 'insert')
_DICT_MUTATORS = ('update', 'pop', 'popitem', 'clear', 'setdefault')


def _result_mutations(cls_methods: Dict[str, pf.FuncDef], fn: pf.FuncDef, lists: Set[str], depth: int = 2) -> Tuple[List[ast.AST], List[ast.AST]]:
    """(statements that change a result LIST of quantified_resources in place, statements that change one of its element DICTS in place) in fn, where `lists`
    are the names that hold such a list on entry; lists obtained from quantified_resources(...) calls, comprehensions over them and loop variables are followed,
    as are calls of sibling methods that receive a list positionally (bounded depth)."""
    lists = set(lists)
    elems: Set[str] = set()
    changed = True
    while changed:
        changed = False
        for n in pf.walk_shallow(fn):
            if isinstance(n, (ast.Assign, ast.AnnAssign)) and getattr(n, 'value', None) is not None:
                tgs = n.targets if isinstance(n, ast.Assign) else [n.target]
                v = n.value
                is_list = (isinstance(v, ast.Call) and isinstance(v.func, ast.Attribute) and v.func.attr == 'quantified_resources') \
                    or (isinstance(v, ast.Name) and v.id in lists) \
                    or (isinstance(v, ast.ListComp) and len(v.generators) == 1 and isinstance(v.generators[0].iter, ast.Name) and v.generators[0].iter.id in lists
                        and pf.nsrc(v.elt) == pf.nsrc(v.generators[0].target)) \
                    or (isinstance(v, ast.Call) and pf.dotted(v.func) in ('list', 'sorted', 'tuple') and v.args and isinstance(v.args[0], ast.Name) and v.args[0].id in lists)
                is_elem = (isinstance(v, ast.Subscript) and isinstance(v.value, ast.Name) and v.value.id in lists) or (isinstance(v, ast.Name) and v.id in elems)
                for t in tgs:
                    if isinstance(t, ast.Name):
                        if is_list and t.id not in lists:
                            lists.add(t.id)
                            changed = True
                        if is_elem and t.id not in elems:
                            elems.add(t.id)
                            changed = True
            if isinstance(n, (ast.For, ast.comprehension)) and isinstance(n.iter, ast.Name) and n.iter.id in lists:
                for x in ast.walk(n.target):
                    if isinstance(x, ast.Name) and x.id not in elems:
                        elems.add(x.id)
                        changed = True
    list_mut: List[ast.AST] = []
    elem_mut: List[ast.AST] = []

    def is_elem_expr(e: ast.AST) -> bool:
        return (isinstance(e, ast.Name) and e.id in elems) or (isinstance(e, ast.Subscript) and isinstance(e.value, ast.Name) and e.value.id in lists)

    for n in pf.walk_shallow(fn):
        if isinstance(n, (ast.Assign, ast.AugAssign, ast.AnnAssign, ast.Delete)):
            tgs = n.targets if isinstance(n, (ast.Assign, ast.Delete)) else [n.target]
            for t in tgs:
                if isinstance(t, ast.Subscript) and is_elem_expr(t.value):
                    elem_mut.append(n)
                elif isinstance(t, ast.Subscript) and isinstance(t.value, ast.Name) and t.value.id in lists:
                    list_mut.append(n)
                elif isinstance(n, ast.AugAssign) and isinstance(t, ast.Name) and t.id in lists:
                    list_mut.append(n)
        if isinstance(n, ast.Call) and isinstance(n.func, ast.Attribute):
            if isinstance(n.func.value, ast.Name) and n.func.value.id in lists and n.func.attr in _LIST_MUTATORS:
                list_mut.append(n)
            elif is_elem_expr(n.func.value) and n.func.attr in _DICT_MUTATORS:
                elem_mut.append(n)
            elif depth > 0 and n.func.attr in cls_methods and n.func.attr != fn.name:
                callee = cls_methods[n.func.attr]
                ps = [a.arg for a in callee.args.args]
                if ps and ps[0] in ('self', 'cls') and not any(pf.dotted(d) == 'staticmethod' for d in callee.decorator_list):
                    ps = ps[1:]
                passed = {ps[i] for i, a in enumerate(n.args) if i < len(ps) and isinstance(a, ast.Name) and a.id in lists}
                passed |= {k.arg for k in n.keywords if k.arg in ps and isinstance(k.value, ast.Name) and k.value.id in lists}
                if passed:
                    lm, em = _result_mutations(cls_methods, callee, passed, depth - 1)  # type: ignore[arg-type]
                    list_mut += lm
                    elem_mut += em
    return list_mut, elem_mut


def _check_consumers(ctx: Ctx, mbase: pf.Module, ic_classes: List[Tuple[pf.Module, ast.ClassDef]], shared_elem_why: Optional[str]) -> None:
    """R4 at the level of InstanceConfig: quantified_resources builds a new list on every call (or, if it is memoised, nobody changes the list or its dicts in
    place); where resources hand out retained dicts, no consumer in the instance-config classes updates them."""
    base_cls = mbase.cls('InstanceConfig')
    qr = _methods(base_cls)['quantified_resources']
    kind, text = cf.decorator_kind(qr)
    ctx.need(kind in ('plain', 'memo'), f'{F_IC}::InstanceConfig.quantified_resources: decorator `{text}` is not understood')
    shared_list_why = f'InstanceConfig.quantified_resources is memoised with `@{text}`: the same list (and dicts) is returned for equal arguments' if kind == 'memo' else None
    loops = [n for n in pf.walk_shallow(qr) if isinstance(n, ast.For)]
    appends = [x for x in ast.walk(loops[0]) if isinstance(x, ast.Call) and isinstance(x.func, ast.Attribute) and x.func.attr in ('append', 'extend')] if loops else []
    if len(appends) == 1 and isinstance(appends[0].func.value, ast.Name):  # type: ignore[attr-defined]
        acc = appends[0].func.value.id  # type: ignore[attr-defined]
        d = pf.single_def(qr, acc)
        ctx.need(isinstance(d, ast.List) and not d.elts, f'{F_IC}::InstanceConfig.quantified_resources: `{acc}` is not a list created empty by each call (a retained or pre-filled list is not a recognised shape)')
        for r in [n for n in pf.walk_shallow(qr) if isinstance(n, ast.Return)]:
            ctx.need(r.value is not None and pf.nsrc(r.value) == acc, f'{F_IC}::InstanceConfig.quantified_resources: `{short(pf.nsrc(r), 50)}` does not return the list built by this call '
                     '(a cached / stored result is not a recognised shape)')
    billed = {'cores', 'resources', 'job_private'}
    for n in ast.walk(qr):
        tg = None
        if isinstance(n, (ast.Assign, ast.AugAssign, ast.AnnAssign)):
            for t in (n.targets if isinstance(n, ast.Assign) else [n.target]):
                base = t.value if isinstance(t, ast.Subscript) else t
                if cf.self_attr(base) in billed:
                    tg = base
        if isinstance(n, ast.Call) and isinstance(n.func, ast.Attribute) and cf.self_attr(n.func.value) in billed and n.func.attr in _LIST_MUTATORS:
            tg = n.func.value
        ctx.need(tg is None, f'{F_IC}::InstanceConfig.quantified_resources changes `{pf.nsrc(tg) if tg is not None else ""}` while quantifying (not a recognised shape: is the next call billed the same?)')
    n_consumers = 0
    bad = 0
    for m, c in [(mbase, base_cls)] + ic_classes:
        meths = dict(_methods(base_cls))
        meths.update(_methods(c))
        for name, fn in _methods(c).items():
            if name == 'quantified_resources' or not any(isinstance(x.func, ast.Attribute) and x.func.attr == 'quantified_resources' for x in pf.calls_in(fn)):
                continue
            n_consumers += 1
            lm, em = _result_mutations(meths, fn, set())
            for node, why in [(x, shared_list_why) for x in lm] + [(x, shared_list_why or shared_elem_why) for x in em]:
                if why is None:
                    continue   # a private list of private dicts: changing it affects only this caller's own computation
                bad += 1
                stmt = short(pf.nsrc(node), 80)
                ctx.bad('R4', f'{m.rel}::{c.name}.{name}::{stmt}', f'`{stmt}` (reached from {c.name}.{name}) changes in place a result of quantified_resources that is not private to the caller: {why}. '
                        'Later quantifications with the same arguments see the changed list / dict: identical requests are billed differently, the whole-worker bill and the bill of a job '
                        'filling the worker diverge, and a reloaded config (nothing cached) bills differently from the warm original', m.path, node.lineno)
    ctx.need(n_consumers >= 1, f'{F_IC}: no consumer of quantified_resources found (anchor changed)')
    # consumers elsewhere in the batch service (driver, worker): scanned when results are retained (then an update anywhere matters) and in the thorough tier
    if shared_list_why is not None or shared_elem_why is not None or ctx.tier == 'thorough':
        analysed = {F_IC} | {m.rel for m, _ in ic_classes}
        n_ext = 0
        for rel in pf.walk_py(['batch/batch']):
            if rel in analysed:
                continue
            try:
                mx = pf.load(rel)
            except AnalysisError:
                continue
            for qual, fn in mx.functions():
                if not any(isinstance(x.func, ast.Attribute) and x.func.attr == 'quantified_resources' for x in pf.calls_in(fn)):
                    continue
                n_ext += 1
                lm, em = _result_mutations({}, fn, set(), depth=0)
                for node, why in [(x, shared_list_why) for x in lm] + [(x, shared_list_why or shared_elem_why) for x in em]:
                    if why is None:
                        continue
                    bad += 1
                    stmt = short(pf.nsrc(node), 80)
                    ctx.bad('R4', f'{rel}::{qual}::{stmt}', f'`{stmt}` changes in place a result of quantified_resources that is not private to the caller: {why}. Later quantifications '
                            'with the same arguments see the changed list / dict: identical requests are billed differently and a reloaded config bills differently from the warm original',
                            mx.path, node.lineno)
        ctx.unit('external_consumers', n_ext)
    if bad == 0:
        ctx.ok('R4', f'{F_IC}::InstanceConfig::consumers of quantified_resources do not update retained results', {'consumers': n_consumers, 'list_memoised': kind == 'memo',
                                                                                                                      'dicts_retained_by_resources': shared_elem_why is not None})


def _check_created_collections(ctx: Ctx, m: pf.Module, cls: ast.ClassDef) -> None:
    """R4 (identical calls bill identically also on a freshly created object): every collection the constructor receives from create() is a materialised,
    re-iterable container, or __init__ copies it into one - a one-shot iterator stored in self.<attr> is consumed by the first quantification."""
    fn = _methods(cls).get('create')
    init = _init_fn(cls)
    if fn is None or init is None:
        return
    params, store = _init_map(ctx, m, cls)
    ann, _ = _param_info(init)
    coll = [p_ for p_ in params if _is_collection_annotation(ann.get(p_))]
    if not coll:
        return
    calls = [c for c in pf.calls_in(fn) if pf.dotted(c.func) in (cls.name, 'cls')]
    for c in calls:
        pairs: List[Tuple[str, ast.AST]] = [(params[i], a) for i, a in enumerate(c.args) if i < len(params) and not isinstance(a, ast.Starred)]
        pairs += [(k.arg, k.value) for k in c.keywords if k.arg in params]
        for p_, a in pairs:
            if p_ not in coll:
                continue
            v = pf.resolve_expr(fn, a)
            _, lazy = _eager_form(v)
            cons = f'{m.rel}::{cls.name}.create::{p_} is a re-iterable collection'
            if lazy is None or (cls.name, p_) in _MATERIALISED:
                ctx.ok('R4', cons, short(pf.nsrc(v), 60))
            else:
                ctx.bad('R4', cons, f'create() passes {lazy} - `{short(pf.nsrc(v), 80)}` - as `{p_}` and __init__ stores it unchanged in self.{store.get(p_, p_)}: a one-shot iterator. The first '
                        f'quantified_resources(...) consumes it, every later call bills nothing for these elements: identical calls do not bill identically (the whole-worker bill '
                        f'computed first is complete, every job after it is billed []), and to_dict() of the used object stores an empty list', m.path, a.lineno)


def _check_whole_worker_sites(ctx: Ctx, m: pf.Module) -> None:
    """R4: the whole worker is quantified by the very function that bills a job, at cpu = cores*1000, memory = instance_memory(), no external storage; with
    purity (R4) and worker fraction 1024 at that point (R3 scale) a job that fills the worker is billed exactly the worker."""
    cls = m.cls('InstanceConfig')
    meths = _methods(cls)
    qr = meths['quantified_resources']
    n_params = len(qr.args.args) - 1
    forwarders: Dict[str, List[int]] = {}   # method -> positions of its parameters that reach quantified_resources' (cpu, memory, storage)
    for name, fn in meths.items():
        for c in pf.calls_in(fn):
            if pf.nsrc(c.func) == 'self.quantified_resources' and name != 'quantified_resources':
                ps = [a.arg for a in fn.args.args]
                args = [pf.nsrc(a) for a in c.args]
                if len(args) == n_params and all(a in ps for a in args) and not c.keywords:
                    forwarders[name] = [ps.index(a) - 1 for a in args]
    sites = 0
    for name, fn in meths.items():
        for c in pf.calls_in(fn):
            f = pf.nsrc(c.func)
            if f == 'self.quantified_resources':
                pos = list(range(n_params))
            elif f.startswith('self.') and f[5:] in forwarders:
                pos = forwarders[f[5:]]
            else:
                continue
            if c.keywords or len(c.args) <= max(pos):
                continue
            triple = [cf.expand(fn, c.args[i]) for i in pos]
            if 'self.cores' not in pf.nsrc(triple[0]):
                continue
            sites += 1
            cons = f'{m.rel}::InstanceConfig.{name}::whole worker = {f[5:]}(cores*1000, instance_memory(), 0)'
            got = [pf.nsrc(x) for x in triple]
            ctx.need(got[1] == 'self.instance_memory()' and got[2] == '0', f'{m.rel}::InstanceConfig.{name}: whole-worker quantification with memory `{got[1]}` / storage `{got[2]}` '
                     '(expected self.instance_memory() / 0; not decided)')
            ok = got[0] in ('self.cores * 1000', '1000 * self.cores')
            ctx.check(ok, 'R4', cons, f'{name} quantifies the whole worker as {f[5:]}({", ".join(got)}) instead of (self.cores * 1000, self.instance_memory(), 0): the bill of the whole worker is '
                      'not the bill of the job that occupies all of its cores and memory (worker fraction != 1024/1024ths, or another memory / storage figure)', m.path, c.lineno,
                      detail={'arguments': got})
    ctx.need(sites >= 1, f'{m.rel}: no whole-worker quantification (quantified_resources(self.cores * 1000, ...)) found')


# --------------------------------------------------------------------------------------
# R6: the whole worker's memory (machine table) is the memory of the job that fills it (cores x per-core memory)
# --------------------------------------------------------------------------------------

MACHINE_TABLES = {
    'gcp': dict(file='batch/batch/cloud/gcp/resource_utils.py', table='MACHINE_TYPE_TO_PARTS', lookup='gcp_machine_type_to_parts', job_fn='gcp_cores_mcpu_to_memory_bytes',
                namer='family_worker_type_cores_to_gcp_machine_type', family_const='GCP_MACHINE_FAMILY'),
    'azure': dict(file='batch/batch/cloud/azure/resource_utils.py', table='MACHINE_TYPE_TO_PARTS', lookup='azure_machine_type_to_parts', job_fn='azure_cores_mcpu_to_memory_bytes',
                  namer=None, family_const=None),
}
MIB = 1024 * 1024
_R6_DEFERRED: List[str] = []


def _machine_entries(ctx: Ctx, mu: pf.Module, table: str) -> List[dict]:
    """one record per entry (or per comprehension-built family of entries) of the machine table: key (template), constructor keywords, loop variable and its values"""
    out: List[dict] = []

    def ctor_kwargs(call: ast.AST, where: str) -> Dict[str, ast.expr]:
        ctx.need(isinstance(call, ast.Call) and isinstance(call.func, ast.Name), f'{mu.rel}::{table}: entry {where} is not a constructor call')
        cname = call.func.id  # type: ignore[union-attr]
        cls = mu.cls(cname)
        init = _methods(cls).get('__init__')
        ctx.need(init is not None, f'{mu.rel}::{cname} has no __init__')
        ps = [a.arg for a in init.args.args][1:]  # type: ignore[union-attr]
        kw: Dict[str, ast.expr] = {}
        for i, a in enumerate(call.args):  # type: ignore[union-attr]
            ctx.need(i < len(ps) and not isinstance(a, ast.Starred), f'{mu.rel}::{table}: entry {where}: positional arguments do not match {cname}.__init__')
            kw[ps[i]] = a
        for k in call.keywords:  # type: ignore[union-attr]
            ctx.need(k.arg is not None, f'{mu.rel}::{table}: entry {where}: ** in constructor call')
            kw[k.arg] = k.value  # type: ignore[index]
        # the attribute each parameter is stored in (self.x = x)
        stored = {}
        for st in init.body:  # type: ignore[union-attr]
            if isinstance(st, ast.Assign) and len(st.targets) == 1 and cf.self_attr(st.targets[0]) is not None and isinstance(st.value, ast.Name) and st.value.id in ps:
                stored[st.value.id] = cf.self_attr(st.targets[0])
        return {stored.get(k, k): v for k, v in kw.items()}

    def add_dict(node: ast.AST, origin: str, depth: int = 2) -> None:
        if isinstance(node, ast.Dict):
            for k, v in zip(node.keys, node.values):
                if k is None:
                    ctx.need(isinstance(v, ast.Name) and depth > 0, f'{mu.rel}::{table}: `**{pf.nsrc(v)}` is not a module-level table')
                    add_dict(mu.global_assign(v.id), v.id, depth - 1)  # type: ignore[union-attr]
                else:
                    out.append(dict(key=k, kw=ctor_kwargs(v, pf.nsrc(k)), var=None, values=None, line=v.lineno, origin=origin))
        elif isinstance(node, ast.DictComp):
            ctx.need(len(node.generators) == 1 and isinstance(node.generators[0].target, ast.Name) and not node.generators[0].ifs,
                     f'{mu.rel}::{origin}: comprehension shape not recognised')
            it = node.generators[0].iter
            if isinstance(it, ast.Name):
                it = mu.global_assign(it.id)
            ctx.need(isinstance(it, (ast.List, ast.Tuple)) and all(isinstance(x, ast.Constant) and isinstance(x.value, int) and x.value >= 1 for x in it.elts),  # type: ignore[union-attr]
                     f'{mu.rel}::{origin}: the comprehension does not range over a literal list of positive integers')
            out.append(dict(key=node.key, kw=ctor_kwargs(node.value, origin), var=node.generators[0].target.id, values=[x.value for x in it.elts], line=node.value.lineno, origin=origin))  # type: ignore[union-attr]
        else:
            raise AnalysisError(f'{mu.rel}::{origin}: machine table is neither a dict literal nor a dict comprehension')
    add_dict(mu.global_assign(table), table)
    return out


def _check_machine_memory(ctx: Ctx, cloud: str, mic: pf.Module, ic: ast.ClassDef) -> None:
    """R6.  The whole worker is billed quantified_resources(cores*1000, instance_memory(), 0) with instance_memory() = the machine table's `memory`; the job that
    fills a pool worker is given cores*1000 mcpu and <cloud>_cores_mcpu_to_memory_bytes(cores*1000, ...) bytes.  The memory resource bills bytes // MiB, so the two
    figures must agree for every pool machine type.  Both are evaluated SYMBOLICALLY (affine form in the core count with rounding slack, one evaluation per table
    entry / comprehension) - nothing is run."""
    spec = MACHINE_TABLES[cloud]
    mu = pf.load(spec['file'])
    ctx.unit('files', 1)
    base = f"{spec['file']}::{spec['table']}"
    # instance_memory() reads the table entry of the config's machine type
    meths = _methods(ic)
    im = meths.get('instance_memory')
    ctx.need(im is not None, f'{mic.rel}::{ic.name}: no instance_memory()')
    rets = [n for n in pf.walk_shallow(im) if isinstance(n, ast.Return)]
    srcs = _attr_sources(_init_fn(ic))  # type: ignore[arg-type]
    okm = len(rets) == 1 and rets[0].value is not None and isinstance(rets[0].value, ast.Attribute) and cf.self_attr(rets[0].value.value) is not None
    if okm:
        holder = cf.self_attr(rets[0].value.value)  # type: ignore[union-attr]
        field = rets[0].value.attr  # type: ignore[union-attr]
        hs = srcs.get(holder)
        okm = isinstance(hs, ast.Call) and pf.dotted(hs.func) == spec['lookup'] and len(hs.args) == 1
    if not okm:
        _R6_DEFERRED.append(f'{mic.rel}::{ic.name}.instance_memory() is not `self.<parts>.memory` with <parts> = {spec["lookup"]}(machine type) (whole-worker memory not followed)')
        return
    lk = mu.func(spec['lookup'])
    lrets = [n for n in pf.walk_shallow(lk) if isinstance(n, ast.Return) and n.value is not None]
    ok_lookup = len(lrets) == 1 and spec['table'] in pf.nsrc(lrets[0].value) and (isinstance(lrets[0].value, ast.Subscript) or (isinstance(lrets[0].value, ast.Call)
                                                                                  and isinstance(lrets[0].value.func, ast.Attribute) and lrets[0].value.func.attr == 'get'))
    if not ok_lookup:
        _R6_DEFERRED.append(f'{mu.rel}::{spec["lookup"]} does not return {spec["table"]}[machine_type] / .get(machine_type)')
        return
    # which table fields the instance config uses as cores / worker type
    def field_of(attr: str) -> Optional[str]:
        v = srcs.get(attr)
        if isinstance(v, ast.Attribute) and isinstance(v.value, ast.Call) and pf.dotted(v.value.func) == spec['lookup']:
            return v.attr
        return None
    f_cores = field_of('cores')
    wt_ret = [n for n in pf.walk_shallow(meths['worker_type']) if isinstance(n, ast.Return)] if 'worker_type' in meths else []
    f_wt = field_of(cf.self_attr(wt_ret[0].value) or '') if len(wt_ret) == 1 and wt_ret[0].value is not None else None
    if f_cores is None or f_wt is None:
        _R6_DEFERRED.append(f'{mic.rel}::{ic.name}: self.cores / worker_type() are not fields of {spec["lookup"]}(machine type)')
        return
    job_fn = mu.func(spec['job_fn'])
    jps = [a.arg for a in job_fn.args.args]
    ctx.need(len(jps) >= 2 and 'cpu' in jps[0], f'{mu.rel}::{spec["job_fn"]}: parameters {jps}')
    pool_family = None
    if spec['family_const']:
        g = mu.global_assign(spec['family_const'])
        ctx.need(isinstance(g, ast.Constant) and isinstance(g.value, str), f'{mu.rel}::{spec["family_const"]} is not a string literal')
        pool_family = g.value  # type: ignore[union-attr]
    namer_tpl = None
    if spec['namer']:
        nf = mu.func(spec['namer'])
        nr = [n for n in pf.walk_shallow(nf) if isinstance(n, ast.Return) and n.value is not None]
        ctx.need(len(nr) == 1 and isinstance(nr[0].value, ast.JoinedStr), f'{mu.rel}::{spec["namer"]} does not return an f-string')
        namer_tpl = (nr[0].value, [a.arg for a in nf.args.args])
    n_checked = n_skipped = 0
    for ent in _machine_entries(ctx, mu, spec['table']):
        kw = ent['kw']
        label = pf.fstring_template(ent['key'], lambda h: '{' + pf.nsrc(h) + '}') or pf.nsrc(ent['key'])
        ctx.need(field in kw and f_cores in kw and f_wt in kw, f'{base}: entry {label} lacks {field} / {f_cores} / {f_wt}')
        env: Dict[str, object] = {ent['var']: cf.Aff(1, 0, 0)} if ent['var'] else {}
        ev = cf.AffEval(mu, dict(env))
        try:
            cores = ev.num(kw[f_cores])
            whole = ev.num(kw[field])
            consts = {k: cf.AffEval.constant(cf.AffEval(mu, dict(env)).ev(v)) for k, v in kw.items() if k not in (field, f_cores) and isinstance(v, ast.Constant)}
        except (cf.AffUndecided, cf.NotApplicable) as e:
            _R6_DEFERRED.append(f'{base}: entry {label}: {e} (not decided)')
            continue
        # is this machine type one a pool worker can have?  (the scheduler names pool machines by the namer and passes the pool machine family)
        args: Dict[str, object] = {jps[0]: cf.Aff(cores.k * 1000, cores.lo * 1000, cores.hi * 1000)}
        pool_ok = True
        for p_ in jps[1:]:
            if 'family' in p_ and 'machine_family' in consts:
                args[p_] = consts['machine_family']
                pool_ok = pool_ok and (pool_family is None or consts['machine_family'] == pool_family)
            elif 'worker_type' in p_ or 'family' in p_:
                args[p_] = consts.get(f_wt, cf._NOCONST)
            else:
                args[p_] = cf._NOCONST
        if any(v is cf._NOCONST for v in args.values()):
            _R6_DEFERRED.append(f'{base}: entry {label}: cannot bind the parameters {jps} of {spec["job_fn"]} from the entry')
            continue
        if namer_tpl is not None and pool_ok:
            tpl, nps = namer_tpl
            bind = {}
            for p_ in nps:
                if 'family' in p_:
                    bind[p_] = str(consts.get('machine_family'))
                elif 'worker_type' in p_:
                    bind[p_] = str(consts.get(f_wt))
                else:
                    bind[p_] = '{' + pf.nsrc(kw[f_cores]) + '}'
            want = pf.fstring_template(tpl, lambda h: bind.get(pf.nsrc(h), '{?}'))
            got = pf.fstring_template(ent['key'], lambda h: '{' + pf.nsrc(h) + '}')
            pool_ok = want is not None and got is not None and want == got
        if not pool_ok:
            n_skipped += 1
            continue
        try:
            job = cf.AffEval(mu, {}).call(job_fn, [], args)
        except cf.NotApplicable:
            n_skipped += 1       # no per-core figure for this family / worker type: not a pool machine (job-private instances read the table on both sides)
            continue
        except cf.AffUndecided as e:
            _R6_DEFERRED.append(f'{base}: entry {label}: {spec["job_fn"]}: {e} (not decided)')
            continue
        if not isinstance(job, cf.Aff):
            _R6_DEFERRED.append(f'{base}: entry {label}: {spec["job_fn"]} does not evaluate to a number')
            continue
        n_checked += 1
        cons = f'{base}::{label}::memory == cores x per-core memory'
        dk, dlo, dhi = whole.k - job.k, whole.lo - job.hi, whole.hi - job.lo
        # for every x >= 1:  difference in [dk*x + dlo, dk*x + dhi]
        x0 = min(ent['values']) if ent['values'] else 1
        if dk == 0 and dlo == 0 and dhi == 0:
            ctx.ok('R6', cons, {'whole_worker_bytes': repr(whole), 'job_bytes': repr(job), 'x': ent['var']})
            continue
        less = (dk <= 0 and dk * x0 + dhi <= -MIB)       # whole worker below the job for every size
        more = (dk >= 0 and dk * x0 + dlo >= MIB)
        if less or more:
            wit_c = x0 if ent['var'] else int(cores.lo)
            w_mib = (whole.k * x0 + whole.hi) / MIB if ent['var'] else whole.hi / MIB
            j_mib = (job.k * x0 + job.lo) / MIB if ent['var'] else job.lo / MIB
            ctx.bad('R6', cons, f"the machine table gives {label} `{field}={short(pf.nsrc(kw[field]), 60)}` (what instance_memory() returns, i.e. what the WHOLE WORKER is billed for), "
                    f"but a job that fills such a pool worker is given {spec['job_fn']}(cores*1000, ...) = cores x per-core memory: the two differ by at least 1 MiB for every size "
                    f"(per core: {float(whole.k / MIB) if ent['var'] else float(whole.lo / MIB / max(cores.lo, 1)):.1f} vs {float(job.k / MIB) if ent['var'] else float(job.lo / MIB / max(cores.lo, 1)):.1f} MiB; "
                    f"e.g. {wit_c} cores: worker ~{float(w_mib):.0f} MiB, job ~{float(j_mib):.0f} MiB). The memory resource bills bytes // MiB, so "
                    + ("the jobs that fill the worker are billed MORE memory than the whole worker" if less else "a job using the whole worker is billed LESS memory than the whole worker")
                    + " - 'a job using the whole worker is billed exactly the whole worker' fails", mu.path, ent['line'])
        else:
            _R6_DEFERRED.append(f'{base}: entry {label}: whole-worker memory {whole!r} and job memory {job!r} are not proved equal nor apart by a MiB (not decided)')
    ctx.need(n_checked >= 1, f'{base}: no pool machine type was compared (anchor changed)')
    ctx.unit('machine_types_compared', n_checked)
    ctx.unit('machine_types_not_pool', n_skipped)


def run(ctx: Ctx) -> None:
    ctx.explanation = ('from_dict is executed abstractly on the symbolic dictionary written by to_dict of the same class (all test valuations that the written '
                       'constants do not decide), every constructor argument is followed through __init__ back to the written key and from_dict o to_dict is compared with the '
                       'identity structurally (many-to-one writer + one-to-many reader = lossy); dispatch tables are compared with the class set; to_quantified_resource is '
                       'executed abstractly through the MRO (symbolic dicts with provenance fresh / memo / state and aliasing), its quantity expressions are typed in a '
                       'superadditive-monotone fragment and every in-place update of a retained dict is reported.')
    ctx.rule('R1', 'to_dict/from_dict round trip per class: keys read are written, type/version assertions hold, each field returns to its own key; from_dict o to_dict is the '
             'identity on every attribute (no collection rebuilt from a summary, no defaulted parameter dropped, no memo inside from_dict whose key omits a field the cached value is built from)', 66)
    ctx.rule('R2', 'resource dispatchers cover every class TYPE with that class\'s from_dict; TYPEs distinct; created resource classes covered', 56)
    ctx.rule('R3', 'every billed quantity is a monotone superadditive function of (cpu, memory, worker fraction); the worker fraction passed on (helpers seen through) is '
             '1024*cpu / (cores*1000) rounded DOWN', 19)
    ctx.rule('R4', 'quantification is a pure function of (self fields, arguments): no dict retained between calls (memoised / stored state) is updated in place, no billed field is '
             'changed, memo keys cover what the value depends on; the whole worker is quantified by the same function at (cores*1000, instance_memory(), 0)', 20)
    ctx.rule('R5', 'every attribute the billing path reads is set by __init__ from constructor parameters (whose round trip R1 decides) or is a class constant', 27)
    ctx.rule('R6', 'whole worker == the job that fills it: for every pool machine type the machine table memory (instance_memory()) equals cores x the per-core memory '
             'the scheduler gives jobs (<cloud>_cores_mcpu_to_memory_bytes at cores*1000), compared as affine forms in the core count', 41)
    ctx.assume('float arithmetic in the memory tables is read as real arithmetic (errors far below the 1 MiB billing unit)')
    ctx.assume('instance attributes used as factors/divisors (storage_in_gib, number, cores) are non-negative (cores positive) integers')
    ctx.assume('external storage is billed per job on top of the worker and is outside the packing clause')
    ctx.assume('callers outside the analysed files only read the dicts returned by quantified_resources (a memoised quantification that nobody updates in place is accepted)')
    ctx.assume('the elements of a collection attribute (e.g. the resource name per disk tier) can differ independently of each other')
    _CLASSES.clear()
    _TYPED_DICTS.clear()
    _MATERIALISED.clear()
    del _R6_DEFERRED[:]
    _reported_events.clear()
    _IC_CLASSES.clear()
    mres = pf.load(F_RES)
    mbase = pf.load(F_IC)
    for c in mres.classes():
        _CLASSES[c.name] = (mres, c)
        if any(pf.dotted(b) in ('TypedDict', 'typing.TypedDict') for b in c.bases):
            _TYPED_DICTS.add(c.name)
    for c in mbase.classes():
        _CLASSES[c.name] = (mbase, c)
    mods = {}
    for cloud, (fres, fic, disp) in CLOUD_FILES.items():
        mods[cloud] = (pf.load(fres), pf.load(fic))
        for mm in mods[cloud]:
            for c in mm.classes():
                ctx.need(c.name not in _CLASSES, f'{mm.rel}: class {c.name} defined twice among the analysed files')
                _CLASSES[c.name] = (mm, c)
    quants: List[Quantified] = []
    for cloud, (fres, fic, disp) in CLOUD_FILES.items():
        m, mic = mods[cloud]
        ctx.unit('files', 2)
        concrete = [c for c in m.classes() if 'TYPE' in _class_consts(c)]
        ctx.need(len(concrete) >= 4, f'{fres}: only {len(concrete)} resource classes with a TYPE')
        for c in concrete:
            meths = _methods(c)
            ctx.need('to_dict' in meths and 'from_dict' in meths, f'{fres}::{c.name} lacks to_dict/from_dict')
            qd = _quantified(ctx, m, c)
            quants.append(qd)
            reads = _billing_reads(qd)
            _check_roundtrip(ctx, m, c, None, reads)
            _check_billing_attrs(ctx, m, c, reads, 'to_quantified_resource')
            _check_purity(ctx, qd)
            ctx.unit('classes')
        _check_dispatcher(ctx, m, mic, disp, concrete)
        ics = [c for c in mic.classes() if 'to_dict' in _methods(c) and 'from_dict' in _methods(c)]
        ctx.need(len(ics) == 1, f'{fic}: expected one InstanceConfig subclass with to_dict/from_dict')
        _IC_CLASSES.append((mic, ics[0]))
        _check_roundtrip(ctx, mic, ics[0], disp, None, [(c.name, _class_consts(c)['TYPE'].value) for c in concrete if isinstance(_class_consts(c).get('TYPE'), ast.Constant)])  # type: ignore[attr-defined]
        # attributes read by InstanceConfig.quantified_resources and by instance_memory() (the whole-worker memory)
        ic_reads: Dict[str, str] = {}
        for fn in [mbase.func('InstanceConfig.quantified_resources')] + [f for n, f in _methods(ics[0]).items() if n == 'instance_memory']:
            for n in ast.walk(fn):
                a = cf.self_attr(n)
                if a is not None and isinstance(n.ctx, ast.Load) and a not in _methods(ics[0]) and a not in _methods(_CLASSES['InstanceConfig'][1]):  # type: ignore[attr-defined]
                    ic_reads.setdefault(a, f'self.{a} in {fn.name}')
        _check_billing_attrs(ctx, mic, ics[0], ic_reads, 'quantified_resources')
        _check_created_collections(ctx, mic, ics[0])
        _check_machine_memory(ctx, cloud, mic, ics[0])
        ctx.unit('classes')
    ctx.unit('files', 2)
    _check_superadditive(ctx, quants)
    for a in sorted(_ASSUMED):
        ctx.assume(a)
    if _R6_DEFERRED:
        raise AnalysisError('; '.join(dict.fromkeys(_R6_DEFERRED)))
