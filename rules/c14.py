"""C14 Batch API access control  (every registered route of the batch front end).

  R1  public set: a handler without an authenticating decorator must be one of the listed public endpoints
      (health, version/cloud, swagger/openapi, tos/privacy, static js)
  R2  batch-scoped routes (path contains {batch_id}): wrapped by billing_project_users_only, or authenticated AND owner-protected (R3)
  R3  owner protection of the mutation routes: every database write / CALL reachable from the handler (helpers followed by name,
      nested transaction functions included) is dominated by an owner filter - a SELECT over batches / job_groups with
      `user = <caller>` and `batch id = <path batch id>` whose empty result raises - or happens inside a helper that is itself
      protected in that sense
  R4  billing-project / billing-limit administration (POST routes under those prefixes) requires developer or the auth service
  R5  the wrappers themselves: authenticated_users_only raises for a missing or inactive user before calling the handler;
      authenticated_developers_only and authenticated_developers_or_auth_only are built on it and test is_developer (or username ==
      'auth'); billing_project_users_only is built on it, tests membership of the batch's billing project for the path's batch id and
      raises before calling the handler; pass-through decorators do not skip the inner handler's wrapper
  R6  listing queries: every condition ANDed onto the batch / billing-project scope stays one conjunct
  R7  sub-resource selectors: the membership / owner test covers the path's batch id only, so every further path component of a
      {batch_id} route is either converted by int() or - as a string - confined, at every point where it selects what is fetched
      (worker URL, object-store key, SQL text; followed through helpers by parameter), to a language without '/': the language
      admitted by the conditions that dominate the use is computed as a regular language and intersected with .*'/'.*
  R8  membership has one meaning: the `.../users/{user}/remove` routes reach a write of billing_project_users keyed by the path's
      (billing project, user); when that write keeps the row (UPDATE ... SET c = v) the filter of EVERY reader of the table
      (_user_can_access behind billing_project_users_only, batch creation, the listings, the billing-project views) must reject a row
      with c = v (three-valued may-analysis of its conjuncts); and no row state the front end can write (literal column values of its
      INSERT / UPDATE statements) is rejected by one reader and admitted by another
  R9  per-query batch filters: every SELECT / UPDATE / DELETE scope an embedded statement of a {batch_id} route runs over a table
      keyed by a batch id ties that key - by a WHERE conjunct, the ON clause that brings the table in, or transitively through join
      equalities - to a bound parameter (union-find over the equality conjuncts; an outer join's ON clause restricts only the joined
      table); where the bound value traces back to path components it must be {batch_id}
Not decided: correctness of the auth service, session handling; SQL text assembled by the query parsers (R6 covers its scope conjunct).
"""
from __future__ import annotations

import ast
from typing import Dict, List, Optional, Set, Tuple

from engines import c06c14sql as sq
from engines import c14facts as cf
from engines import pyfacts as pf
from engines import sqlfront as sf
from engines import sqlrules as sr
from engines.common import AnalysisError, Ctx
from engines.sqlast import N, Parser, SqlParseError, text

META = dict(
    category='other',
    text='Every @routes registration of the batch front end is classified by its resolved decorator chain against the statement\'s own partition of endpoints; '
         'owner-only mutations are checked by an inter-procedural must-pass-through (owner filter dominates every write and every normal response); the wrappers\' own bodies are checked; '
         'string path components of the per-batch routes are followed to the lookups they select and the regular language admitted by the dominating conditions is intersected with .*/.*; '
         'the readers of billing_project_users are checked against the revocation write (three-valued may-analysis) and against each other; every embedded statement of a per-batch route '
         'is checked to be tied to the request batch (union-find over equality conjuncts).',
    note='Helpers are resolved by name inside front_end.py (depth 4-6). The auth service and aiohttp routing are trusted (a path component is matched per segment and percent-decoded afterwards). '
         'A route added with a new decorator the checker cannot classify, a string path component handed to an unclassified library call, or a condition on it that is not a recognised string '
         'predicate makes the check decline (exit 2). SQL text assembled by the query parsers is covered by R6 only.',
    technique='static analysis: decorator-chain resolution over all routes + inter-procedural dominance (must-pass-through) of an owner filter + taint flow of path components with regular-language '
              'guards (relang/strpred) + SQL conjunct analysis (may-analysis over NULL/boolean states, union-find of batch-key equalities)',
    design_ref='DESIGN.md §3 C14',
)

FE = 'batch/batch/front_end/front_end.py'
PUBLIC = {'/healthcheck', '/api/v1alpha/version', '/api/v1alpha/cloud', '/swagger', '/openapi.yaml', '/tos', '/privacy', '/batch/static/js/{filename}'}
NEUTRAL = {'add_metadata_to_request', 'web_security_headers', 'web_security_headers_swagger', 'catch_ui_error_in_dev', 'deprecated', 'wraps', 'api_security_headers'}
LEVELS = {'auth.authenticated_users_only': 'user', 'auth.authenticated_developers_only': 'developer', 'billing_project_users_only': 'member',
          'authenticated_developers_or_auth_only': 'dev-or-auth'}
# routes served by imported handlers that are not part of the batch API (one line of reason each)
EXTERNAL_HANDLERS = {('GET', '/metrics', 'server_stats')}  # prometheus_async process metrics: no batch data, not an API endpoint of the statement
ADMIN_PREFIXES = ('/billing_projects/', '/api/v1alpha/billing_projects/', '/billing_limits/', '/api/v1alpha/billing_limits/')


ROUTE_REGEX: Dict[Tuple[str, str], Dict[str, str]] = {}


def split_route(path: str) -> Tuple[str, Dict[str, str]]:
    """aiohttp dynamic segments `{name:regex}` (the regex may contain balanced braces) -> the path with plain `{name}` segments,
    and the regex of each constrained component."""
    out = []
    regs: Dict[str, str] = {}
    i = 0
    while i < len(path):
        c = path[i]
        if c != '{':
            out.append(c)
            i += 1
            continue
        depth = 0
        j = i
        while j < len(path):
            if path[j] == '{':
                depth += 1
            elif path[j] == '}':
                depth -= 1
                if depth == 0:
                    break
            j += 1
        if j >= len(path):
            raise AnalysisError(f'{FE}: unbalanced braces in route path {path!r}')
        inner = path[i + 1:j]
        name, sep, rx = inner.partition(':')
        out.append('{' + name.strip() + '}')
        if sep:
            regs[name.strip()] = rx
        i = j + 1
    return ''.join(out), regs


def _reg(method: str, raw_path: str) -> Tuple[str, str]:
    npath, regs = split_route(raw_path)
    ROUTE_REGEX[(method, npath)] = regs
    return method, npath


def _str_of(m: pf.Module, e: ast.AST) -> Optional[str]:
    """A string literal, or a module-level constant bound once to one (route paths moved to constants)."""
    s0 = pf.const_str(e)
    if s0 is None and isinstance(e, ast.Name):
        t, holes = sq.sql_of_expr(m, None, e)
        if t is not None and not holes:
            return t
    return s0


def routes_of(m: pf.Module) -> List[Tuple[pf.FuncDef, List[Tuple[str, str]], List[str]]]:
    """One entry per (handler, set of decorators that wrap the function OBJECT that was registered).  Decorators apply bottom-up: a
    `@routes.X(path)` line registers the function as decorated by the lines BELOW it only; a wrapper written above the registration
    line does not protect that route (RouteTableDef registers the object it receives)."""
    out = []
    for fn in m.tree.body:
        if not isinstance(fn, (ast.FunctionDef, ast.AsyncFunctionDef)):
            continue
        names = []
        for d in fn.decorator_list:
            names.append((pf.dotted(d.func) if isinstance(d, ast.Call) else pf.dotted(d), d))
        groups: Dict[Tuple[str, ...], List[Tuple[str, str]]] = {}
        for i, (name, d) in enumerate(names):
            if name is not None and name.startswith('routes.') and isinstance(d, ast.Call):
                verb = name.split('.')[1]
                if verb == 'route':
                    ctx_args = [_str_of(m, a) for a in d.args[:2]]
                    if len(ctx_args) < 2 or None in ctx_args:
                        raise AnalysisError(f'{FE}:{fn.lineno}: routes.route(...) without literal method and path')
                    method, path = ctx_args[0].upper(), ctx_args[1]  # type: ignore[union-attr]
                else:
                    path = _str_of(m, d.args[0]) if d.args else None
                    if path is None:
                        raise AnalysisError(f'{FE}:{fn.lineno}: route path is not a literal')
                    method = verb.upper()
                below = tuple(n or pf.nsrc(dd) for n, dd in names[i + 1:] if not (n is not None and n.startswith('routes.')))
                groups.setdefault(below, []).append(_reg(method, path))
        for below, regs in groups.items():
            out.append((fn, regs, list(below)))
    # registrations outside the decorator idiom: app.router.add_<verb>(path, handler) / web.<verb>(path, handler)
    top = {f.name: f for f in m.tree.body if isinstance(f, (ast.FunctionDef, ast.AsyncFunctionDef))}
    for c in ast.walk(m.tree):
        if not isinstance(c, ast.Call) or not isinstance(c.func, ast.Attribute):
            continue
        verb = None
        if c.func.attr.startswith('add_') and c.func.attr[4:] in ('get', 'post', 'put', 'patch', 'delete', 'head', 'route', 'view') and pf.nsrc(c.func.value).endswith('router'):
            verb = c.func.attr[4:]
        elif pf.nsrc(c.func.value) == 'web' and c.func.attr in ('get', 'post', 'put', 'patch', 'delete', 'head', 'route', 'view') and len(c.args) >= 2:
            verb = c.func.attr
        if verb is None:
            continue
        args = list(c.args)
        method = verb.upper()
        if verb == 'route':
            mth = _str_of(m, args[0]) if args else None
            if mth is None:
                raise AnalysisError(f'{FE}:{c.lineno}: add_route without a literal method')
            method, args = mth.upper(), args[1:]
        path = _str_of(m, args[0]) if args else None
        h = args[1] if len(args) > 1 else None
        if path is None or not isinstance(h, ast.Name):
            raise AnalysisError(f'{FE}:{c.lineno}: `{pf.nsrc(c)}` registers a route whose path/handler is not a literal / a plain name')
        method, path = _reg(method, path)
        if h.id not in top:
            if path in PUBLIC or (method, path, h.id) in EXTERNAL_HANDLERS:
                continue
            raise AnalysisError(f'{FE}:{c.lineno}: route {method} {path} is served by `{h.id}`, which is not defined in this module')
        f2 = top[h.id]
        decos = [(pf.dotted(d.func) if isinstance(d, ast.Call) else pf.dotted(d)) or pf.nsrc(d) for d in f2.decorator_list]
        out.append((f2, [(method, path)], [d for d in decos if not d.startswith('routes.')]))
    return out


_ALIASES: Dict[str, str] = {}


def _decorator_aliases(m: pf.Module) -> None:
    """`users_only = auth.authenticated_users_only()` / `members_only = billing_project_users_only()` at module level: the alias
    stands for the decorator it is bound to."""
    for name, v in sq.module_constants(m).items():
        if v is None:
            continue
        d = pf.dotted(v.func) if isinstance(v, ast.Call) else pf.dotted(v)
        if d is not None and (d in LEVELS or d in NEUTRAL) and name not in LEVELS and name not in NEUTRAL:
            _ALIASES[name] = d


def level_of(decos: List[str]) -> Tuple[Optional[str], List[str]]:
    lv = None
    unknown = []
    for d in decos:
        d = _ALIASES.get(d, d)
        if d in LEVELS:
            rank = ['user', 'member', 'dev-or-auth', 'developer']
            if lv is None or rank.index(LEVELS[d]) > rank.index(lv):
                lv = LEVELS[d]
        elif d not in NEUTRAL:
            unknown.append(d)
    return lv, unknown


# ------------------------------------------------------------------------------------------------
OWNER_TABLES = ('batches', 'job_groups')


class Cand:
    """An embedded SELECT that filters on the `user` column of batches / job_groups: a candidate owner filter."""

    def __init__(self, node: Optional[pf.Node], emb, status: str, reason: str):
        self.node = node
        self.emb = emb
        self.status = status  # 'valid' | 'invalid' (a recognised shape that does not establish ownership) | 'unknown' (not analysable)
        self.reason = reason
        self.forward: List[Tuple[pf.FuncDef, str, str]] = []  # (function, parameter, 'user' | 'userdata') the caller's name is received through


class OwnerAnalysis:
    """Owner filter = a single SELECT over batches / job_groups whose WHERE clause (or an inner join's ON clause) equates the `user`
    column of such a table with a bound parameter that denotes the authenticated caller, whose batch key (batches.id / <t>.batch_id,
    possibly of a table joined on the batch key: union-find over the equalities) is equated with a bound parameter that traces back
    to the path's {batch_id}, and whose EMPTY result stops the function: under `row is None / falsy` no database write and no normal
    return is reachable from the statement (branch conditions on the row evaluated three-valued; a module helper that raises for a
    falsy argument counts; re-assignment of the row variable ends the knowledge).  Table aliases, operand order, conjunct order, the
    order of the argument tuple, where the text lives (literal / constant) and how the rejection is spelt do not matter.
    A statement that looks like an owner filter but cannot be analysed makes the route DECLINE instead of alarm."""

    def __init__(self, ctx: Ctx, m: pf.Module, handlers: Dict[int, str], handler_params: Dict[int, Dict[str, str]]):
        self.ctx = ctx
        self.m = m
        self.embs = sf.embedded_in(m)
        self.names = cf.PathFlow(m)
        self.fns = [f for _, f in m.functions()]
        self.handlers = handlers  # id(route handler) -> name of its userdata parameter
        self.handler_params = handler_params
        self.memo: Dict[int, bool] = {}
        self.has_writes_memo: Dict[int, bool] = {}
        self.cand_memo: Dict[int, List[Cand]] = {}
        self.rej_memo: Dict[Tuple[int, str], bool] = {}
        self.trace_memo: Dict[Tuple[int, str], set] = {}
        prog = sf.load_program()
        self.schema: Dict[str, Set[str]] = {k.lower(): {c.lower() for c in v} for k, v in prog.tables.items()}
        self.forwarded: Dict[Tuple[int, str], Tuple[pf.FuncDef, str, str]] = {}

    def resolve(self, fn: pf.FuncDef, call: ast.Call) -> Optional[pf.FuncDef]:
        # nested def in fn or an enclosing function, else module level (indexed once per module)
        return self.names.resolve(fn, call)

    # ---- where a value comes from -------------------------------------------------------------------------------------------
    def _owner_of(self, fn: pf.FuncDef, name: str) -> Optional[pf.FuncDef]:
        cur: Optional[pf.FuncDef] = fn
        while cur is not None and name not in pf.assignments(cur):
            cur = self.m.enclosing_func(cur)
        return cur

    def _reaching(self, owner: pf.FuncDef, use: ast.Name) -> Optional[ast.AST]:
        """The one definition of the name that reaches this use: the single definition, or - for a name that is re-bound later - the
        definition no other definition of which lies on a path to the use (flow-sensitive through the CFG)."""
        defs = pf.assignments(owner)[use.id]
        if len(defs) == 1:
            return defs[0]
        g = pf.cfg(owner)
        use_nodes = g.node_of(use)
        if len(use_nodes) != 1:
            return None
        un = use_nodes[0]
        def_nodes: List[Tuple[ast.AST, Optional[pf.Node]]] = []
        for d in defs:
            if isinstance(d, ast.arg):
                def_nodes.append((d, None))
                continue
            ns = g.node_of(d)
            if len(ns) != 1:
                return None
            def_nodes.append((d, ns[0]))
        others = [n for _, n in def_nodes if n is not None]
        reaching = []
        for d, n in def_nodes:
            start = g.entry if n is None else n
            rest = [x for x in others if x is not n]
            if n is un and g.path_avoiding(n, lambda x: x is un, lambda x: any(x is y for y in rest)) is None:
                continue  # the use is evaluated before this very statement binds the name, and no loop leads back
            if start is un and n is None:
                reaching.append(d)
                continue
            if g.path_avoiding(start, lambda x: x is un, lambda x: any(x is y for y in rest)) is not None:
                reaching.append(d)
        return reaching[0] if len(reaching) == 1 else None

    def origin(self, fn: pf.FuncDef, e: ast.AST, kind: str = 'user', depth: int = 6, via: Optional[List[Tuple[pf.FuncDef, str, str]]] = None) -> Set[str]:
        """What an expression denotes: {'caller'} (kind 'user': the authenticated caller's username) / {'userdata'} (kind 'userdata':
        the userdata the authenticating wrapper hands to a route handler); 'other:<text>' for a value that is visibly something else;
        '?<text>' when the analysis gives up.  Parameters of helpers are followed to every call site in the module."""
        if depth <= 0:
            return {'?' + pf.nsrc(e)[:40]}
        while isinstance(e, ast.Await):
            e = e.value
        if isinstance(e, ast.Name):
            owner = self._owner_of(fn, e.id)
            if owner is None:
                return {'?' + e.id}
            d = self._reaching(owner, e)
            if d is None:
                return {'?' + e.id}
            if isinstance(d, ast.arg):
                if kind == 'userdata' and self.handlers.get(id(owner)) == e.id:
                    return {'userdata'}
                if id(owner) in self.handlers:
                    return {'other:parameter `' + e.id + '` of the route handler ' + owner.name}
                if via is not None:
                    via.append((owner, e.id, kind))
                sites = cf.param_args(self.names, self.fns, owner, e.id)
                if not sites:
                    return {'?' + e.id}
                out: Set[str] = set()
                for caller, arg in sites:
                    out |= self.origin(caller, arg, kind, depth - 1) if arg is not None else {'?*'}
                return out
            if isinstance(d, ast.expr):
                return self.origin(owner, d, kind, depth - 1, via)
            return {'?' + e.id}
        if kind == 'user' and isinstance(e, ast.Subscript) and pf.const_str(e.slice) == 'username':
            o = self.origin(fn, e.value, 'userdata', depth - 1, via)
            if o == {'userdata'}:
                return {'caller'}
            return {x for x in o if x != 'userdata'} or {'?' + pf.nsrc(e)[:40]}
        if isinstance(e, (ast.Call, ast.Constant, ast.BinOp, ast.JoinedStr, ast.IfExp, ast.BoolOp)):
            return {'other:`' + pf.nsrc(e)[:60] + '`'}
        return {'?' + pf.nsrc(e)[:40]}

    # ---- the empty result stops the function ---------------------------------------------------------------------------------
    def _ev_empty(self, e: ast.AST, is_row) -> Optional[bool]:
        """Three-valued value of a condition when the row is None."""
        if isinstance(e, ast.BoolOp):
            vs = [self._ev_empty(v, is_row) for v in e.values]
            if isinstance(e.op, ast.And):
                for v in vs:  # short-circuit: operands after a false one are not evaluated
                    if v is False:
                        return False
                    if v is None:
                        return None
                return True
            for v in vs:
                if v is True:
                    return True
                if v is None:
                    return None
            return False
        if isinstance(e, ast.UnaryOp) and isinstance(e.op, ast.Not):
            v = self._ev_empty(e.operand, is_row)
            return None if v is None else (not v)
        if isinstance(e, ast.Compare) and len(e.ops) == 1 and isinstance(e.ops[0], (ast.Is, ast.IsNot, ast.Eq, ast.NotEq)) and isinstance(e.comparators[0], ast.Constant) \
                and e.comparators[0].value is None and is_row(e.left):
            return isinstance(e.ops[0], (ast.Is, ast.Eq))
        if is_row(e):
            return False
        return None

    def reach_when_empty(self, fn: pf.FuncDef, g: pf.CFG, start: Optional[pf.Node], var: Optional[str], call: Optional[ast.Call], depth: int = 2) -> Tuple[Set[int], bool]:
        """(ids of the CFG nodes reachable after the statement at `start` (the function entry when None) when the row held by `var` /
        returned by `call` is None; whether a condition on the row had to be left undecided)."""
        undecided = [False]

        def is_row_factory(live: bool):
            def is_row(x: ast.AST) -> bool:
                while isinstance(x, ast.Await):
                    x = x.value
                if live and var is not None and isinstance(x, ast.Name) and x.id == var:
                    return True
                return call is not None and isinstance(x, ast.Call) and (x.lineno, x.col_offset) == (call.lineno, call.col_offset)
            return is_row

        def reassigns(n: pf.Node) -> bool:
            if var is None or n is start or n.ast is None:
                return False
            a = n.ast
            if isinstance(a, ast.Assign):
                return any(isinstance(x, ast.Name) and x.id == var for t in a.targets for x in ast.walk(t))
            if isinstance(a, (ast.AnnAssign, ast.AugAssign)):
                return isinstance(a.target, ast.Name) and a.target.id == var
            if n.kind in ('loop', 'with', 'except'):
                return any(isinstance(x, ast.Name) and x.id == var and isinstance(x.ctx, ast.Store) for h in pf.node_exprs(n) for x in ast.walk(h)) or \
                    (n.kind == 'except' and getattr(a, 'name', None) == var)
            return any(isinstance(x, ast.NamedExpr) and isinstance(x.target, ast.Name) and x.target.id == var for x in pf.walk_shallow(a))

        def guard_blocks(n: pf.Node, live: bool) -> bool:
            """The statement hands the (None) row to a module helper that raises for it."""
            if not live or var is None or depth <= 0 or n.ast is None:
                return False
            for c in pf.node_calls(n):
                h = self.resolve(fn, c)
                if h is None or h is fn:
                    # the (None) row is handed to a callee this analysis cannot read (imported, a method ...): it may be a check that raises
                    if any(isinstance(a, ast.Name) and a.id == var for a in list(c.args) + [k.value for k in c.keywords]):
                        undecided[0] = True
                    continue
                amap = cf.call_args_by_param(h, c)
                if amap is None:
                    undecided[0] = True
                    continue
                for pname, arg in amap.items():
                    if isinstance(arg, ast.Name) and arg.id == var and self.rejects_empty(h, pname, depth - 1):
                        return True
            return False
        seen: Set[Tuple[int, bool]] = set()
        first = start if start is not None else g.entry
        stack: List[Tuple[pf.Node, bool]] = []

        def push_succs(n: pf.Node, live: bool) -> None:
            d: Optional[bool] = None
            if n.kind == 'test' and n.ast is not None:
                d = self._ev_empty(n.ast, is_row_factory(live))
                if d is None and var is not None and live and var in pf.names_in(n.ast):
                    undecided[0] = True
            blocked = guard_blocks(n, live)
            for s2, lab in n.succ:
                if d is True and lab == 'F':
                    continue
                if d is False and lab == 'T':
                    continue
                if blocked and lab != 'exc':
                    continue
                l2 = live and not reassigns(s2)
                if (s2.id, l2) not in seen:
                    seen.add((s2.id, l2))
                    stack.append((s2, l2))
        push_succs(first, True)
        while stack:
            n, live = stack.pop()
            push_succs(n, live)
        return {i for i, _ in seen}, undecided[0]

    def rejects_empty(self, h: pf.FuncDef, param: str, depth: int) -> bool:
        """Helper h cannot return normally when its parameter `param` is None / falsy."""
        k = (id(h), param)
        if k not in self.rej_memo:
            self.rej_memo[k] = False
            if len(pf.assignments(h).get(param, [])) == 1:
                g = pf.cfg(h)
                reach, _ = self.reach_when_empty(h, g, None, param, None, depth)
                self.rej_memo[k] = g.exit.id not in reach
        return self.rej_memo[k]

    # ---- candidate owner filters of one function -----------------------------------------------------------------------------
    def candidates(self, fn: pf.FuncDef) -> List[Cand]:
        k = id(fn)
        if k in self.cand_memo:
            return self.cand_memo[k]
        out: List[Cand] = []
        self.cand_memo[k] = out
        g = pf.cfg(fn)
        for e in self.embs:
            if e.fn is not fn:
                continue
            c = self._candidate(fn, g, e)
            if c is not None:
                out.append(c)
        return out

    def _candidate(self, fn: pf.FuncDef, g: pf.CFG, e) -> Optional[Cand]:
        nodes = g.node_of(e.call)
        node = nodes[0] if len(nodes) == 1 else None
        if e.sql_text is None:
            if e.method in ('select_and_fetchone', 'execute_and_fetchone', 'select_and_fetchall', 'execute_and_fetchall'):
                return Cand(node, e, 'unknown', f'the text of the query at line {e.lineno} is not resolvable')
            return None
        sts = e.stmts()
        if e.parse_error is not None:
            low = e.sql_text.lower()
            if 'user' in low and any(t in low for t in OWNER_TABLES):
                return Cand(node, e, 'unknown', f'the query at line {e.lineno} does not parse ({e.parse_error})')
            return None
        if len(sts) != 1 or sts[0].kind != 'select' or sts[0].frm is None:
            return None
        st = sts[0]
        f = cf.SelectFacts(st, self.schema)
        inner_on = {f'on:{cf._lc(getattr(j.ref, "alias", None) or getattr(j.ref, "name", "") or "?")}' for j in st.frm.joins
                    if not any(w in (j.jtype or '').upper() for w in ('LEFT', 'RIGHT', 'OUTER'))}

        def filtering(where: str) -> bool:
            return where == 'where' or where in inner_on
        ucs = [(a, p) for (a, c), p, w in f.eq_param if c == 'user' and f.table_of(a) in OWNER_TABLES and filtering(w)]
        if not ucs:
            # a condition on a `user` column that could not be attributed to a table: looks like an owner filter, not analysable
            if any(x.kind == 'col' and x.parts[-1].lower() == 'user' for c in f.unresolved for x in (c.left, c.right)):
                return Cand(node, e, 'unknown', f'the `user` condition of the query at line {e.lineno} cannot be attributed to a table')
            return None
        if getattr(st, 'unions', None):
            return Cand(node, e, 'unknown', f'the query at line {e.lineno} is a UNION')
        bind = cf.bind_params(e.fn, st, e.call)
        if bind is None:
            return Cand(node, e, 'unknown', f'cannot pair the %s of the query at line {e.lineno} with its arguments')
        # -- the user
        cand = Cand(node, e, 'valid', '')
        good_alias = None
        problems: List[Tuple[str, str]] = []
        for a, p in ucs:
            via: List[Tuple[pf.FuncDef, str, str]] = []
            o = self.origin(fn, bind[p.pos], 'user', 6, via)
            if o == {'caller'}:
                good_alias = a
                cand.forward = via
                break
            bad = sorted(x for x in o if x.startswith('other:'))
            if bad:
                problems.append(('invalid', f'`{f.table_of(a)}.user = %s` (line {e.lineno}) is bound to `{pf.nsrc(bind[p.pos])}`, which is {bad[0][6:]} and not the authenticated caller'))
            else:
                problems.append(('unknown', f'cannot trace `{pf.nsrc(bind[p.pos])}` (bound to `{f.table_of(a)}.user = %s`, line {e.lineno}) back to the authenticated caller: {sorted(o)}'))
        if good_alias is None:
            st_, why = sorted(problems)[0] if any(s_ == 'invalid' for s_, _ in problems) else problems[0]
            cand.status, cand.reason = st_, why
            return cand
        # -- the batch: union-find over the equalities between batch keys
        parent: Dict[Tuple[str, str], Tuple[str, str]] = {}

        def find(x):
            parent.setdefault(x, x)
            while parent[x] != x:
                parent[x] = parent[parent[x]]
                x = parent[x]
            return x
        for x, y, _ in f.eq_col:
            parent[find(x)] = find(y)
        key = (good_alias, 'id' if f.table_of(good_alias) == 'batches' else 'batch_id')
        bps = [p for (a, c), p, w in f.eq_param if filtering(w) and find((a, c)) == find(key)]
        if not bps:
            if f.unresolved or any(cc.kind not in ('un', 'col', 'lit') and not (cc.kind == 'bin' and cc.op in ('=', '<', '>', '<=', '>=', '<>', '!=', 'AND', 'OR', 'IS', 'IS NOT')) for cc, _ in f.other):
                cand.status, cand.reason = 'unknown', f'the query at line {e.lineno} has conditions that are not recognised; cannot decide whether it is tied to the batch'
            else:
                cand.status, cand.reason = 'invalid', f'the query at line {e.lineno} filters on the caller but not on the batch id ({f.table_of(key[0])}.{key[1]} is not equated with a bound parameter)'
            return cand
        got: Set[str] = set()
        for p in bps:
            got |= cf.trace_to_path_component(self.names, self.fns, fn, bind[p.pos], 6, self.handler_params, self.trace_memo)
        concrete = {x for x in got if not x.startswith('?')}
        if 'batch_id' not in concrete:
            if concrete:
                cand.status, cand.reason = 'invalid', f'the batch key of the query at line {e.lineno} is bound to the path component {sorted(concrete)}, not to {{batch_id}}'
            else:
                cand.status, cand.reason = 'unknown', f'cannot trace the batch id bound in the query at line {e.lineno} (`{", ".join(pf.nsrc(bind[p.pos]) for p in bps)}`) back to the path: {sorted(got)}'
            return cand
        if concrete - {'batch_id'}:
            cand.status, cand.reason = 'invalid', f'the batch key of the query at line {e.lineno} is also bound to the path component(s) {sorted(concrete - {"batch_id"})}'
            return cand
        # -- the empty result stops the function
        if node is None:
            cand.status, cand.reason = 'unknown', f'the query at line {e.lineno} is not a statement of its own'
            return cand
        var = None
        if isinstance(node.ast, ast.Assign) and len(node.ast.targets) == 1 and isinstance(node.ast.targets[0], ast.Name):
            var = node.ast.targets[0].id
        elif isinstance(node.ast, ast.AnnAssign) and isinstance(node.ast.target, ast.Name):
            var = node.ast.target.id
        elif node.kind != 'test':
            cand.status, cand.reason = 'unknown', f'the result of the query at line {e.lineno} is not bound to a name or tested directly'
            return cand
        if node.kind == 'test':
            # the query is the condition itself: start at the test with the call as the row
            reach, und = self.reach_when_empty_from_test(fn, g, node, e.call)
        else:
            reach, und = self.reach_when_empty(fn, g, node, var, e.call)
        leaks = []
        if g.exit.id in reach:
            leaks.append('a normal return')
        for wn, _, desc in self.write_nodes(fn, g, 4):
            if wn.id in reach and wn is not node:
                leaks.append(f'`{desc}` (line {wn.lineno})')
        if leaks:
            if und:
                cand.status, cand.reason = 'unknown', f'cannot decide what happens when the query at line {e.lineno} finds no row: a condition on `{var}` is not recognised'
            else:
                cand.status, cand.reason = 'invalid', f'when the query at line {e.lineno} finds no row (the caller does not own the batch) the function still reaches {leaks[0]}'
        return cand

    def reach_when_empty_from_test(self, fn: pf.FuncDef, g: pf.CFG, node: pf.Node, call: ast.Call) -> Tuple[Set[int], bool]:
        d = self._ev_empty(node.ast, lambda x: isinstance(x.value if isinstance(x, ast.Await) else x, ast.Call) and
                           ((x.value if isinstance(x, ast.Await) else x).lineno, (x.value if isinstance(x, ast.Await) else x).col_offset) == (call.lineno, call.col_offset))
        out: Set[int] = set()
        und = d is None
        for s2, lab in node.succ:
            if (d is True and lab == 'F') or (d is False and lab == 'T'):
                continue
            out.add(s2.id)
            out |= g.reachable_from(s2)
        return out, und

    def filter_nodes(self, fn: pf.FuncDef, g: pf.CFG) -> List[pf.Node]:
        out = []
        for c in self.candidates(fn):
            if c.status == 'valid' and c.node is not None:
                out.append(c.node)
                for owner, pname, kind in c.forward:
                    self.forwarded.setdefault((id(owner), pname), (owner, pname, kind))
        return out

    def unknown_in(self, roots: List[pf.FuncDef]) -> List[str]:
        out = []
        for f in self.names.reachable(roots, 5):
            for c in self.candidates(f):
                if c.status == 'unknown':
                    out.append(f'{self.m.qualname(f)}: {c.reason}')
            # the caller's name handed to a callee this analysis cannot read (a method, a function of another module): the owner check
            # may have been moved there
            for c2 in pf.walk_shallow(f):
                if not isinstance(c2, ast.Call) or self.resolve(f, c2) is not None:
                    continue
                name = pf.dotted(c2.func) or pf.nsrc(c2.func)
                if name.startswith(cf.LOG_PREFIXES) or (isinstance(c2.func, ast.Attribute) and c2.func.attr in sf.EXEC_METHODS) or name in cf.BENIGN or name.startswith('web.HTTP'):
                    continue
                for a in list(c2.args) + [k.value for k in c2.keywords]:
                    if isinstance(a, ast.Name) and self._owner_of(f, a.id) is not None and self.origin(f, a, 'user') == {'caller'}:
                        out.append(f'{self.m.qualname(f)}: the caller\'s name `{a.id}` is handed to `{name}(...)` (line {c2.lineno}), which is not a function of this module: '
                                   'cannot decide whether ownership is established there')
        return out

    def invalid_in(self, roots: List[pf.FuncDef]) -> List[str]:
        out = []
        for f in self.names.reachable(roots, 5):
            for c in self.candidates(f):
                if c.status == 'invalid':
                    out.append(f'{self.m.qualname(f)}: {c.reason}')
        return out

    def write_nodes(self, fn: pf.FuncDef, g: pf.CFG, depth: int) -> List[Tuple[pf.Node, Optional[pf.FuncDef], str]]:
        """(node, helper or None, description) for direct SQL writes and calls of helpers that (transitively) write."""
        out = []
        for e in self.embs:
            if e.fn is not fn:
                continue
            if e.sql_text is None:
                continue
            if any(sf.written_tables(st) or st.kind == 'call' for st in e.stmts()):
                for n in g.node_of(e.call):
                    out.append((n, None, text(e.stmts()[0])[:60]))
        if depth > 0:
            for n in g.nodes:
                for c in pf.node_calls(n):
                    h = self.resolve(fn, c)
                    if h is not None and h is not fn and self.has_writes(h, depth - 1):
                        out.append((n, h, f'call {h.name}()'))
        return out

    def has_writes(self, fn: pf.FuncDef, depth: int) -> bool:
        k = id(fn)
        if k in self.has_writes_memo:
            return self.has_writes_memo[k]
        self.has_writes_memo[k] = False
        g = pf.cfg(fn)
        r = bool(self.write_nodes(fn, g, depth))
        self.has_writes_memo[k] = r
        return r

    def protected(self, fn: pf.FuncDef, depth: int = 4) -> Tuple[bool, str]:
        """Every write reachable in fn is dominated by an owner filter in fn, or is a call of a protected helper."""
        g = pf.cfg(fn)
        filters = self.filter_nodes(fn, g)
        # calls to helpers that always filter before returning normally count as filters too
        for n in g.nodes:
            for c in pf.node_calls(n):
                h = self.resolve(fn, c)
                if h is not None and h is not fn and depth > 0 and self.always_filters(h, depth - 1):
                    filters.append(n)
        for n, h, desc in self.write_nodes(fn, g, depth):
            if any(n is f for f in filters):
                continue
            if g.dominated_by(n, lambda x: any(x is f for f in filters)):
                continue
            if h is not None and depth > 0:
                ok, why = self.protected(h, depth - 1)
                if ok:
                    continue
                return False, f'{fn.name} -> {why}'
            return False, f'{fn.name}: `{desc}` (line {n.lineno}) is reachable without an owner filter'
        return True, ''

    def always_filters(self, fn: pf.FuncDef, depth: int) -> bool:
        """Every normal return of fn has passed an owner filter (in fn or in a nested helper that always filters)."""
        g = pf.cfg(fn)
        filters = self.filter_nodes(fn, g)
        if depth > 0:
            for n in g.nodes:
                for c in pf.node_calls(n):
                    h = self.resolve(fn, c)
                    if h is not None and h is not fn and self.always_filters(h, depth - 1):
                        filters.append(n)
        if not filters:
            return False
        return g.path_avoiding(g.entry, lambda x: x is g.exit, lambda x: any(x is f for f in filters)) is None


def check_forwarding(ctx: Ctx, m: pf.Module, oa: OwnerAnalysis) -> None:
    """Helpers whose owner filter is evaluated for a name they RECEIVE (a parameter, whatever it is called) must be handed the
    authenticated caller at every call site in the module."""
    n = 0
    todo = list(oa.forwarded.values())
    done: Set[Tuple[int, str]] = set()
    while todo:
        h, pname, kind = todo.pop()
        if (id(h), pname) in done:
            continue
        done.add((id(h), pname))
        for caller, call, arg in cf.param_call_sites(oa.names, oa.fns, h, pname):
            n += 1
            cons = f'{FE}::{m.qualname(caller)}::passes caller to {h.name}'
            o = oa.origin(caller, arg, kind) if arg is not None else {'?*'}
            if o == ({'caller'} if kind == 'user' else {'userdata'}):
                ctx.ok('R3', cons, f'{pname} = {pf.nsrc(arg)}')
                continue
            bad = sorted(x for x in o if x.startswith('other:'))
            if bad:
                ctx.bad('R3', cons, f'{h.name}(.. {pname}={pf.nsrc(arg) if arg is not None else None} ..): the owner filter inside would be evaluated for {bad[0][6:]}, i.e. for someone other than the '
                        'authenticated caller', m.path, call.lineno)
                continue
            raise AnalysisError(f'{cons}: cannot trace `{pf.nsrc(arg) if arg is not None else "*args"}` back to the authenticated caller ({sorted(o)})')
    ctx.need(n >= 5, f'only {n} call sites of the owner-filtering helpers found')


# ------------------------------------------------------------------------------------------------
def _deco_names(fn: pf.FuncDef) -> List[str]:
    return [(pf.dotted(d.func) if isinstance(d, ast.Call) else pf.dotted(d)) or pf.nsrc(d) for d in fn.decorator_list]


def _built_on_users_only(ctx: Ctx, m: pf.Module, w: pf.FuncDef, construct: str, what: str) -> bool:
    """The wrapper is itself decorated by authenticated_users_only (so that `userdata` is the authenticated caller's).  A violation
    only when every decorator of the wrapper is understood and none of them authenticates; an unknown decorator declines."""
    names = _deco_names(w)
    if any(n.split('.')[-1] == 'authenticated_users_only' for n in names):
        return True
    for d in w.decorator_list:
        # built on the stricter developers-only wrapper (checked on its own), as long as the call does not configure exceptions to it
        if isinstance(d, ast.Call) and (pf.dotted(d.func) or '').split('.')[-1] == 'authenticated_developers_only' and not d.args and all(k.arg == 'redirect' for k in d.keywords):
            return True
    unknown = [n for n in names if n.split('.')[-1] not in ('wraps',) and n not in NEUTRAL]
    ctx.need(not unknown, f'{construct}: decorator(s) {unknown} of the wrapper not classified')
    ctx.bad('R5', construct, f'{what} is not built on authenticated_users_only (decorators of the wrapper: {names}): its `userdata` is not the authenticated caller', m.path, w.lineno)
    return False


def _wrapper(ctx: Ctx, m: pf.Module, qual: str) -> Tuple[pf.Module, pf.FuncDef, str]:
    """(module [copy with helpers inlined], the wrapper function inside decorator `qual`, name of the handler parameter)."""
    deco = m.func(qual)
    fw = cf.find_wrapped(m, deco)
    ctx.need(fw is not None, f'{m.rel}::{qual}: the function that calls the wrapped handler was not found (or there are several)')
    w, _, handler = fw  # type: ignore[misc]
    wq = m.qualname(w)
    m2, w2 = cf.inlined_copy(m, wq, exclude=('_user_can_access',))
    return m2, w2, handler


def r5_wrappers(ctx: Ctx, m: pf.Module, oa: Optional['OwnerAnalysis'] = None) -> None:
    gm = pf.load('gear/gear/auth.py')
    # ---- authenticated_users_only: userdata fetched for this request; missing / inactive users never reach the handler
    gm2, w, handler = _wrapper(ctx, gm, 'Authenticator.authenticated_users_only')
    g = pf.cfg(w)
    fetch = g.find(lambda n: any((pf.dotted(c.func) or '').endswith('._fetch_userdata') for c in pf.node_calls(n)))
    ctx.need(len(fetch) == 1 and isinstance(fetch[0].ast, (ast.Assign, ast.AnnAssign)), 'authenticated_users_only: `<userdata> = await self._fetch_userdata(request)` not found')
    tgt = fetch[0].ast.targets[0] if isinstance(fetch[0].ast, ast.Assign) else fetch[0].ast.target
    ctx.need(isinstance(tgt, ast.Name) and len(pf.assignments(w).get(tgt.id, [])) == 1, 'authenticated_users_only: the fetched userdata is re-assigned')
    uvar = tgt.id
    gate = cf.Gate(gm2, w, handler, lambda fn, e: cf.subscript_role(fn, e, uvar, 'userdata'))
    ctx.need(len(gate.calls) >= 1, 'authenticated_users_only: handler call not found')
    A_USER, A_INACTIVE = ('truthy', 'userdata'), ('eq', "userdata['state']", 'inactive')

    def verdict(construct: str, requirement, extra, message: str, path: str, line: int, g8: cf.Gate) -> None:
        st, val = g8.enforce(requirement, extra)
        if st == 'undecided':
            raise AnalysisError(f'{construct}: cannot decide whether the handler is reachable when {cf.show_valuation(val) or "the requirement fails"} (conditions not recognised)')
        ctx.check(st == 'ok', 'R5', construct, f'{message} (reachable with {cf.show_valuation(val)})', path, line)
    verdict('gear/gear/auth.py::authenticated_users_only::missing user', lambda v: v[A_USER], [A_USER], 'the handler is reachable without userdata (unauthenticated request)', gm.path, w.lineno, gate)
    verdict('gear/gear/auth.py::authenticated_users_only::inactive user', lambda v: not v[A_USER] or not v[A_INACTIVE], [A_USER, A_INACTIVE], 'the handler is reachable for an inactive account', gm.path, w.lineno, gate)
    wparams = [a.arg for a in w.args.posonlyargs + w.args.args]
    ok_src = True
    why = ''
    for cn in gate.calls:
        for c in pf.node_calls(cn):
            if not (isinstance(c.func, ast.Name) and c.func.id == handler):
                continue
            ctx.need(len(c.args) >= 2 and not any(isinstance(a, ast.Starred) for a in c.args[:2]), 'authenticated_users_only: arguments of the handler call not recognised')
            a0, a1 = c.args[0], c.args[1]
            ctx.need(isinstance(a0, ast.Name) and isinstance(a1, ast.Name), f'authenticated_users_only: handler called with `{pf.nsrc(a0)}`, `{pf.nsrc(a1)}`: not plain names')
            if not (wparams and a0.id == wparams[0]):
                ok_src, why = False, f'the handler receives `{a0.id}` instead of the request'
            if a1.id != uvar:
                ok_src, why = False, f'the handler receives `{a1.id}`, not the userdata fetched for this request (`{uvar}`)'
            if not g.dominated_by(cn, lambda n: n is fetch[0]):
                ok_src, why = False, 'the handler call is reachable without fetching the userdata'
    fc = [c for c in pf.node_calls(fetch[0]) if (pf.dotted(c.func) or '').endswith('._fetch_userdata')][0]
    if not (fc.args and isinstance(fc.args[0], ast.Name) and wparams and fc.args[0].id == wparams[0]):
        ctx.need(bool(fc.args) and isinstance(fc.args[0], ast.Name), 'authenticated_users_only: argument of _fetch_userdata not recognised')
        ok_src, why = False, f'the userdata is fetched for `{pf.nsrc(fc.args[0])}`, not for this request'
    ctx.check(ok_src, 'R5', 'gear/gear/auth.py::authenticated_users_only::userdata source', f'the userdata handed to the handler is not the one fetched for this request: {why}', gm.path, w.lineno)

    # ---- developers only / developers or the auth service
    def user_param_gate(mod: pf.Module, qual: str) -> Tuple[cf.Gate, pf.FuncDef, pf.Module]:
        m2, w2, h2 = _wrapper(ctx, mod, qual)
        ps = [a.arg for a in w2.args.posonlyargs + w2.args.args]
        ctx.need(len(ps) >= 2, f'{mod.rel}::{qual}: the wrapper does not take (request, userdata)')
        g8 = cf.Gate(m2, w2, h2, lambda fn, e: cf.subscript_role(fn, e, ps[1], 'userdata'))
        ctx.need(len(g8.calls) >= 1, f'{mod.rel}::{qual}: handler call not found')
        return g8, w2, m2
    A_DEV, A_AUTH = ('eq', "userdata['is_developer']", 1), ('eq', "userdata['username']", 'auth')
    g8, dv, _ = user_param_gate(gm, 'Authenticator.authenticated_developers_only')
    if _built_on_users_only(ctx, gm, dv, 'gear/gear/auth.py::authenticated_developers_only', 'authenticated_developers_only'):
        verdict('gear/gear/auth.py::authenticated_developers_only', lambda v: v[A_DEV], [A_DEV], 'the handler is reachable for a non-developer', gm.path, dv.lineno, g8)
    g8, da, _ = user_param_gate(m, 'authenticated_developers_or_auth_only')
    if _built_on_users_only(ctx, m, da, f'{FE}::authenticated_developers_or_auth_only', 'authenticated_developers_or_auth_only'):
        verdict(f'{FE}::authenticated_developers_or_auth_only', lambda v: v[A_DEV] or v[A_AUTH], [A_DEV, A_AUTH],
                'the handler is reachable for a caller that is neither a developer nor the auth service', m.path, da.lineno, g8)

    # ---- billing_project_users_only: membership of (the path's batch id, the caller) decides
    m2, bp, handler = _wrapper(ctx, m, 'billing_project_users_only')
    ps = [a.arg for a in bp.args.posonlyargs + bp.args.args]
    ctx.need(len(ps) >= 2, 'billing_project_users_only: the wrapper does not take (request, userdata)')
    ua = m.func('_user_can_access')
    acc_calls: List[ast.Call] = [c for c in pf.walk_shallow(bp) if isinstance(c, ast.Call) and pf.dotted(c.func) == ua.name]

    def access_role(fn: pf.FuncDef, e: ast.AST) -> Optional[str]:
        x = e
        for _ in range(3):
            if isinstance(x, ast.Name):
                d = pf.single_def(fn, x.id)
                if not isinstance(d, ast.expr):
                    return None
                x = d
            elif isinstance(x, ast.Await):
                x = x.value
            else:
                break
        # (the expression may be a copy made by local expansion: compare the call site, not the object)
        return 'membership test' if isinstance(x, ast.Call) and any(pf.dotted(x.func) == ua.name and (x.lineno, x.col_offset) == (c.lineno, c.col_offset) for c in acc_calls) else None
    cons_bp = f'{FE}::billing_project_users_only'
    if _built_on_users_only(ctx, m, bp, cons_bp, 'billing_project_users_only'):
        ctx.need(len(acc_calls) == 1, f'billing_project_users_only: {len(acc_calls)} calls of _user_can_access in the wrapper')
        g8 = cf.Gate(m2, bp, handler, access_role)
        ctx.need(len(g8.calls) >= 1, 'billing_project_users_only: handler call not found')
        A_MEM = ('truthy', 'membership test')
        st, val = g8.enforce(lambda v: v[A_MEM], [A_MEM])
        g0 = pf.cfg(bp)
        acc0 = g0.node_of(acc_calls[0])
        skips = len(acc0) == 1 and any(g0.path_avoiding(g0.entry, lambda x, cn=cn: x is cn, lambda x: x is acc0[0]) is not None for cn in g8.calls)
        if st == 'undecided' and not skips:
            raise AnalysisError(f'{cons_bp}: cannot decide whether the handler is reachable when _user_can_access answers false (conditions not recognised)')
        okb, whyb = st == 'ok', 'the handler is reachable when _user_can_access(...) is false'
        # the answer must have been asked for on every path to the handler: a path that skips the call altogether decides by something else
        g3 = pf.cfg(bp)
        accn = g3.node_of(acc_calls[0])
        ctx.need(len(accn) == 1, 'billing_project_users_only: the _user_can_access call is not a statement of its own')
        for cn in g8.calls:
            skip = g3.path_avoiding(g3.entry, lambda x, cn=cn: x is cn, lambda x: x is accn[0])
            if skip is not None and okb:
                tests = [pf.nsrc(x.ast)[:70] for x in skip if x.kind == 'test' and x.ast is not None]
                okb, whyb = False, f'the handler is reachable on a path that never calls _user_can_access (through {tests or "no condition at all"}): membership of (batch, caller) is not what decides'
        amap = cf.call_args_by_param(ua, acc_calls[0])
        ctx.need(amap is not None, 'billing_project_users_only: arguments of _user_can_access not recognised')
        roles = _user_can_access_roles(ctx, m, ua, oa)  # parameter of _user_can_access -> 'batch' | 'user'
        flow = cf.PathFlow(m2)
        for pname, role in roles.items():
            ctx.need(pname in amap, f'billing_project_users_only: no argument for parameter `{pname}` of _user_can_access')
            arg = amap[pname]  # type: ignore[index]
            if role == 'batch':
                got = cf.trace_to_path_component(flow, [bp], bp, arg)
                ctx.need(not any(x.startswith('?') for x in got), f'billing_project_users_only: the batch id handed to _user_can_access (`{pf.nsrc(arg)}`) does not trace back to a path component')
                if got != {'batch_id'}:
                    okb, whyb = False, f'membership is tested for the path component {sorted(got)} instead of {{batch_id}}'
            else:
                r = cf.subscript_role(bp, arg, ps[1], 'userdata')
                ctx.need(r is not None, f'billing_project_users_only: the user handed to _user_can_access (`{pf.nsrc(arg)}`) is not a field of the authenticated userdata')
                if r != "userdata['username']":
                    okb, whyb = False, f'membership is tested for {r} instead of the caller\'s username'
        for cn in g8.calls:
            for c in pf.node_calls(cn):
                if isinstance(c.func, ast.Name) and c.func.id == handler:
                    ctx.need(len(c.args) >= 2 and all(isinstance(a, ast.Name) for a in c.args[:2]), 'billing_project_users_only: arguments of the handler call not recognised')
                    if [a.id for a in c.args[:2]] != ps[:2]:  # type: ignore[union-attr]
                        okb, whyb = False, f'the handler is called with ({pf.nsrc(c.args[0])}, {pf.nsrc(c.args[1])}) instead of this request and its authenticated userdata'
                    if len(c.args) >= 3:
                        got = cf.trace_to_path_component(flow, [bp], bp, c.args[2])
                        if got and not any(x.startswith('?') for x in got) and got != {'batch_id'}:
                            okb, whyb = False, f'the handler receives the path component {sorted(got)} as its batch id, not the {{batch_id}} membership was tested for'
        ctx.check(okb, 'R5', cons_bp, f'the wrapper does not test membership for (the path\'s batch id, the caller) and raise before calling the handler: {whyb}', m.path, bp.lineno)
    # ---- pass-through decorators: they call (or are) the function they decorate, wrapper included
    for name in sorted(NEUTRAL & {f.name for f in m.tree.body if isinstance(f, (ast.FunctionDef, ast.AsyncFunctionDef))}):
        fn = m.func(name)
        skips = [n for n in ast.walk(fn) if isinstance(n, ast.Attribute) and n.attr == '__wrapped__']
        if skips:
            ctx.bad('R5', f'{FE}::{name}::pass-through', f'this decorator reaches below the function it decorates (`{pf.nsrc(skips[0])}`): an authenticating wrapper underneath is skipped', m.path, skips[0].lineno)
            continue
        fw = cf.find_wrapped(m, fn)
        params = [a.arg for a in fn.args.posonlyargs + fn.args.args]
        returns_param = any(isinstance(r, ast.Return) and isinstance(r.value, ast.Name) and r.value.id in params for r in pf.walk_shallow(fn))
        ctx.need(fw is not None or returns_param, f'{FE}::{name}: pass-through decorator neither calls nor returns the function it decorates (shape not recognised)')
        ctx.ok('R5', f'{FE}::{name}::pass-through', 'calls / returns the decorated function')


def _user_can_access_roles(ctx: Ctx, m: pf.Module, ua: pf.FuncDef, oa: Optional['OwnerAnalysis'] = None) -> Dict[str, str]:
    """_user_can_access decides membership by joining the batch's billing project with billing_project_users for (batch id, caller):
    checked structurally (aliases, operand order, conjunct order, where the text lives do not matter).  Returns which parameter of the
    function is bound to batches.id ('batch') and which to billing_project_users.user_cs ('user')."""
    cons = f'{FE}::_user_can_access'
    embs = [x for x in sf.embedded_in(m) if x.fn is ua]
    ctx.need(len(embs) == 1 and embs[0].sql_text is not None, f'{cons}: expected exactly one resolvable embedded statement (found {len(embs)})')
    e = embs[0]
    sts = e.stmts()
    ctx.need(not e.parse_error and len(sts) == 1 and sts[0].kind == 'select' and sts[0].frm is not None, f'{cons}: the statement is not a single SELECT ({e.parse_error})')
    st = sts[0]
    prog = sf.load_program()
    schema = {k.lower(): {c.lower() for c in v} for k, v in prog.tables.items()}
    bind = cf.bind_params(ua, st, e.call)
    ctx.need(bind is not None, f'{cons}: cannot pair the %s of the statement with its arguments')
    f = cf.SelectFacts(st, schema, bind)
    tabs = set(f.alias.values())
    ctx.need(not f.unresolved and not f.derived and not st.group and not getattr(st, 'unions', None), f'{cons}: statement shape not recognised')
    params = [a.arg for a in ua.args.posonlyargs + ua.args.args]
    roles: Dict[str, str] = {}
    oku, why = True, ''
    if not ({'batches', cf.TABLE} <= tabs):
        oku, why = False, f'the statement ranges over {sorted(tabs)}, not over batches joined with {cf.TABLE}'
    else:
        if not f.joined_on('batches', 'billing_project', cf.TABLE, 'billing_project'):
            ctx.need(not f.other or all(w == 'where' for _, w in f.other), f'{cons}: join condition not recognised')
            oku, why = False, f'batches and {cf.TABLE} are not joined on the billing project'
        for (tab, col), role, label in ((('batches', 'id'), 'batch', 'batches.id'), ((cf.TABLE, 'user_cs'), 'user', f'{cf.TABLE}.user_cs')):
            ps = [(p, w) for p, w in f.params_of(tab, col) if w == 'where' or tab == cf.TABLE]
            if not ps:
                extra = [text(c) for c, _ in f.other]
                ctx.need(all(cc.kind in ('un', 'col') for cc, _ in f.other), f'{cons}: conditions {extra} not recognised')
                oku, why = False, f'no conjunct `{label} = %s`'
                continue
            val = bind[ps[0][0].pos]  # type: ignore[index]
            ctx.need(isinstance(val, ast.Name) and val.id in params and len(pf.assignments(ua).get(val.id, [])) == 1, f'{cons}: `{label} = %s` is bound to `{pf.nsrc(val)}`, not to a parameter of the function')
            roles[val.id] = role  # type: ignore[union-attr]
        # the row must be rejected when there is no membership row: the user conjunct is null-rejecting in WHERE, or the join is inner
        if oku:
            for j in st.frm.joins:
                if j.ref.kind == 'table' and j.ref.name.lower() == cf.TABLE and 'LEFT' in (j.jtype or '').upper():
                    if not any(w == 'where' for _, w in f.params_of(cf.TABLE, 'user_cs')):
                        oku, why = False, f'{cf.TABLE} is outer-joined and the user condition sits in the ON clause: batches without a membership row still produce a row'
    if oku and len(set(roles.values())) < 2:
        oku, why = False, f'batch id and user are bound to the same parameter ({roles})'
    # the answer: every `return` is `<row> is not None` (or its truthiness), or a constant: False anywhere (denying is safe), True only
    # behind the query and where the empty result cannot arrive
    rets = [n for n in pf.walk_shallow(ua) if isinstance(n, ast.Return)]
    ctx.need(len(rets) >= 1 and all(r.value is not None for r in rets), f'{cons}: a return without a value')
    rec_names = set()
    g = pf.cfg(ua)
    qnodes = g.node_of(e.call)
    ctx.need(len(qnodes) == 1, f'{cons}: the query is not a statement of its own')
    qn = qnodes[0]
    if isinstance(qn.ast, ast.Assign) and isinstance(qn.ast.targets[0], ast.Name):
        rec_names.add(qn.ast.targets[0].id)
    elif isinstance(qn.ast, ast.AnnAssign) and isinstance(qn.ast.target, ast.Name):
        rec_names.add(qn.ast.target.id)
    single = all(len(pf.assignments(ua).get(n, [])) == 1 for n in rec_names)

    def is_rec(x: ast.AST) -> bool:
        if isinstance(x, ast.Await):
            x = x.value
        return (isinstance(x, ast.Name) and x.id in rec_names and single) or \
            (isinstance(x, ast.Call) and (x.lineno, x.col_offset) == (e.call.lineno, e.call.col_offset))
    reach_empty = None
    for r in rets:
        if not oku:
            break
        rv = pf.expand_locals(ua, r.value, 3)
        if isinstance(rv, ast.Compare) and len(rv.ops) == 1 and isinstance(rv.ops[0], ast.IsNot) and is_rec(rv.left) and isinstance(rv.comparators[0], ast.Constant) and rv.comparators[0].value is None:
            continue
        if isinstance(rv, ast.Call) and pf.dotted(rv.func) == 'bool' and len(rv.args) == 1 and is_rec(rv.args[0]):
            continue
        if isinstance(rv, ast.Compare) and len(rv.ops) == 1 and isinstance(rv.ops[0], ast.Is) and is_rec(rv.left) and isinstance(rv.comparators[0], ast.Constant) and rv.comparators[0].value is None:
            oku, why = False, 'the function answers `<row> is None`: members are rejected and everyone else admitted'
            continue
        if isinstance(rv, ast.Constant):
            if not rv.value:
                continue
            rn = g.node_of(r)
            ctx.need(len(rn) == 1, f'{cons}: return statement not located')
            if not g.dominated_by(rn[0], lambda x: x is qn):
                oku, why = False, f'`{pf.nsrc(r)}` (line {r.lineno}) answers yes on a path that does not run the membership query: the answer does not come from the billing_project_users row of this request'
                continue
            if reach_empty is None and oa is not None and rec_names and single:
                reach_empty = oa.reach_when_empty(ua, g, qn, sorted(rec_names)[0], e.call)
            ctx.need(reach_empty is not None, f'{cons}: `{pf.nsrc(r)}` behind the query: cannot decide whether the empty result reaches it')
            if rn[0].id in reach_empty[0]:
                ctx.need(not reach_empty[1], f'{cons}: cannot decide whether `{pf.nsrc(r)}` is reachable when the query finds no row (a condition on the row is not recognised)')
                oku, why = False, f'`{pf.nsrc(r)}` (line {r.lineno}) is reached also when the query finds no membership row'
            continue
        raise AnalysisError(f'{cons}: the answer `{pf.nsrc(r.value)}` is not `<row> is not None`')
    ctx.check(oku, 'R5', cons, f'membership is not decided by joining the batch\'s billing project with billing_project_users for (batch id, caller): {why}', m.path, ua.lineno)
    if not oku:
        # the caller of this function cannot map its arguments; fall back to the positional convention so that the wrapper check still runs
        roles = {params[1]: 'batch', params[2]: 'user'} if len(params) >= 3 else {}
    return roles


def r6_scoped_listings(ctx: Ctx) -> None:
    """Listing queries are scoped by conjuncts such as `jobs.batch_id = %s` / `billing_project_users.user = %s`; every further condition
    is ANDed on.  A condition whose top-level operator is OR (not wrapped in parentheses) would turn the scope into one alternative."""
    from engines import sqlclosed as sc
    qm = pf.load('batch/batch/front_end/query/query.py')
    method_closed: Dict[str, bool] = {}
    for cls in qm.classes():
        for fn in cls.body:
            if isinstance(fn, ast.FunctionDef) and fn.name == 'query' and not any(isinstance(x, ast.Raise) and len(fn.body) == 1 for x in fn.body):
                try:
                    method_closed[cls.name] = sc.method_returns_closed(qm, fn)
                except AnalysisError as e:
                    raise AnalysisError(f'query.py::{cls.name}.query: {e}')
    ctx.need(len(method_closed) >= 20, f'only {len(method_closed)} Query.query methods analysed')
    ctx.unit('query_term_classes', len(method_closed))
    for rel, funcs in (('batch/batch/front_end/query/query_v1.py', ['parse_list_batches_query_v1', 'parse_job_group_jobs_query_v1', 'parse_list_job_groups_query_v1']),
                       ('batch/batch/front_end/query/query_v2.py', ['parse_list_batches_query_v2', 'parse_job_group_jobs_query_v2'])):
        m = pf.load(rel)
        for name in funcs:
            if not m.has_func(name):
                continue
            fn = m.func(name)
            c = sc.Closedness(m, method_closed)
            # the list the WHERE clause is joined from, whatever it is called: `' AND '.join(<list>)`
            all_joins = [n for n in ast.walk(fn) if isinstance(n, ast.Call) and isinstance(n.func, ast.Attribute) and n.func.attr == 'join' and len(n.args) == 1 and isinstance(n.args[0], ast.Name)
                         and isinstance(pf.const_str(n.func.value), str)]
            and_joins = [j for j in all_joins if pf.const_str(j.func.value).strip().upper() == 'AND']  # type: ignore[union-attr]
            sink_names = sorted({j.args[0].id for j in and_joins})  # type: ignore[attr-defined]
            sinks: List = []
            joins = []
            for sink_name in sink_names:
                before = len(sinks)
                c.run(fn.body, {}, sinks, sink_name)
                if len(sinks) > before:
                    joins += [j for j in all_joins if j.args[0].id == sink_name]  # type: ignore[attr-defined]
            if not sinks and not joins:
                continue
            ctx.need(joins and all(pf.const_str(j.func.value).strip().upper() == 'AND' for j in joins), f'{rel}::{name}: where_conditions are not joined with AND')
            for closed, node in sinks:
                ctx.check(closed, 'R6', f'{rel}::{name}::AND-term `{pf.nsrc(node)[:60]}`', 'this condition is ANDed into the scoped WHERE clause without parentheses although its top-level operator may be OR '
                          '(AND binds tighter): the batch / billing-project restriction becomes one alternative and rows of other batches are returned', m.path, node.lineno)
            # the scope conjunct: `<t>.batch_id = %s` (either operand order, possibly inside a parenthesised AND) or a condition on the membership table
            scope = False
            opaque = 0
            for _, n in sinks:
                t = pf.const_str(n)
                if t is None:
                    opaque += 1
                    continue
                try:
                    prs = Parser(t)
                    ex = prs.expr()
                    if not prs.at_end():
                        raise SqlParseError('trailing text')
                except SqlParseError:
                    opaque += 1
                    continue
                for cj in sf.conjuncts(ex):
                    if cj.kind == 'bin' and cj.op == '=':
                        for x, y in ((cj.left, cj.right), (cj.right, cj.left)):
                            if x.kind == 'col' and x.parts[-1].lower().strip('`') == 'batch_id' and y.kind == 'param':
                                scope = True
                    if any(len(x.parts) >= 2 and x.parts[-2].lower().strip('`') == cf.TABLE for x in sf.cols_in(cj)):
                        scope = True
            # a violation only when every condition of the list was read and none of them scopes the listing
            ctx.need(scope or not opaque, f'{rel}::{name}: no scope conjunct among the literal conditions, and {opaque} condition(s) are computed: cannot decide')
            ctx.check(scope, 'R6', f'{rel}::{name}::scope conjunct', 'the listing has no conjunct restricting it to the requested batch / the caller\'s billing projects', m.path, fn.lineno)


def _example(w: str) -> str:
    return (w if w.endswith('/') else w + '/') + '../../../../../<other batch>/jobs/<job>/log/main' if '/' in w else w


def r7_path_components(ctx: Ctx, m: pf.Module, rts) -> None:
    """String-valued path components of the {batch_id} routes (see engines/c14facts.PathFlow)."""
    flow = cf.PathFlow(m)
    roots = [fn for fn, regs, _ in rts if any('{batch_id}' in p for _, p in regs)]
    keys = set()
    for _, regs, _ in rts:
        for _, p in regs:
            if '{batch_id}' in p:
                keys |= {seg[1:-1] for seg in p.split('/') if seg.startswith('{') and seg.endswith('}')}
    # a component constrained by the route pattern itself (`{name:regex}`): aiohttp matches the regex against the still
    # percent-encoded segment and decodes afterwards, so the regex bounds the decoded value only when it admits no '%'
    from engines import relang as R
    pct = R.lang(R.seq(R.star(R.anychar()), R.lit('%'), R.star(R.anychar())), "contains '%'")
    for k in sorted(keys):
        langs = []
        for (mt, p), regs in ROUTE_REGEX.items():
            if '{batch_id}' in p and ('{' + k + '}') in p:
                try:
                    L = R.from_regex(regs[k], 0, 'fullmatch') if k in regs else None
                except AnalysisError:
                    L = None
                if L is not None and R.shortest(L & pct) is not None:
                    L = None
                langs.append(L)
        if langs and all(L is not None for L in langs):
            u = langs[0]
            for L in langs[1:]:
                u = u | L
            flow.key_lang[k] = u
    fns = flow.reachable(roots, 5)
    ctx.unit('functions_reachable_from_batch_routes', len(fns))
    seen = set()
    for f in fns:
        for s in flow.sources(f):
            qual = m.qualname(f)
            if s['form'] == 'returned':
                continue  # accounted for where the helper's result is used
            if s['form'] == 'int':
                cons = f"{FE}::{qual}::int(path component {s['key']!r})"
                if cons not in seen:
                    seen.add(cons)
                    ctx.ok('R7', cons, 'converted by int()')
                continue
            ctx.need(s['key'] != '?', f'{FE}::{qual}: path component read with a computed key `{pf.nsrc(s["node"])}`')
            raw = flow.analyse_source(f, s)
            cons = f"{FE}::{qual}::path component {s['key']!r}"
            if not raw.problems:
                if cons not in seen:
                    seen.add(cons)
                    ctx.ok('R7', cons, {'confined by': raw.guards_seen})
                continue
            for p in raw.problems:
                c2 = f"{cons} -> {p['fn']}::{p['sink']}"
                if c2 in seen:
                    continue
                seen.add(c2)
                passed = ('the conditions it has passed (' + '; '.join(f'`{x}`' for x in raw.guards_seen) + ') admit') if raw.guards_seen else 'no condition restricts it: it may be'
                ctx.bad('R7', c2, f"the path component {{{s['key']}}} ({raw.origin}, {qual}) {p['what']} in {p['fn']} (`{p['sink']}(... {p['template'][:110]} ...)`, line {p['line']}) although {passed} "
                        f"a value containing '/', e.g. {p['witness']!r}: the route's membership test covers only the path's batch id, so a request for a batch the caller belongs to with "
                        f"{{{s['key']}}} = {_example(p['witness'])!r} (sent percent-encoded) re-addresses the lookup to a batch of a billing project the caller is not a member of",
                        m.path, p['line'])
    ctx.need(keys >= {'batch_id', 'job_id', 'container'}, f'path components of the batch routes not found ({sorted(keys)})')


MEMBERSHIP_MODULES = ['batch/batch/front_end/query/query_v1.py', 'batch/batch/front_end/query/query_v2.py', 'batch/batch/utils.py']
MEMBERSHIP_KEY = {'billing_project', 'user', 'user_cs'}


def r8_membership(ctx: Ctx, m: pf.Module, rts) -> None:
    prog = sf.load_program()
    mem = cf.Membership(prog)
    flow = cf.PathFlow(m)
    removers = [(fn, regs) for fn, regs, _ in rts if any(p.endswith('/users/{user}/remove') for _, p in regs)]
    adders = [(fn, regs) for fn, regs, _ in rts if any(p.endswith('/users/add') or p.endswith('/users/{user}/add') for _, p in regs)]
    ctx.need(len(removers) >= 2, f'only {len(removers)} `.../users/{{user}}/remove` routes found (UI and API expected)')
    admin_fns = flow.reachable([fn for fn, _ in removers + adders], 5)
    admin_ids = {id(f) for f in admin_fns} - {id(fn) for fn, _ in removers + adders}
    # ---- readers
    rels = list(MEMBERSHIP_MODULES)
    if ctx.tier == 'thorough':
        for rel in pf.walk_py(['batch/batch']):
            if rel != FE and rel not in rels and cf.TABLE in pf.load(rel).src:
                rels.append(rel)
    readers: List[cf.Reader] = []
    for rel in [FE] + rels:
        mm = m if rel == FE else pf.load(rel)
        for r in mem.readers_in(mm):
            if mm is m and r.fn is not None and id(r.fn) in admin_ids:
                continue  # the look-before-write of the add / remove transaction itself
            readers.append(r)
    ctx.unit('membership_readers', len(readers))
    ctx.need(len(readers) >= 7, f'only {len(readers)} readers of {cf.TABLE} found (7 confirmed by hand)')
    ctx.need(any(r.module is m and r.qual == '_user_can_access' for r in readers), f'_user_can_access no longer reads {cf.TABLE}')
    # ---- revocation
    soft: List[Tuple[str, dict, Dict[str, object]]] = []
    for fn, regs in removers:
        fns = flow.reachable([fn], 5)
        route = ' / '.join(f'{mt} {p}' for mt, p in regs)
        cons = f'{FE}::{fn.name}::revokes membership'
        ws = [w for w in mem.writes_in(m, fns) if w['verb'] in ('delete', 'update') or (w['verb'] == 'insert' and w['st'].on_dup)]
        if not ws:
            # a violation only when everything the route runs was read: no statement whose text is not resolvable, and the database
            # handle is not handed to a function of another module of the package (the write may have been moved there)
            ids = {id(f) for f in fns}
            opaque = [e for e in sf.embedded_in(m) if e.fn is not None and id(e.fn) in ids and (e.sql_text is None or (e.stmts() == [] and e.parse_error is not None))]
            ctx.need(not opaque, f'{cons}: the statement at line {opaque[0].lineno if opaque else 0} in {opaque[0].qual if opaque else ""} is not readable; cannot decide whether it revokes the membership')
            handles = {pf.nsrc(e.call.func.value) for e in sf.embedded_in(m) if e.fn is not None and id(e.fn) in ids and isinstance(e.call.func, ast.Attribute)} | {'db', 'tx'}
            imports = m.imports()
            for f in fns:
                for c in pf.walk_shallow(f):
                    if isinstance(c, ast.Call) and flow.resolve(f, c) is None and not (isinstance(c.func, ast.Attribute) and c.func.attr in sf.EXEC_METHODS):
                        root = (pf.dotted(c.func) or '').split('.')[0]
                        origin = imports.get(root, '')
                        foreign = origin.startswith('.') or origin.startswith('batch') or (isinstance(c.func, ast.Attribute) and root in ('self', 'cls'))
                        if foreign and any(isinstance(a, ast.Name) and a.id in handles for a in list(c.args) + [k.value for k in c.keywords]):
                            raise AnalysisError(f'{cons}: the database handle is handed to `{pf.nsrc(c.func)}` (line {c.lineno}), which is not defined in this module; cannot decide whether it revokes the membership')
            ctx.bad('R8', cons, f'{route} does not reach a DELETE or UPDATE of {cf.TABLE}: the user it names stays a member and keeps passing billing_project_users_only', m.path, fn.lineno)
            continue
        okr = True
        for w in ws:
            e = w['emb']
            if w['verb'] != 'insert':
                kb = mem.key_binding(w)
                for role, want in (('user', 'user'), ('project', 'billing_project')):
                    got = cf.trace_to_path_component(flow, fns, e.fn, kb[role]) if kb[role] is not None else set()
                    # decided only when the bound value traces back to path components: anything else (a value re-read from the row
                    # that was just locked, a missing conjunct on a single-project statement ...) is left alone
                    if got and not any(x.startswith('?') for x in got) and got != {want}:
                        okr = False
                        ctx.bad('R8', f'{cons}::{role} key', f'{route}: the {w["verb"].upper()} of {cf.TABLE} in {e.qual} (line {e.lineno}) selects the row by {role} = path component '
                                f'{sorted(got)} instead of {{{want}}}: the membership of the named user in the named project is not the one that is revoked, so the user stays a member '
                                'and keeps passing billing_project_users_only', m.path, e.lineno)
            if w['verb'] != 'delete':
                soft.append((f'{e.qual} (line {e.lineno})', w, mem.set_state(w['st'])))
        if okr:
            ctx.ok('R8', cons, [f"{w['verb']} in {w['emb'].qual}" for w in ws])
    # ---- every reader rejects a revoked row; no two readers disagree about a row state the front end can write
    states: List[Tuple[str, Dict[str, object]]] = []
    for w in mem.writes_in(m, [f for _, f in m.functions()]):
        st = w['st']
        state: Dict[str, object] = {}
        if w['verb'] == 'update' or (w['verb'] == 'insert' and st.on_dup):
            state = dict(mem.set_state(st))
        elif w['verb'] == 'insert' and st.cols and st.rows and len(st.rows) == 1 and len(st.rows[0]) == len(st.cols):
            for c, v in zip(st.cols, st.rows[0]):
                if getattr(v, 'kind', None) == 'lit':
                    state[cf._lc(c if isinstance(c, str) else c.parts[-1])] = 1 if v.value is True else 0 if v.value is False else v.value
        state = {c: v for c, v in state.items() if c not in MEMBERSHIP_KEY and v is not cf.UNKNOWN}
        if state and not any(state == s0 for _, s0 in states):
            states.append((f'{w["emb"].qual} (line {w["emb"].lineno})', state))
    cons_seen: Dict[str, int] = {}
    for r in readers:
        cons = f'{r.construct}::membership filter'
        cons_seen[cons] = cons_seen.get(cons, 0) + 1
        if cons_seen[cons] > 1:
            cons += f' #{cons_seen[cons]}'
        bad = False
        for where, w, state in soft:
            verdict, looked = mem.may_admit(r, state)
            if verdict == 'undecided':
                raise AnalysisError(f'{r.construct}: cannot decide whether `{"; ".join(looked)}` rejects a membership row after `{text(w["st"])[:80]}` (non-literal value)')
            if verdict == 'admits':
                bad = True
                st_txt = ', '.join(f'{k} = {v if v is not cf.UNKNOWN else "<value>"}' for k, v in state.items())
                ctx.bad('R8', cons, f'removing a user from a billing project keeps the {cf.TABLE} row and only sets {st_txt} ({where}), but the query in {r.qual} (line {r.line}) still '
                        f'matches such a row' + (f' (its conditions on those columns, {looked}, can be true for it)' if looked else ' (it never looks at those columns)') +
                        ': history add U to project P; remove U from P; U requests a batch of P -> ' +
                        ('billing_project_users_only admits U (read / cancel / delete)' if r.qual == '_user_can_access' else 'U is still treated as a member here'), r.module.path, r.line)
                break
        if not bad:
            for where, state in states:
                if mem.may_admit(r, state)[0] != 'admits':
                    continue
                others = sorted({o.qual for o in readers if o is not r and mem.may_admit(o, state)[0] == 'rejects'})
                if others:
                    bad = True
                    st_txt = ', '.join(f'{k} = {v}' for k, v in state.items())
                    ctx.bad('R8', cons, f'a {cf.TABLE} row with {st_txt} (written by {where}) is not a membership for {others} but still matches the query in {r.qual} (line {r.line}), which '
                            'never excludes it: the two sides disagree about who belongs to the billing project, and this one is the more permissive', r.module.path, r.line)
                    break
        if not bad:
            tested = sorted({b for c in r.conjuncts for x in sf.cols_in(c) for b in [mem.bpu_col(x, r.scope_tables)] if b is not None} - MEMBERSHIP_KEY)
            ctx.ok('R8', cons, {'state columns tested': tested, 'revocations that keep the row': [x[0] for x in soft], 'row states written': [s0 for _, s0 in states]})


def r9_batch_scope(ctx: Ctx, m: pf.Module, rts) -> None:
    """Per-query batch filters (engines/c14facts.BatchScope): the wrappers decide for the path's batch id; every statement the handler
    then runs over a batch-keyed table must be confined to that batch."""
    prog = sf.load_program()
    bs = cf.BatchScope(prog)
    flow = cf.PathFlow(m)
    roots = []
    handler_params: Dict[int, Dict[str, str]] = {}
    for fn, regs, decos in rts:
        if any('{batch_id}' in p for _, p in regs):
            roots.append(fn)
            if level_of(decos)[0] == 'member':
                ps = [a.arg for a in fn.args.posonlyargs + fn.args.args]
                if len(ps) >= 3:
                    handler_params[id(fn)] = {ps[2]: 'batch_id'}
    fns = flow.reachable(roots, 5)
    ids = {id(f) for f in fns}
    memo: Dict[Tuple[int, str], set] = {}
    undecided = 0
    seen = set()
    for e in sf.embedded_in(m):
        if e.fn is None or id(e.fn) not in ids or e.sql_text is None:
            continue  # SQL built by the query parsers is returned as a string: its scope conjunct is R6's business
        sts = e.stmts()
        if e.parse_error is not None:
            raise AnalysisError(f'{FE}::{e.qual}: statement (line {e.lineno}) does not parse: {e.parse_error}')
        for st in sts:
            for sc in bs.scopes(st):
                r = bs.analyse(sc)
                if not r['tables']:
                    continue
                if r['holes']:
                    frags: List[N] = []
                    try:
                        for c in sf.conjuncts(sc.where):
                            if c.kind == 'hole':
                                import re as _re
                                ix = _re.search(r'(\d+)', c.text)
                                if ix is None or int(ix.group(1)) >= len(e.holes):
                                    raise AnalysisError('hole')
                                h = e.holes[int(ix.group(1))]
                                if isinstance(h, ast.Call) and isinstance(h.func, ast.Attribute) and h.func.attr == 'join':
                                    frags += cf.where_fragments(m, e.fn, h, 'batch_id')
                        if getattr(sc, 'clause_holes', None):
                            raise AnalysisError('clause hole')
                    except AnalysisError:
                        undecided += 1
                        continue
                    r = bs.analyse(sc, frags)
                cons = f'{FE}::{e.qual}::{sc.kind.upper()} {" ".join(sorted(set(r["tables"].values())))} :: {text(sc.where)[:70] if getattr(sc, "where", None) is not None else ""}'
                if cons in seen:
                    continue
                seen.add(cons)
                if r['unscoped']:
                    tabs = ', '.join(f'{r["tables"][a]}.{bs.keycol(r["tables"][a])}' for a in r['unscoped'])
                    ctx.bad('R9', cons, f'the {sc.kind.upper()} in {e.qual} (line {e.lineno}), reached from a {{batch_id}} route, reads/writes {tabs} without tying it to the batch of the request '
                            '(no `= %s` conjunct in WHERE or in the ON clause that brings the table in, and no equality with the batch key of a table that has one; a condition in the ON clause of an '
                            'outer join does not restrict the other side): rows of batches the membership / owner test did not cover are matched, e.g. the job with the same job_id in a batch of '
                            'another billing project', m.path, e.lineno)
                    continue
                # the bound value is the path's batch id (decided only when it traces back to path components)
                wrong = None
                params = sr.params_in_order(st)
                elts = sr.args_tuple(e.fn, e.call.args[1] if len(e.call.args) > 1 else None)
                if elts is not None and len(elts) == len(params):
                    bind = {p.pos: x for p, x in zip(params, elts)}
                    for alias, pn in r['params']:
                        got = cf.trace_to_path_component(flow, fns, e.fn, bind[pn.pos], 6, handler_params, memo)
                        if got and not any(x.startswith('?') for x in got) and 'batch_id' not in got:
                            wrong = (alias, pf.nsrc(bind[pn.pos]), sorted(got))
                if wrong is not None:
                    ctx.bad('R9', cons, f'the {sc.kind.upper()} in {e.qual} (line {e.lineno}) binds {r["tables"][wrong[0]]}.{bs.keycol(r["tables"][wrong[0]])} to `{wrong[1]}`, which is the path '
                            f'component {wrong[2]}, not the batch id the membership / owner test was made for', m.path, e.lineno)
                else:
                    ctx.ok('R9', cons, {'tables': r['tables']})
    ctx.unit('sql_scopes_not_decided', undecided)


def run(ctx: Ctx) -> None:
    ctx.explanation = 'Classification of all routes by resolved decorator chain against the statement\'s partition of endpoints; inter-procedural owner-filter dominance for owner-only mutations.'
    ctx.rule('R1', 'unauthenticated handlers are exactly the listed public endpoints', 8)
    ctx.rule('R2', 'every {batch_id} route is membership-wrapped or authenticated + owner-protected; every other route is at least authenticated', 45)
    ctx.rule('R3', 'owner-only mutations: every reachable write is dominated by an owner filter for (caller, path batch id)', 18)
    ctx.rule('R4', 'billing project / limit administration requires developer or auth service', 13)
    ctx.rule('R5', 'the authenticating wrappers block before calling the handler; pass-through decorators pass through', 9)
    ctx.rule('R6', 'listing queries: every condition ANDed onto the batch / billing-project scope is closed under AND (parenthesised or no top-level OR)', 28)
    ctx.rule('R7', "sub-resource selectors of the {batch_id} routes: every path component is int()-converted or confined to strings without '/' wherever it selects what is fetched", 23)
    ctx.rule('R8', 'billing-project membership has one meaning: removal revokes the row every reader counts (or every reader rejects the retained row)', 9)
    ctx.rule('R9', 'per-query batch filters: every statement a {batch_id} route runs over a batch-keyed table is tied to the request batch (bound parameter / join on the batch key)', 33)
    m = pf.load(FE)
    ctx.unit('sql_texts_resolved_through_constants', sq.upgrade_embedded(m))
    _decorator_aliases(m)
    rts = routes_of(m)
    ctx.unit('routes', sum(len(r) for _, r, _ in rts))
    ctx.need(sum(len(r) for _, r, _ in rts) >= 66, f'only {sum(len(r) for _, r, _ in rts)} route registrations found (66 confirmed by hand)')
    handlers: Dict[int, str] = {}
    handler_params: Dict[int, Dict[str, str]] = {}
    for fn, regs, decos in rts:
        lv0 = level_of(decos)[0]
        ps = [a.arg for a in fn.args.posonlyargs + fn.args.args]
        if lv0 in ('user', 'member', 'developer') and len(ps) >= 2:
            handlers[id(fn)] = ps[1]
        if lv0 == 'member' and len(ps) >= 3:
            handler_params[id(fn)] = {ps[2]: 'batch_id'}
    oa = OwnerAnalysis(ctx, m, handlers, handler_params)
    # every rule is evaluated even when an earlier one declines: a violation established by a recognised shape is reported, otherwise the first decline stands
    declined: List[AnalysisError] = []
    for fn, regs, decos in rts:
        lv, unknown = level_of(decos)
        ctx.need(not unknown, f'{FE}::{fn.name}: decorator(s) {unknown} not classified')
        for method, path in regs:
            cons = f'{FE}::{fn.name}::{method} {path}'
            if lv is None:
                ctx.check(path in PUBLIC, 'R1', cons, f'{method} {path} is served without authentication and is not one of the public endpoints {sorted(PUBLIC)}', m.path, fn.lineno)
                continue
            if path in PUBLIC:
                ctx.ok('R1', cons, f'public path, level {lv}')
                continue
            admin = path.startswith(ADMIN_PREFIXES) and method in ('POST', 'PATCH', 'PUT', 'DELETE')
            if admin:
                ctx.check(lv in ('developer', 'dev-or-auth'), 'R4', cons, f'{method} {path} administers billing projects but only requires level `{lv}`', m.path, fn.lineno)
                continue
            if '{batch_id}' in path:
                if lv == 'member':
                    ctx.ok('R2', cons, 'billing-project members only')
                else:
                    try:
                        ok, why = oa.protected(fn)
                        served = oa.always_filters(fn, 4)
                        if not (ok and served):
                            # a statement that looks like an owner filter but could not be analysed: decline, do not alarm
                            unk = oa.unknown_in([fn])
                            if unk:
                                raise AnalysisError(f'{cons}: {unk[0]}')
                        inv = oa.invalid_in([fn])
                        extra = (' [' + '; '.join(inv[:2]) + ']') if inv else ''
                        ctx.check(ok, 'R3', cons, f'{method} {path} is open to any authenticated user and reaches a database write without first establishing that the caller owns the batch: {why}{extra}',
                                  m.path, fn.lineno)
                        # not membership-wrapped: the only callers the statement admits here are owners, so a normal response must
                        # not be reachable without the owner filter either (a read-only handler has no write for R3 to look at)
                        ctx.check(served, 'R2', cons, f'{method} {path} is open to any authenticated user (level `{lv}`, not billing_project_users_only) and some path through '
                                  f'{fn.name} reaches a normal response without an owner filter (SELECT ... WHERE user = <caller> AND id = <path batch id>, empty -> raise): a user who neither owns '
                                  f'the batch nor belongs to its billing project is served{extra}', m.path, fn.lineno)
                    except AnalysisError as err:
                        declined.append(err)
            else:
                ctx.ok('R2', cons, f'level {lv}')
    for step in (lambda: check_forwarding(ctx, m, oa), lambda: r5_wrappers(ctx, m, oa), lambda: r6_scoped_listings(ctx), lambda: r7_path_components(ctx, m, rts),
                 lambda: r8_membership(ctx, m, rts), lambda: r9_batch_scope(ctx, m, rts)):
        try:
            step()
        except AnalysisError as err:
            declined.append(err)
    if declined:
        raise declined[0]
