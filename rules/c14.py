"""C14 Batch API access control  (every registered route of the batch front end).

  R1  public set: a handler without an authenticating decorator must be one of the listed public endpoints
      (health, version/cloud, swagger/openapi, tos/privacy, static js)
  R2  batch-scoped routes (path contains {batch_id}): wrapped by billing_project_users_only, or authenticated AND owner-protected (R3)
  R3  owner protection of the mutation routes: every database write / CALL reachable from the handler (helpers followed by name,
      nested transaction functions included) is dominated by an owner filter - a SELECT over batches / job_groups with
      `user = <caller>` and `batch id = <path batch id>` whose empty result raises - or happens inside a helper that is itself
      protected in that sense
  R4  billing-project / billing-limit administration (POST routes under those prefixes) requires developer or the auth service
  R5  the wrappers themselves: authenticated_users_only raises for a missing or inactive user before calling the handler;
      authenticated_developers_only and authenticated_developers_or_auth_only are built on it and test is_developer (or username ==
      'auth'); billing_project_users_only is built on it, tests membership of the batch's billing project for the path's batch id and
      raises before calling the handler; pass-through decorators do not skip the inner handler's wrapper
Not decided: correctness of the auth service, session handling.
"""
from __future__ import annotations

import ast
from typing import Dict, List, Optional, Set, Tuple

from engines import pyfacts as pf
from engines import sqlfront as sf
from engines import sqlrules as sr
from engines.common import AnalysisError, Ctx
from engines.sqlast import N, text

META = dict(
    category='other',
    text='Every @routes registration of the batch front end is classified by its resolved decorator chain against the statement\'s own partition of endpoints; '
         'owner-only mutations are checked by an inter-procedural must-pass-through (owner filter dominates every write); the wrappers\' own bodies are checked.',
    note='Helpers are resolved by name inside front_end.py (depth 4). The auth service and aiohttp routing are trusted. A route added with a new decorator the checker '
         'cannot classify makes the check decline (exit 2).',
    technique='static analysis: decorator-chain resolution over all routes + inter-procedural dominance (must-pass-through) of an owner filter over writes',
    design_ref='DESIGN.md §3 C14',
)

FE = 'batch/batch/front_end/front_end.py'
PUBLIC = {'/healthcheck', '/api/v1alpha/version', '/api/v1alpha/cloud', '/swagger', '/openapi.yaml', '/tos', '/privacy', '/batch/static/js/{filename}'}
NEUTRAL = {'add_metadata_to_request', 'web_security_headers', 'web_security_headers_swagger', 'catch_ui_error_in_dev', 'deprecated', 'wraps', 'api_security_headers'}
LEVELS = {'auth.authenticated_users_only': 'user', 'auth.authenticated_developers_only': 'developer', 'billing_project_users_only': 'member',
          'authenticated_developers_or_auth_only': 'dev-or-auth'}
# routes served by imported handlers that are not part of the batch API (one line of reason each)
EXTERNAL_HANDLERS = {('GET', '/metrics', 'server_stats')}  # prometheus_async process metrics: no batch data, not an API endpoint of the statement
ADMIN_PREFIXES = ('/billing_projects/', '/api/v1alpha/billing_projects/', '/billing_limits/', '/api/v1alpha/billing_limits/')


def routes_of(m: pf.Module) -> List[Tuple[pf.FuncDef, List[Tuple[str, str]], List[str]]]:
    """One entry per (handler, set of decorators that wrap the function OBJECT that was registered).  Decorators apply bottom-up: a
    `@routes.X(path)` line registers the function as decorated by the lines BELOW it only; a wrapper written above the registration
    line does not protect that route (RouteTableDef registers the object it receives)."""
    out = []
    for fn in m.tree.body:
        if not isinstance(fn, (ast.FunctionDef, ast.AsyncFunctionDef)):
            continue
        names = []
        for d in fn.decorator_list:
            names.append((pf.dotted(d.func) if isinstance(d, ast.Call) else pf.dotted(d), d))
        groups: Dict[Tuple[str, ...], List[Tuple[str, str]]] = {}
        for i, (name, d) in enumerate(names):
            if name is not None and name.startswith('routes.') and isinstance(d, ast.Call):
                verb = name.split('.')[1]
                if verb == 'route':
                    ctx_args = [pf.const_str(a) for a in d.args[:2]]
                    if len(ctx_args) < 2 or None in ctx_args:
                        raise AnalysisError(f'{FE}:{fn.lineno}: routes.route(...) without literal method and path')
                    method, path = ctx_args[0].upper(), ctx_args[1]  # type: ignore[union-attr]
                else:
                    path = pf.const_str(d.args[0]) if d.args else None
                    if path is None:
                        raise AnalysisError(f'{FE}:{fn.lineno}: route path is not a literal')
                    method = verb.upper()
                below = tuple(n or pf.nsrc(dd) for n, dd in names[i + 1:] if not (n is not None and n.startswith('routes.')))
                groups.setdefault(below, []).append((method, path))
        for below, regs in groups.items():
            out.append((fn, regs, list(below)))
    # registrations outside the decorator idiom: app.router.add_<verb>(path, handler) / web.<verb>(path, handler)
    top = {f.name: f for f in m.tree.body if isinstance(f, (ast.FunctionDef, ast.AsyncFunctionDef))}
    for c in ast.walk(m.tree):
        if not isinstance(c, ast.Call) or not isinstance(c.func, ast.Attribute):
            continue
        verb = None
        if c.func.attr.startswith('add_') and c.func.attr[4:] in ('get', 'post', 'put', 'patch', 'delete', 'head', 'route', 'view') and pf.nsrc(c.func.value).endswith('router'):
            verb = c.func.attr[4:]
        elif pf.nsrc(c.func.value) == 'web' and c.func.attr in ('get', 'post', 'put', 'patch', 'delete', 'head', 'route', 'view') and len(c.args) >= 2:
            verb = c.func.attr
        if verb is None:
            continue
        args = list(c.args)
        method = verb.upper()
        if verb == 'route':
            mth = pf.const_str(args[0]) if args else None
            if mth is None:
                raise AnalysisError(f'{FE}:{c.lineno}: add_route without a literal method')
            method, args = mth.upper(), args[1:]
        path = pf.const_str(args[0]) if args else None
        h = args[1] if len(args) > 1 else None
        if path is None or not isinstance(h, ast.Name):
            raise AnalysisError(f'{FE}:{c.lineno}: `{pf.nsrc(c)}` registers a route whose path/handler is not a literal / a plain name')
        if h.id not in top:
            if path in PUBLIC or (method, path, h.id) in EXTERNAL_HANDLERS:
                continue
            raise AnalysisError(f'{FE}:{c.lineno}: route {method} {path} is served by `{h.id}`, which is not defined in this module')
        f2 = top[h.id]
        decos = [(pf.dotted(d.func) if isinstance(d, ast.Call) else pf.dotted(d)) or pf.nsrc(d) for d in f2.decorator_list]
        out.append((f2, [(method, path)], [d for d in decos if not d.startswith('routes.')]))
    return out


def level_of(decos: List[str]) -> Tuple[Optional[str], List[str]]:
    lv = None
    unknown = []
    for d in decos:
        if d in LEVELS:
            rank = ['user', 'member', 'dev-or-auth', 'developer']
            if lv is None or rank.index(LEVELS[d]) > rank.index(lv):
                lv = LEVELS[d]
        elif d not in NEUTRAL:
            unknown.append(d)
    return lv, unknown


# ------------------------------------------------------------------------------------------------
class OwnerAnalysis:
    def __init__(self, ctx: Ctx, m: pf.Module):
        self.ctx = ctx
        self.m = m
        self.embs = sf.embedded_in(m)
        self.memo: Dict[int, bool] = {}
        self.has_writes_memo: Dict[int, bool] = {}

    def resolve(self, fn: pf.FuncDef, call: ast.Call) -> Optional[pf.FuncDef]:
        name = pf.dotted(call.func)
        if name is None or '.' in name:
            return None
        # nested def in fn or an enclosing function, else module level
        cur: Optional[ast.AST] = fn
        while cur is not None:
            for n in ast.walk(cur):
                if isinstance(n, (ast.FunctionDef, ast.AsyncFunctionDef)) and n.name == name and n is not cur:
                    if self.m.enclosing_func(n) is cur:
                        return n
            cur = self.m.enclosing_func(cur)
        for n in self.m.tree.body:
            if isinstance(n, (ast.FunctionDef, ast.AsyncFunctionDef)) and n.name == name:
                return n
        return None

    def caller_user_expr(self, fn: pf.FuncDef, e: ast.expr) -> bool:
        """Does e denote the authenticated caller's username?"""
        s = pf.nsrc(e)
        if s == "userdata['username']":
            return True
        if isinstance(e, ast.Name):
            cur: Optional[pf.FuncDef] = fn
            while cur is not None:
                defs = pf.assignments(cur).get(e.id, [])
                for d in defs:
                    if isinstance(d, ast.expr) and pf.nsrc(d) == "userdata['username']":
                        return True
                    if isinstance(d, ast.arg) and d.arg == 'user':
                        return True  # forwarded by the caller; call sites are checked in check_forwarding
                cur = self.m.enclosing_func(cur)
        return False

    def filter_nodes(self, fn: pf.FuncDef, g: pf.CFG) -> List[pf.Node]:
        out = []
        for e in self.embs:
            if e.fn is not fn or e.sql_text is None:
                continue
            sts = e.stmts()
            if len(sts) != 1 or sts[0].kind != 'select':
                continue
            st = sts[0]
            tabs = [t.lower() for t in sf.table_names(st.frm)] if st.frm is not None else []
            if not ({'batches', 'job_groups'} & set(tabs)):
                continue
            params = sr.params_in_order(st)
            elts = sr.args_tuple(e.fn, e.call.args[1] if len(e.call.args) > 1 else None)
            if elts is None or len(elts) != len(params):
                continue
            bind = {p.pos: x for p, x in zip(params, elts)}
            user_ok = batch_ok = False
            for c in sf.conjuncts(st.where):
                if c.kind == 'bin' and c.op == '=' and c.right.kind == 'param':
                    col = text(c.left).lower().replace('`', '')
                    val = bind[c.right.pos]
                    if col in ('user', 'batches.user', 'job_groups.user') and self.caller_user_expr(fn, val):
                        user_ok = True
                    if col in ('id', 'batches.id', 'batch_id', 'batch_updates.batch_id', 'job_groups.batch_id') and pf.nsrc(val) in ('batch_id', 'id'):
                        batch_ok = True
            if not (user_ok and batch_ok):
                continue
            nodes = g.node_of(e.call)
            if not nodes or not isinstance(nodes[0].ast, ast.Assign):
                continue
            var = pf.nsrc(nodes[0].ast.targets[0])
            # directly followed by `if not <var>: raise`
            cur = nodes[0]
            for _ in range(3):
                nxt = [s for s, lab in cur.succ if lab != 'exc']
                if len(nxt) != 1:
                    break
                cur = nxt[0]
                if cur.kind == 'test' and pf.nsrc(cur.ast) in (f'not {var}', f'{var} is None'):
                    if any(s.kind == 'raise' for s, lab in cur.succ if lab == 'T'):
                        out.append(nodes[0])
                    break
        return out

    def write_nodes(self, fn: pf.FuncDef, g: pf.CFG, depth: int) -> List[Tuple[pf.Node, Optional[pf.FuncDef], str]]:
        """(node, helper or None, description) for direct SQL writes and calls of helpers that (transitively) write."""
        out = []
        for e in self.embs:
            if e.fn is not fn:
                continue
            if e.sql_text is None:
                continue
            if any(sf.written_tables(st) or st.kind == 'call' for st in e.stmts()):
                for n in g.node_of(e.call):
                    out.append((n, None, text(e.stmts()[0])[:60]))
        if depth > 0:
            for n in g.nodes:
                for c in pf.node_calls(n):
                    h = self.resolve(fn, c)
                    if h is not None and h is not fn and self.has_writes(h, depth - 1):
                        out.append((n, h, f'call {h.name}()'))
        return out

    def has_writes(self, fn: pf.FuncDef, depth: int) -> bool:
        k = id(fn)
        if k in self.has_writes_memo:
            return self.has_writes_memo[k]
        self.has_writes_memo[k] = False
        g = pf.cfg(fn)
        r = bool(self.write_nodes(fn, g, depth))
        self.has_writes_memo[k] = r
        return r

    def protected(self, fn: pf.FuncDef, depth: int = 4) -> Tuple[bool, str]:
        """Every write reachable in fn is dominated by an owner filter in fn, or is a call of a protected helper."""
        g = pf.cfg(fn)
        filters = self.filter_nodes(fn, g)
        # calls to helpers that always filter before returning normally count as filters too
        for n in g.nodes:
            for c in pf.node_calls(n):
                h = self.resolve(fn, c)
                if h is not None and h is not fn and depth > 0 and self.always_filters(h, depth - 1):
                    filters.append(n)
        for n, h, desc in self.write_nodes(fn, g, depth):
            if any(n is f for f in filters):
                continue
            if g.dominated_by(n, lambda x: any(x is f for f in filters)):
                continue
            if h is not None and depth > 0:
                ok, why = self.protected(h, depth - 1)
                if ok:
                    continue
                return False, f'{fn.name} -> {why}'
            return False, f'{fn.name}: `{desc}` (line {n.lineno}) is reachable without an owner filter'
        return True, ''

    def always_filters(self, fn: pf.FuncDef, depth: int) -> bool:
        """Every normal return of fn has passed an owner filter (in fn or in a nested helper that always filters)."""
        g = pf.cfg(fn)
        filters = self.filter_nodes(fn, g)
        if depth > 0:
            for n in g.nodes:
                for c in pf.node_calls(n):
                    h = self.resolve(fn, c)
                    if h is not None and h is not fn and self.always_filters(h, depth - 1):
                        filters.append(n)
        if not filters:
            return False
        return g.path_avoiding(g.entry, lambda x: x is g.exit, lambda x: any(x is f for f in filters)) is None


def check_forwarding(ctx: Ctx, m: pf.Module) -> None:
    """Helpers that take the caller's name as a parameter `user` must receive the authenticated username at every call site."""
    helpers = {}
    for fn in m.tree.body:
        if isinstance(fn, (ast.FunctionDef, ast.AsyncFunctionDef)) and fn.name in ('_create_batch_update', '_create_job_groups', '_commit_update'):
            helpers[fn.name] = fn
    n = 0
    for node in ast.walk(m.tree):
        if isinstance(node, ast.Call) and pf.dotted(node.func) in helpers:
            h = helpers[pf.dotted(node.func)]
            names = [a.arg for a in h.args.args]
            if 'user' not in names:
                continue
            i = names.index('user')
            arg = node.args[i] if i < len(node.args) else next((k.value for k in node.keywords if k.arg == 'user'), None)
            caller = m.enclosing_func(node)
            ok = arg is not None and (pf.nsrc(arg) == "userdata['username']" or
                                      (isinstance(arg, ast.Name) and caller is not None and any(isinstance(d, ast.expr) and pf.nsrc(d) == "userdata['username']"
                                                                                               for d in pf.assignments(caller).get(arg.id, []))))
            n += 1
            ctx.check(ok, 'R3', f'{FE}::{m.qualname(caller) if caller else "?"}::passes caller to {h.name}', f'{h.name}(.. user={pf.nsrc(arg) if arg is not None else None} ..): the owner filter inside '
                      'would be evaluated for someone other than the authenticated caller', m.path, node.lineno)
    ctx.need(n >= 5, f'only {n} call sites of the owner-filtering helpers found')


# ------------------------------------------------------------------------------------------------
def r5_wrappers(ctx: Ctx, m: pf.Module) -> None:
    gm = pf.load('gear/gear/auth.py')
    w = gm.func('Authenticator.authenticated_users_only.wrap.wrapped')
    g = pf.cfg(w)
    calls = g.find(lambda n: any(pf.dotted(c.func) == 'fun' for c in pf.node_calls(n)))
    ctx.need(len(calls) == 1, 'authenticated_users_only: handler call not found')
    t_missing = g.find(lambda n: n.kind == 'test' and pf.nsrc(n.ast) == 'not userdata')
    t_inactive = g.find(lambda n: n.kind == 'test' and pf.nsrc(n.ast) == "userdata['state'] == 'inactive'")

    def blocks(tests: List[pf.Node]) -> bool:
        if not tests:
            return False
        # the handler call is unreachable when the test is true
        return g.path_avoiding(g.entry, lambda n: n is calls[0], lambda n: False, edge_ok=lambda a, b, lab: not (a in tests and lab == 'F')) is None
    ctx.check(blocks(t_missing), 'R5', 'gear/gear/auth.py::authenticated_users_only::missing user', 'the handler is reachable without userdata (unauthenticated request)', gm.path, w.lineno)
    ctx.check(blocks(t_inactive), 'R5', 'gear/gear/auth.py::authenticated_users_only::inactive user', 'the handler is reachable for an inactive account', gm.path, w.lineno)
    fetch = g.find(lambda n: any(pf.dotted(c.func) == 'self._fetch_userdata' for c in pf.node_calls(n)))
    ctx.check(len(fetch) == 1 and g.dominated_by(calls[0], lambda n: n is fetch[0]) and [pf.nsrc(a) for a in pf.node_calls(calls[0])[0].args] == ['request', 'userdata'], 'R5',
              'gear/gear/auth.py::authenticated_users_only::userdata source', 'the userdata handed to the handler is not the one fetched for this request', gm.path, w.lineno)

    def built_on(fn: pf.FuncDef, deco: str) -> bool:
        return any((pf.dotted(d.func) if isinstance(d, ast.Call) else pf.dotted(d)) == deco for d in fn.decorator_list)

    def only_under(fn: pf.FuncDef, cond_src: str) -> bool:
        g2 = pf.cfg(fn)
        c2 = g2.find(lambda n: any(pf.dotted(c.func) == 'fun' for c in pf.node_calls(n)))
        tests = g2.find(lambda n: n.kind == 'test' and pf.nsrc(n.ast) == cond_src)
        return len(c2) == 1 and bool(tests) and g2.path_avoiding(g2.entry, lambda n: n is c2[0], lambda n: False, edge_ok=lambda a, b, lab: not (a in tests and lab == 'T')) is None
    dv = gm.func('Authenticator.authenticated_developers_only.wrap.wrapped')
    ctx.check(built_on(dv, 'self.authenticated_users_only') and only_under(dv, "userdata['is_developer'] == 1"), 'R5', 'gear/gear/auth.py::authenticated_developers_only',
              'not built on authenticated_users_only or the handler is reachable for a non-developer', gm.path, dv.lineno)
    da = m.func('authenticated_developers_or_auth_only.wrapped')
    ctx.check(built_on(da, 'auth.authenticated_users_only') and only_under(da, "userdata['is_developer'] == 1 or userdata['username'] == 'auth'"), 'R5', f'{FE}::authenticated_developers_or_auth_only',
              'not built on authenticated_users_only or the handler is reachable for a caller that is neither a developer nor the auth service', m.path, da.lineno)
    bp = m.func('billing_project_users_only.wrap.wrapped')
    g3 = pf.cfg(bp)
    c3 = g3.find(lambda n: any(pf.dotted(c.func) == 'fun' for c in pf.node_calls(n)))
    acc = g3.find(lambda n: any(pf.dotted(c.func) == '_user_can_access' for c in pf.node_calls(n)))
    okb = built_on(bp, 'auth.authenticated_users_only') and len(c3) == 1 and len(acc) == 1
    if okb:
        call = [c for c in pf.node_calls(acc[0]) if pf.dotted(c.func) == '_user_can_access'][0]
        args = [pf.nsrc(pf.resolve_expr(bp, a)) for a in call.args]
        var = pf.nsrc(acc[0].ast.targets[0]) if isinstance(acc[0].ast, ast.Assign) else '?'
        tests = g3.find(lambda n: n.kind == 'test' and pf.nsrc(n.ast) == f'not {var}')
        okb = args[1:] == ["int(request.match_info['batch_id'])", "userdata['username']"] and bool(tests) and \
            g3.path_avoiding(g3.entry, lambda n: n is c3[0], lambda n: False, edge_ok=lambda a, b, lab: not (a in tests and lab == 'F')) is None and \
            [pf.nsrc(a) for a in pf.node_calls(c3[0])[0].args][:2] == ['request', 'userdata']
    ctx.check(okb, 'R5', f'{FE}::billing_project_users_only', 'the wrapper does not test membership for (the path\'s batch id, the caller) and raise before calling the handler', m.path, bp.lineno)
    ua = m.func('_user_can_access')
    e = [x for x in sf.embedded_in(m) if x.fn is ua]
    oku = len(e) == 1
    if oku:
        st = e[0].stmts()[0]
        on = [text(c).lower() for j in st.frm.joins for c in sf.conjuncts(j.on)]
        elts = sr.args_tuple(ua, e[0].call.args[1])
        conj = {text(c.left).lower().replace('`', ''): c.right for c in sf.conjuncts(st.where) if c.kind == 'bin' and c.op == '='}
        params = sr.params_in_order(st)
        bind = {p.pos: pf.nsrc(x) for p, x in zip(params, elts or [])}
        oku = sf.table_names(st.frm)[0].lower() == 'batches' and '(batches.billing_project = billing_project_users.billing_project)' in on and \
            bind.get(getattr(conj.get('id'), 'pos', None)) == 'batch_id' and bind.get(getattr(conj.get('billing_project_users.user_cs'), 'pos', None)) == 'user'
        ret = [n for n in ast.walk(ua) if isinstance(n, ast.Return)]
        oku = oku and len(ret) == 1 and pf.nsrc(ret[0].value) == 'record is not None'
    ctx.check(oku, 'R5', f'{FE}::_user_can_access', 'membership is not decided by joining the batch\'s billing project with billing_project_users for (batch id, caller)', m.path, ua.lineno)
    # pass-through decorators call the wrapped function with the same leading arguments
    for name in sorted(NEUTRAL & {f.name for f in m.tree.body if isinstance(f, (ast.FunctionDef, ast.AsyncFunctionDef))}):
        fn = m.func(name)
        inner = [n for n in ast.walk(fn) if isinstance(n, (ast.AsyncFunctionDef, ast.FunctionDef)) and n is not fn]
        okp = bool(inner) and any(isinstance(c, ast.Call) and pf.dotted(c.func) in ('fun', 'f', 'handler') and c.args and pf.nsrc(c.args[0]) == 'request' for i in inner for c in ast.walk(i))
        ctx.check(okp, 'R5', f'{FE}::{name}::pass-through', 'this decorator does not simply call the wrapped handler with the request', m.path, fn.lineno)


def r6_scoped_listings(ctx: Ctx) -> None:
    """Listing queries are scoped by conjuncts such as `jobs.batch_id = %s` / `billing_project_users.user = %s`; every further condition
    is ANDed on.  A condition whose top-level operator is OR (not wrapped in parentheses) would turn the scope into one alternative."""
    from engines import sqlclosed as sc
    qm = pf.load('batch/batch/front_end/query/query.py')
    method_closed: Dict[str, bool] = {}
    for cls in qm.classes():
        for fn in cls.body:
            if isinstance(fn, ast.FunctionDef) and fn.name == 'query' and not any(isinstance(x, ast.Raise) and len(fn.body) == 1 for x in fn.body):
                try:
                    method_closed[cls.name] = sc.method_returns_closed(qm, fn)
                except AnalysisError as e:
                    raise AnalysisError(f'query.py::{cls.name}.query: {e}')
    ctx.need(len(method_closed) >= 20, f'only {len(method_closed)} Query.query methods analysed')
    ctx.unit('query_term_classes', len(method_closed))
    for rel, funcs in (('batch/batch/front_end/query/query_v1.py', ['parse_list_batches_query_v1', 'parse_job_group_jobs_query_v1', 'parse_list_job_groups_query_v1']),
                       ('batch/batch/front_end/query/query_v2.py', ['parse_list_batches_query_v2', 'parse_job_group_jobs_query_v2'])):
        m = pf.load(rel)
        for name in funcs:
            if not m.has_func(name):
                continue
            fn = m.func(name)
            c = sc.Closedness(m, method_closed)
            sinks: List = []
            c.run(fn.body, {}, sinks, 'where_conditions')
            joins = [n for n in ast.walk(fn) if isinstance(n, ast.Call) and isinstance(n.func, ast.Attribute) and n.func.attr == 'join' and n.args and pf.nsrc(n.args[0]) == 'where_conditions']
            if not sinks and not joins:
                continue
            ctx.need(joins and all(pf.const_str(j.func.value).strip().upper() == 'AND' for j in joins), f'{rel}::{name}: where_conditions are not joined with AND')
            for closed, node in sinks:
                ctx.check(closed, 'R6', f'{rel}::{name}::AND-term `{pf.nsrc(node)[:60]}`', 'this condition is ANDed into the scoped WHERE clause without parentheses although its top-level operator may be OR '
                          '(AND binds tighter): the batch / billing-project restriction becomes one alternative and rows of other batches are returned', m.path, node.lineno)
            scope = any('batch_id = %s' in pf.nsrc(n) or 'billing_project_users' in pf.nsrc(n) for _, n in sinks)
            ctx.check(scope, 'R6', f'{rel}::{name}::scope conjunct', 'the listing has no conjunct restricting it to the requested batch / the caller\'s billing projects', m.path, fn.lineno)


def run(ctx: Ctx) -> None:
    ctx.explanation = 'Classification of all routes by resolved decorator chain against the statement\'s partition of endpoints; inter-procedural owner-filter dominance for owner-only mutations.'
    ctx.rule('R1', 'unauthenticated handlers are exactly the listed public endpoints', 8)
    ctx.rule('R2', 'every {batch_id} route is membership-wrapped or authenticated + owner-protected; every other route is at least authenticated', 45)
    ctx.rule('R3', 'owner-only mutations: every reachable write is dominated by an owner filter for (caller, path batch id)', 18)
    ctx.rule('R4', 'billing project / limit administration requires developer or auth service', 13)
    ctx.rule('R5', 'the authenticating wrappers block before calling the handler; pass-through decorators pass through', 9)
    ctx.rule('R6', 'listing queries: every condition ANDed onto the batch / billing-project scope is closed under AND (parenthesised or no top-level OR)', 22)
    m = pf.load(FE)
    rts = routes_of(m)
    ctx.unit('routes', sum(len(r) for _, r, _ in rts))
    ctx.need(sum(len(r) for _, r, _ in rts) >= 66, f'only {sum(len(r) for _, r, _ in rts)} route registrations found (66 confirmed by hand)')
    oa = OwnerAnalysis(ctx, m)
    for fn, regs, decos in rts:
        lv, unknown = level_of(decos)
        ctx.need(not unknown, f'{FE}::{fn.name}: decorator(s) {unknown} not classified')
        for method, path in regs:
            cons = f'{FE}::{fn.name}::{method} {path}'
            if lv is None:
                ctx.check(path in PUBLIC, 'R1', cons, f'{method} {path} is served without authentication and is not one of the public endpoints {sorted(PUBLIC)}', m.path, fn.lineno)
                continue
            if path in PUBLIC:
                ctx.ok('R1', cons, f'public path, level {lv}')
                continue
            admin = path.startswith(ADMIN_PREFIXES) and method in ('POST', 'PATCH', 'PUT', 'DELETE')
            if admin:
                ctx.check(lv in ('developer', 'dev-or-auth'), 'R4', cons, f'{method} {path} administers billing projects but only requires level `{lv}`', m.path, fn.lineno)
                continue
            if '{batch_id}' in path:
                if lv == 'member':
                    ctx.ok('R2', cons, 'billing-project members only')
                else:
                    ok, why = oa.protected(fn)
                    ctx.check(ok, 'R3', cons, f'{method} {path} is open to any authenticated user and reaches a database write without first establishing that the caller owns the batch: {why}',
                              m.path, fn.lineno)
                    ctx.ok('R2', cons, f'authenticated ({lv}); owner protection decided under R3')
            else:
                ctx.ok('R2', cons, f'level {lv}')
    check_forwarding(ctx, m)
    r5_wrappers(ctx, m)
    r6_scoped_listings(ctx)
