"""C14 Batch API access control  (every registered route of the batch front end).

  R1  public set: a handler without an authenticating decorator must be one of the listed public endpoints
      (health, version/cloud, swagger/openapi, tos/privacy, static js)
  R2  batch-scoped routes (path contains {batch_id}): wrapped by billing_project_users_only, or authenticated AND owner-protected (R3)
  R3  owner protection of the mutation routes: every database write / CALL reachable from the handler (helpers followed by name,
      nested transaction functions included) is dominated by an owner filter - a SELECT over batches / job_groups with
      `user = <caller>` and `batch id = <path batch id>` whose empty result raises - or happens inside a helper that is itself
      protected in that sense
  R4  billing-project / billing-limit administration (POST routes under those prefixes) requires developer or the auth service
  R5  the wrappers themselves: authenticated_users_only raises for a missing or inactive user before calling the handler;
      authenticated_developers_only and authenticated_developers_or_auth_only are built on it and test is_developer (or username ==
      'auth'); billing_project_users_only is built on it, tests membership of the batch's billing project for the path's batch id and
      raises before calling the handler; pass-through decorators do not skip the inner handler's wrapper
  R6  listing queries: every condition ANDed onto the batch / billing-project scope stays one conjunct
  R7  sub-resource selectors: the membership / owner test covers the path's batch id only, so every further path component of a
      {batch_id} route is either converted by int() or - as a string - confined, at every point where it selects what is fetched
      (worker URL, object-store key, SQL text; followed through helpers by parameter), to a language without '/': the language
      admitted by the conditions that dominate the use is computed as a regular language and intersected with .*'/'.*
  R8  membership has one meaning: the `.../users/{user}/remove` routes reach a write of billing_project_users keyed by the path's
      (billing project, user); when that write keeps the row (UPDATE ... SET c = v) the filter of EVERY reader of the table
      (_user_can_access behind billing_project_users_only, batch creation, the listings, the billing-project views) must reject a row
      with c = v (three-valued may-analysis of its conjuncts); and no row state the front end can write (literal column values of its
      INSERT / UPDATE statements) is rejected by one reader and admitted by another
  R9  per-query batch filters: every SELECT / UPDATE / DELETE scope an embedded statement of a {batch_id} route runs over a table
      keyed by a batch id ties that key - by a WHERE conjunct, the ON clause that brings the table in, or transitively through join
      equalities - to a bound parameter (union-find over the equality conjuncts; an outer join's ON clause restricts only the joined
      table); where the bound value traces back to path components it must be {batch_id}
Not decided: correctness of the auth service, session handling; SQL text assembled by the query parsers (R6 covers its scope conjunct).
"""
from __future__ import annotations

import ast
from typing import Dict, List, Optional, Set, Tuple

from engines import c14facts as cf
from engines import pyfacts as pf
from engines import sqlfront as sf
from engines import sqlrules as sr
from engines.common import AnalysisError, Ctx
from engines.sqlast import N, text

META = dict(
    category='other',
    text='Every @routes registration of the batch front end is classified by its resolved decorator chain against the statement\'s own partition of endpoints; '
         'owner-only mutations are checked by an inter-procedural must-pass-through (owner filter dominates every write and every normal response); the wrappers\' own bodies are checked; '
         'string path components of the per-batch routes are followed to the lookups they select and the regular language admitted by the dominating conditions is intersected with .*/.*; '
         'the readers of billing_project_users are checked against the revocation write (three-valued may-analysis) and against each other; every embedded statement of a per-batch route '
         'is checked to be tied to the request batch (union-find over equality conjuncts).',
    note='Helpers are resolved by name inside front_end.py (depth 4-6). The auth service and aiohttp routing are trusted (a path component is matched per segment and percent-decoded afterwards). '
         'A route added with a new decorator the checker cannot classify, a string path component handed to an unclassified library call, or a condition on it that is not a recognised string '
         'predicate makes the check decline (exit 2). SQL text assembled by the query parsers is covered by R6 only.',
    technique='static analysis: decorator-chain resolution over all routes + inter-procedural dominance (must-pass-through) of an owner filter + taint flow of path components with regular-language '
              'guards (relang/strpred) + SQL conjunct analysis (may-analysis over NULL/boolean states, union-find of batch-key equalities)',
    design_ref='DESIGN.md §3 C14',
)

FE = 'batch/batch/front_end/front_end.py'
PUBLIC = {'/healthcheck', '/api/v1alpha/version', '/api/v1alpha/cloud', '/swagger', '/openapi.yaml', '/tos', '/privacy', '/batch/static/js/{filename}'}
NEUTRAL = {'add_metadata_to_request', 'web_security_headers', 'web_security_headers_swagger', 'catch_ui_error_in_dev', 'deprecated', 'wraps', 'api_security_headers'}
LEVELS = {'auth.authenticated_users_only': 'user', 'auth.authenticated_developers_only': 'developer', 'billing_project_users_only': 'member',
          'authenticated_developers_or_auth_only': 'dev-or-auth'}
# routes served by imported handlers that are not part of the batch API (one line of reason each)
EXTERNAL_HANDLERS = {('GET', '/metrics', 'server_stats')}  # prometheus_async process metrics: no batch data, not an API endpoint of the statement
ADMIN_PREFIXES = ('/billing_projects/', '/api/v1alpha/billing_projects/', '/billing_limits/', '/api/v1alpha/billing_limits/')


ROUTE_REGEX: Dict[Tuple[str, str], Dict[str, str]] = {}


def split_route(path: str) -> Tuple[str, Dict[str, str]]:
    """aiohttp dynamic segments `{name:regex}` (the regex may contain balanced braces) -> the path with plain `{name}` segments,
    and the regex of each constrained component."""
    out = []
    regs: Dict[str, str] = {}
    i = 0
    while i < len(path):
        c = path[i]
        if c != '{':
            out.append(c)
            i += 1
            continue
        depth = 0
        j = i
        while j < len(path):
            if path[j] == '{':
                depth += 1
            elif path[j] == '}':
                depth -= 1
                if depth == 0:
                    break
            j += 1
        if j >= len(path):
            raise AnalysisError(f'{FE}: unbalanced braces in route path {path!r}')
        inner = path[i + 1:j]
        name, sep, rx = inner.partition(':')
        out.append('{' + name.strip() + '}')
        if sep:
            regs[name.strip()] = rx
        i = j + 1
    return ''.join(out), regs


def _reg(method: str, raw_path: str) -> Tuple[str, str]:
    npath, regs = split_route(raw_path)
    ROUTE_REGEX[(method, npath)] = regs
    return method, npath


def routes_of(m: pf.Module) -> List[Tuple[pf.FuncDef, List[Tuple[str, str]], List[str]]]:
    """One entry per (handler, set of decorators that wrap the function OBJECT that was registered).  Decorators apply bottom-up: a
    `@routes.X(path)` line registers the function as decorated by the lines BELOW it only; a wrapper written above the registration
    line does not protect that route (RouteTableDef registers the object it receives)."""
    out = []
    for fn in m.tree.body:
        if not isinstance(fn, (ast.FunctionDef, ast.AsyncFunctionDef)):
            continue
        names = []
        for d in fn.decorator_list:
            names.append((pf.dotted(d.func) if isinstance(d, ast.Call) else pf.dotted(d), d))
        groups: Dict[Tuple[str, ...], List[Tuple[str, str]]] = {}
        for i, (name, d) in enumerate(names):
            if name is not None and name.startswith('routes.') and isinstance(d, ast.Call):
                verb = name.split('.')[1]
                if verb == 'route':
                    ctx_args = [pf.const_str(a) for a in d.args[:2]]
                    if len(ctx_args) < 2 or None in ctx_args:
                        raise AnalysisError(f'{FE}:{fn.lineno}: routes.route(...) without literal method and path')
                    method, path = ctx_args[0].upper(), ctx_args[1]  # type: ignore[union-attr]
                else:
                    path = pf.const_str(d.args[0]) if d.args else None
                    if path is None:
                        raise AnalysisError(f'{FE}:{fn.lineno}: route path is not a literal')
                    method = verb.upper()
                below = tuple(n or pf.nsrc(dd) for n, dd in names[i + 1:] if not (n is not None and n.startswith('routes.')))
                groups.setdefault(below, []).append(_reg(method, path))
        for below, regs in groups.items():
            out.append((fn, regs, list(below)))
    # registrations outside the decorator idiom: app.router.add_<verb>(path, handler) / web.<verb>(path, handler)
    top = {f.name: f for f in m.tree.body if isinstance(f, (ast.FunctionDef, ast.AsyncFunctionDef))}
    for c in ast.walk(m.tree):
        if not isinstance(c, ast.Call) or not isinstance(c.func, ast.Attribute):
            continue
        verb = None
        if c.func.attr.startswith('add_') and c.func.attr[4:] in ('get', 'post', 'put', 'patch', 'delete', 'head', 'route', 'view') and pf.nsrc(c.func.value).endswith('router'):
            verb = c.func.attr[4:]
        elif pf.nsrc(c.func.value) == 'web' and c.func.attr in ('get', 'post', 'put', 'patch', 'delete', 'head', 'route', 'view') and len(c.args) >= 2:
            verb = c.func.attr
        if verb is None:
            continue
        args = list(c.args)
        method = verb.upper()
        if verb == 'route':
            mth = pf.const_str(args[0]) if args else None
            if mth is None:
                raise AnalysisError(f'{FE}:{c.lineno}: add_route without a literal method')
            method, args = mth.upper(), args[1:]
        path = pf.const_str(args[0]) if args else None
        h = args[1] if len(args) > 1 else None
        if path is None or not isinstance(h, ast.Name):
            raise AnalysisError(f'{FE}:{c.lineno}: `{pf.nsrc(c)}` registers a route whose path/handler is not a literal / a plain name')
        method, path = _reg(method, path)
        if h.id not in top:
            if path in PUBLIC or (method, path, h.id) in EXTERNAL_HANDLERS:
                continue
            raise AnalysisError(f'{FE}:{c.lineno}: route {method} {path} is served by `{h.id}`, which is not defined in this module')
        f2 = top[h.id]
        decos = [(pf.dotted(d.func) if isinstance(d, ast.Call) else pf.dotted(d)) or pf.nsrc(d) for d in f2.decorator_list]
        out.append((f2, [(method, path)], [d for d in decos if not d.startswith('routes.')]))
    return out


def level_of(decos: List[str]) -> Tuple[Optional[str], List[str]]:
    lv = None
    unknown = []
    for d in decos:
        if d in LEVELS:
            rank = ['user', 'member', 'dev-or-auth', 'developer']
            if lv is None or rank.index(LEVELS[d]) > rank.index(lv):
                lv = LEVELS[d]
        elif d not in NEUTRAL:
            unknown.append(d)
    return lv, unknown


# ------------------------------------------------------------------------------------------------
class OwnerAnalysis:
    def __init__(self, ctx: Ctx, m: pf.Module):
        self.ctx = ctx
        self.m = m
        self.embs = sf.embedded_in(m)
        self.names = cf.PathFlow(m)
        self.memo: Dict[int, bool] = {}
        self.has_writes_memo: Dict[int, bool] = {}

    def resolve(self, fn: pf.FuncDef, call: ast.Call) -> Optional[pf.FuncDef]:
        # nested def in fn or an enclosing function, else module level (indexed once per module)
        return self.names.resolve(fn, call)

    def caller_user_expr(self, fn: pf.FuncDef, e: ast.expr) -> bool:
        """Does e denote the authenticated caller's username?"""
        s = pf.nsrc(e)
        if s == "userdata['username']":
            return True
        if isinstance(e, ast.Name):
            cur: Optional[pf.FuncDef] = fn
            while cur is not None:
                defs = pf.assignments(cur).get(e.id, [])
                for d in defs:
                    if isinstance(d, ast.expr) and pf.nsrc(d) == "userdata['username']":
                        return True
                    if isinstance(d, ast.arg) and d.arg == 'user':
                        return True  # forwarded by the caller; call sites are checked in check_forwarding
                cur = self.m.enclosing_func(cur)
        return False

    def filter_nodes(self, fn: pf.FuncDef, g: pf.CFG) -> List[pf.Node]:
        out = []
        for e in self.embs:
            if e.fn is not fn or e.sql_text is None:
                continue
            sts = e.stmts()
            if len(sts) != 1 or sts[0].kind != 'select':
                continue
            st = sts[0]
            tabs = [t.lower() for t in sf.table_names(st.frm)] if st.frm is not None else []
            if not ({'batches', 'job_groups'} & set(tabs)):
                continue
            params = sr.params_in_order(st)
            elts = sr.args_tuple(e.fn, e.call.args[1] if len(e.call.args) > 1 else None)
            if elts is None or len(elts) != len(params):
                continue
            bind = {p.pos: x for p, x in zip(params, elts)}
            user_ok = batch_ok = False
            for c in sf.conjuncts(st.where):
                if c.kind == 'bin' and c.op == '=' and c.right.kind == 'param':
                    col = text(c.left).lower().replace('`', '')
                    val = bind[c.right.pos]
                    if col in ('user', 'batches.user', 'job_groups.user') and self.caller_user_expr(fn, val):
                        user_ok = True
                    if col in ('id', 'batches.id', 'batch_id', 'batch_updates.batch_id', 'job_groups.batch_id') and pf.nsrc(val) in ('batch_id', 'id'):
                        batch_ok = True
            if not (user_ok and batch_ok):
                continue
            nodes = g.node_of(e.call)
            if not nodes or not isinstance(nodes[0].ast, ast.Assign):
                continue
            var = pf.nsrc(nodes[0].ast.targets[0])
            # directly followed by `if not <var>: raise`
            cur = nodes[0]
            for _ in range(3):
                nxt = [s for s, lab in cur.succ if lab != 'exc']
                if len(nxt) != 1:
                    break
                cur = nxt[0]
                if cur.kind == 'test' and pf.nsrc(cur.ast) in (f'not {var}', f'{var} is None'):
                    if any(s.kind == 'raise' for s, lab in cur.succ if lab == 'T'):
                        out.append(nodes[0])
                    break
        return out

    def write_nodes(self, fn: pf.FuncDef, g: pf.CFG, depth: int) -> List[Tuple[pf.Node, Optional[pf.FuncDef], str]]:
        """(node, helper or None, description) for direct SQL writes and calls of helpers that (transitively) write."""
        out = []
        for e in self.embs:
            if e.fn is not fn:
                continue
            if e.sql_text is None:
                continue
            if any(sf.written_tables(st) or st.kind == 'call' for st in e.stmts()):
                for n in g.node_of(e.call):
                    out.append((n, None, text(e.stmts()[0])[:60]))
        if depth > 0:
            for n in g.nodes:
                for c in pf.node_calls(n):
                    h = self.resolve(fn, c)
                    if h is not None and h is not fn and self.has_writes(h, depth - 1):
                        out.append((n, h, f'call {h.name}()'))
        return out

    def has_writes(self, fn: pf.FuncDef, depth: int) -> bool:
        k = id(fn)
        if k in self.has_writes_memo:
            return self.has_writes_memo[k]
        self.has_writes_memo[k] = False
        g = pf.cfg(fn)
        r = bool(self.write_nodes(fn, g, depth))
        self.has_writes_memo[k] = r
        return r

    def protected(self, fn: pf.FuncDef, depth: int = 4) -> Tuple[bool, str]:
        """Every write reachable in fn is dominated by an owner filter in fn, or is a call of a protected helper."""
        g = pf.cfg(fn)
        filters = self.filter_nodes(fn, g)
        # calls to helpers that always filter before returning normally count as filters too
        for n in g.nodes:
            for c in pf.node_calls(n):
                h = self.resolve(fn, c)
                if h is not None and h is not fn and depth > 0 and self.always_filters(h, depth - 1):
                    filters.append(n)
        for n, h, desc in self.write_nodes(fn, g, depth):
            if any(n is f for f in filters):
                continue
            if g.dominated_by(n, lambda x: any(x is f for f in filters)):
                continue
            if h is not None and depth > 0:
                ok, why = self.protected(h, depth - 1)
                if ok:
                    continue
                return False, f'{fn.name} -> {why}'
            return False, f'{fn.name}: `{desc}` (line {n.lineno}) is reachable without an owner filter'
        return True, ''

    def always_filters(self, fn: pf.FuncDef, depth: int) -> bool:
        """Every normal return of fn has passed an owner filter (in fn or in a nested helper that always filters)."""
        g = pf.cfg(fn)
        filters = self.filter_nodes(fn, g)
        if depth > 0:
            for n in g.nodes:
                for c in pf.node_calls(n):
                    h = self.resolve(fn, c)
                    if h is not None and h is not fn and self.always_filters(h, depth - 1):
                        filters.append(n)
        if not filters:
            return False
        return g.path_avoiding(g.entry, lambda x: x is g.exit, lambda x: any(x is f for f in filters)) is None


def check_forwarding(ctx: Ctx, m: pf.Module) -> None:
    """Helpers that take the caller's name as a parameter `user` must receive the authenticated username at every call site."""
    helpers = {}
    for fn in m.tree.body:
        if isinstance(fn, (ast.FunctionDef, ast.AsyncFunctionDef)) and fn.name in ('_create_batch_update', '_create_job_groups', '_commit_update'):
            helpers[fn.name] = fn
    n = 0
    for node in ast.walk(m.tree):
        if isinstance(node, ast.Call) and pf.dotted(node.func) in helpers:
            h = helpers[pf.dotted(node.func)]
            names = [a.arg for a in h.args.args]
            if 'user' not in names:
                continue
            i = names.index('user')
            arg = node.args[i] if i < len(node.args) else next((k.value for k in node.keywords if k.arg == 'user'), None)
            caller = m.enclosing_func(node)
            ok = arg is not None and (pf.nsrc(arg) == "userdata['username']" or
                                      (isinstance(arg, ast.Name) and caller is not None and any(isinstance(d, ast.expr) and pf.nsrc(d) == "userdata['username']"
                                                                                               for d in pf.assignments(caller).get(arg.id, []))))
            n += 1
            ctx.check(ok, 'R3', f'{FE}::{m.qualname(caller) if caller else "?"}::passes caller to {h.name}', f'{h.name}(.. user={pf.nsrc(arg) if arg is not None else None} ..): the owner filter inside '
                      'would be evaluated for someone other than the authenticated caller', m.path, node.lineno)
    ctx.need(n >= 5, f'only {n} call sites of the owner-filtering helpers found')


# ------------------------------------------------------------------------------------------------
def r5_wrappers(ctx: Ctx, m: pf.Module) -> None:
    gm = pf.load('gear/gear/auth.py')
    w = gm.func('Authenticator.authenticated_users_only.wrap.wrapped')
    g = pf.cfg(w)
    calls = g.find(lambda n: any(pf.dotted(c.func) == 'fun' for c in pf.node_calls(n)))
    ctx.need(len(calls) == 1, 'authenticated_users_only: handler call not found')
    t_missing = g.find(lambda n: n.kind == 'test' and pf.nsrc(n.ast) == 'not userdata')
    t_inactive = g.find(lambda n: n.kind == 'test' and pf.nsrc(n.ast) == "userdata['state'] == 'inactive'")

    def blocks(tests: List[pf.Node]) -> bool:
        if not tests:
            return False
        # the handler call is unreachable when the test is true
        return g.path_avoiding(g.entry, lambda n: n is calls[0], lambda n: False, edge_ok=lambda a, b, lab: not (a in tests and lab == 'F')) is None
    ctx.check(blocks(t_missing), 'R5', 'gear/gear/auth.py::authenticated_users_only::missing user', 'the handler is reachable without userdata (unauthenticated request)', gm.path, w.lineno)
    ctx.check(blocks(t_inactive), 'R5', 'gear/gear/auth.py::authenticated_users_only::inactive user', 'the handler is reachable for an inactive account', gm.path, w.lineno)
    fetch = g.find(lambda n: any(pf.dotted(c.func) == 'self._fetch_userdata' for c in pf.node_calls(n)))
    ctx.check(len(fetch) == 1 and g.dominated_by(calls[0], lambda n: n is fetch[0]) and [pf.nsrc(a) for a in pf.node_calls(calls[0])[0].args] == ['request', 'userdata'], 'R5',
              'gear/gear/auth.py::authenticated_users_only::userdata source', 'the userdata handed to the handler is not the one fetched for this request', gm.path, w.lineno)

    def built_on(fn: pf.FuncDef, deco: str) -> bool:
        return any((pf.dotted(d.func) if isinstance(d, ast.Call) else pf.dotted(d)) == deco for d in fn.decorator_list)

    def only_under(fn: pf.FuncDef, cond_src: str) -> bool:
        g2 = pf.cfg(fn)
        c2 = g2.find(lambda n: any(pf.dotted(c.func) == 'fun' for c in pf.node_calls(n)))
        tests = g2.find(lambda n: n.kind == 'test' and pf.nsrc(n.ast) == cond_src)
        return len(c2) == 1 and bool(tests) and g2.path_avoiding(g2.entry, lambda n: n is c2[0], lambda n: False, edge_ok=lambda a, b, lab: not (a in tests and lab == 'T')) is None
    dv = gm.func('Authenticator.authenticated_developers_only.wrap.wrapped')
    ctx.check(built_on(dv, 'self.authenticated_users_only') and only_under(dv, "userdata['is_developer'] == 1"), 'R5', 'gear/gear/auth.py::authenticated_developers_only',
              'not built on authenticated_users_only or the handler is reachable for a non-developer', gm.path, dv.lineno)
    da = m.func('authenticated_developers_or_auth_only.wrapped')
    ctx.check(built_on(da, 'auth.authenticated_users_only') and only_under(da, "userdata['is_developer'] == 1 or userdata['username'] == 'auth'"), 'R5', f'{FE}::authenticated_developers_or_auth_only',
              'not built on authenticated_users_only or the handler is reachable for a caller that is neither a developer nor the auth service', m.path, da.lineno)
    bp = m.func('billing_project_users_only.wrap.wrapped')
    g3 = pf.cfg(bp)
    c3 = g3.find(lambda n: any(pf.dotted(c.func) == 'fun' for c in pf.node_calls(n)))
    acc = g3.find(lambda n: any(pf.dotted(c.func) == '_user_can_access' for c in pf.node_calls(n)))
    okb = built_on(bp, 'auth.authenticated_users_only') and len(c3) == 1 and len(acc) == 1
    if okb:
        call = [c for c in pf.node_calls(acc[0]) if pf.dotted(c.func) == '_user_can_access'][0]
        args = [pf.nsrc(pf.resolve_expr(bp, a)) for a in call.args]
        var = pf.nsrc(acc[0].ast.targets[0]) if isinstance(acc[0].ast, ast.Assign) else '?'
        tests = g3.find(lambda n: n.kind == 'test' and pf.nsrc(n.ast) == f'not {var}')
        okb = args[1:] == ["int(request.match_info['batch_id'])", "userdata['username']"] and bool(tests) and \
            g3.path_avoiding(g3.entry, lambda n: n is c3[0], lambda n: False, edge_ok=lambda a, b, lab: not (a in tests and lab == 'F')) is None and \
            [pf.nsrc(a) for a in pf.node_calls(c3[0])[0].args][:2] == ['request', 'userdata']
    ctx.check(okb, 'R5', f'{FE}::billing_project_users_only', 'the wrapper does not test membership for (the path\'s batch id, the caller) and raise before calling the handler', m.path, bp.lineno)
    ua = m.func('_user_can_access')
    e = [x for x in sf.embedded_in(m) if x.fn is ua]
    oku = len(e) == 1
    if oku:
        st = e[0].stmts()[0]
        on = [text(c).lower() for j in st.frm.joins for c in sf.conjuncts(j.on)]
        elts = sr.args_tuple(ua, e[0].call.args[1])
        conj = {text(c.left).lower().replace('`', ''): c.right for c in sf.conjuncts(st.where) if c.kind == 'bin' and c.op == '='}
        params = sr.params_in_order(st)
        bind = {p.pos: pf.nsrc(x) for p, x in zip(params, elts or [])}
        oku = sf.table_names(st.frm)[0].lower() == 'batches' and '(batches.billing_project = billing_project_users.billing_project)' in on and \
            bind.get(getattr(conj.get('id'), 'pos', None)) == 'batch_id' and bind.get(getattr(conj.get('billing_project_users.user_cs'), 'pos', None)) == 'user'
        ret = [n for n in ast.walk(ua) if isinstance(n, ast.Return)]
        oku = oku and len(ret) == 1 and pf.nsrc(ret[0].value) == 'record is not None'
    ctx.check(oku, 'R5', f'{FE}::_user_can_access', 'membership is not decided by joining the batch\'s billing project with billing_project_users for (batch id, caller)', m.path, ua.lineno)
    # pass-through decorators call the wrapped function with the same leading arguments
    for name in sorted(NEUTRAL & {f.name for f in m.tree.body if isinstance(f, (ast.FunctionDef, ast.AsyncFunctionDef))}):
        fn = m.func(name)
        inner = [n for n in ast.walk(fn) if isinstance(n, (ast.AsyncFunctionDef, ast.FunctionDef)) and n is not fn]
        okp = bool(inner) and any(isinstance(c, ast.Call) and pf.dotted(c.func) in ('fun', 'f', 'handler') and c.args and pf.nsrc(c.args[0]) == 'request' for i in inner for c in ast.walk(i))
        ctx.check(okp, 'R5', f'{FE}::{name}::pass-through', 'this decorator does not simply call the wrapped handler with the request', m.path, fn.lineno)


def r6_scoped_listings(ctx: Ctx) -> None:
    """Listing queries are scoped by conjuncts such as `jobs.batch_id = %s` / `billing_project_users.user = %s`; every further condition
    is ANDed on.  A condition whose top-level operator is OR (not wrapped in parentheses) would turn the scope into one alternative."""
    from engines import sqlclosed as sc
    qm = pf.load('batch/batch/front_end/query/query.py')
    method_closed: Dict[str, bool] = {}
    for cls in qm.classes():
        for fn in cls.body:
            if isinstance(fn, ast.FunctionDef) and fn.name == 'query' and not any(isinstance(x, ast.Raise) and len(fn.body) == 1 for x in fn.body):
                try:
                    method_closed[cls.name] = sc.method_returns_closed(qm, fn)
                except AnalysisError as e:
                    raise AnalysisError(f'query.py::{cls.name}.query: {e}')
    ctx.need(len(method_closed) >= 20, f'only {len(method_closed)} Query.query methods analysed')
    ctx.unit('query_term_classes', len(method_closed))
    for rel, funcs in (('batch/batch/front_end/query/query_v1.py', ['parse_list_batches_query_v1', 'parse_job_group_jobs_query_v1', 'parse_list_job_groups_query_v1']),
                       ('batch/batch/front_end/query/query_v2.py', ['parse_list_batches_query_v2', 'parse_job_group_jobs_query_v2'])):
        m = pf.load(rel)
        for name in funcs:
            if not m.has_func(name):
                continue
            fn = m.func(name)
            c = sc.Closedness(m, method_closed)
            sinks: List = []
            c.run(fn.body, {}, sinks, 'where_conditions')
            joins = [n for n in ast.walk(fn) if isinstance(n, ast.Call) and isinstance(n.func, ast.Attribute) and n.func.attr == 'join' and n.args and pf.nsrc(n.args[0]) == 'where_conditions']
            if not sinks and not joins:
                continue
            ctx.need(joins and all(pf.const_str(j.func.value).strip().upper() == 'AND' for j in joins), f'{rel}::{name}: where_conditions are not joined with AND')
            for closed, node in sinks:
                ctx.check(closed, 'R6', f'{rel}::{name}::AND-term `{pf.nsrc(node)[:60]}`', 'this condition is ANDed into the scoped WHERE clause without parentheses although its top-level operator may be OR '
                          '(AND binds tighter): the batch / billing-project restriction becomes one alternative and rows of other batches are returned', m.path, node.lineno)
            scope = any('batch_id = %s' in pf.nsrc(n) or 'billing_project_users' in pf.nsrc(n) for _, n in sinks)
            ctx.check(scope, 'R6', f'{rel}::{name}::scope conjunct', 'the listing has no conjunct restricting it to the requested batch / the caller\'s billing projects', m.path, fn.lineno)


def _example(w: str) -> str:
    return (w if w.endswith('/') else w + '/') + '../../../../../<other batch>/jobs/<job>/log/main' if '/' in w else w


def r7_path_components(ctx: Ctx, m: pf.Module, rts) -> None:
    """String-valued path components of the {batch_id} routes (see engines/c14facts.PathFlow)."""
    flow = cf.PathFlow(m)
    roots = [fn for fn, regs, _ in rts if any('{batch_id}' in p for _, p in regs)]
    keys = set()
    for _, regs, _ in rts:
        for _, p in regs:
            if '{batch_id}' in p:
                keys |= {seg[1:-1] for seg in p.split('/') if seg.startswith('{') and seg.endswith('}')}
    # a component constrained by the route pattern itself (`{name:regex}`): aiohttp matches the regex against the still
    # percent-encoded segment and decodes afterwards, so the regex bounds the decoded value only when it admits no '%'
    from engines import relang as R
    pct = R.lang(R.seq(R.star(R.anychar()), R.lit('%'), R.star(R.anychar())), "contains '%'")
    for k in sorted(keys):
        langs = []
        for (mt, p), regs in ROUTE_REGEX.items():
            if '{batch_id}' in p and ('{' + k + '}') in p:
                try:
                    L = R.from_regex(regs[k], 0, 'fullmatch') if k in regs else None
                except AnalysisError:
                    L = None
                if L is not None and R.shortest(L & pct) is not None:
                    L = None
                langs.append(L)
        if langs and all(L is not None for L in langs):
            u = langs[0]
            for L in langs[1:]:
                u = u | L
            flow.key_lang[k] = u
    fns = flow.reachable(roots, 5)
    ctx.unit('functions_reachable_from_batch_routes', len(fns))
    seen = set()
    for f in fns:
        for s in flow.sources(f):
            qual = m.qualname(f)
            if s['form'] == 'returned':
                continue  # accounted for where the helper's result is used
            if s['form'] == 'int':
                cons = f"{FE}::{qual}::int(path component {s['key']!r})"
                if cons not in seen:
                    seen.add(cons)
                    ctx.ok('R7', cons, 'converted by int()')
                continue
            ctx.need(s['key'] != '?', f'{FE}::{qual}: path component read with a computed key `{pf.nsrc(s["node"])}`')
            raw = flow.analyse_source(f, s)
            cons = f"{FE}::{qual}::path component {s['key']!r}"
            if not raw.problems:
                if cons not in seen:
                    seen.add(cons)
                    ctx.ok('R7', cons, {'confined by': raw.guards_seen})
                continue
            for p in raw.problems:
                c2 = f"{cons} -> {p['fn']}::{p['sink']}"
                if c2 in seen:
                    continue
                seen.add(c2)
                passed = ('the conditions it has passed (' + '; '.join(f'`{x}`' for x in raw.guards_seen) + ') admit') if raw.guards_seen else 'no condition restricts it: it may be'
                ctx.bad('R7', c2, f"the path component {{{s['key']}}} ({raw.origin}, {qual}) {p['what']} in {p['fn']} (`{p['sink']}(... {p['template'][:110]} ...)`, line {p['line']}) although {passed} "
                        f"a value containing '/', e.g. {p['witness']!r}: the route's membership test covers only the path's batch id, so a request for a batch the caller belongs to with "
                        f"{{{s['key']}}} = {_example(p['witness'])!r} (sent percent-encoded) re-addresses the lookup to a batch of a billing project the caller is not a member of",
                        m.path, p['line'])
    ctx.need(keys >= {'batch_id', 'job_id', 'container'}, f'path components of the batch routes not found ({sorted(keys)})')


MEMBERSHIP_MODULES = ['batch/batch/front_end/query/query_v1.py', 'batch/batch/front_end/query/query_v2.py', 'batch/batch/utils.py']
MEMBERSHIP_KEY = {'billing_project', 'user', 'user_cs'}


def r8_membership(ctx: Ctx, m: pf.Module, rts) -> None:
    prog = sf.load_program()
    mem = cf.Membership(prog)
    flow = cf.PathFlow(m)
    removers = [(fn, regs) for fn, regs, _ in rts if any(p.endswith('/users/{user}/remove') for _, p in regs)]
    adders = [(fn, regs) for fn, regs, _ in rts if any(p.endswith('/users/add') or p.endswith('/users/{user}/add') for _, p in regs)]
    ctx.need(len(removers) >= 2, f'only {len(removers)} `.../users/{{user}}/remove` routes found (UI and API expected)')
    admin_fns = flow.reachable([fn for fn, _ in removers + adders], 5)
    admin_ids = {id(f) for f in admin_fns} - {id(fn) for fn, _ in removers + adders}
    # ---- readers
    rels = list(MEMBERSHIP_MODULES)
    if ctx.tier == 'thorough':
        for rel in pf.walk_py(['batch/batch']):
            if rel != FE and rel not in rels and cf.TABLE in pf.load(rel).src:
                rels.append(rel)
    readers: List[cf.Reader] = []
    for rel in [FE] + rels:
        mm = m if rel == FE else pf.load(rel)
        for r in mem.readers_in(mm):
            if mm is m and r.fn is not None and id(r.fn) in admin_ids:
                continue  # the look-before-write of the add / remove transaction itself
            readers.append(r)
    ctx.unit('membership_readers', len(readers))
    ctx.need(len(readers) >= 7, f'only {len(readers)} readers of {cf.TABLE} found (7 confirmed by hand)')
    ctx.need(any(r.module is m and r.qual == '_user_can_access' for r in readers), f'_user_can_access no longer reads {cf.TABLE}')
    # ---- revocation
    soft: List[Tuple[str, dict, Dict[str, object]]] = []
    for fn, regs in removers:
        fns = flow.reachable([fn], 5)
        route = ' / '.join(f'{mt} {p}' for mt, p in regs)
        cons = f'{FE}::{fn.name}::revokes membership'
        ws = [w for w in mem.writes_in(m, fns) if w['verb'] in ('delete', 'update') or (w['verb'] == 'insert' and w['st'].on_dup)]
        if not ws:
            ctx.bad('R8', cons, f'{route} does not reach a DELETE or UPDATE of {cf.TABLE}: the user it names stays a member and keeps passing billing_project_users_only', m.path, fn.lineno)
            continue
        okr = True
        for w in ws:
            e = w['emb']
            if w['verb'] != 'insert':
                kb = mem.key_binding(w)
                for role, want in (('user', 'user'), ('project', 'billing_project')):
                    got = cf.trace_to_path_component(flow, fns, e.fn, kb[role]) if kb[role] is not None else set()
                    # decided only when the bound value traces back to path components: anything else (a value re-read from the row
                    # that was just locked, a missing conjunct on a single-project statement ...) is left alone
                    if got and not any(x.startswith('?') for x in got) and got != {want}:
                        okr = False
                        ctx.bad('R8', f'{cons}::{role} key', f'{route}: the {w["verb"].upper()} of {cf.TABLE} in {e.qual} (line {e.lineno}) selects the row by {role} = path component '
                                f'{sorted(got)} instead of {{{want}}}: the membership of the named user in the named project is not the one that is revoked, so the user stays a member '
                                'and keeps passing billing_project_users_only', m.path, e.lineno)
            if w['verb'] != 'delete':
                soft.append((f'{e.qual} (line {e.lineno})', w, mem.set_state(w['st'])))
        if okr:
            ctx.ok('R8', cons, [f"{w['verb']} in {w['emb'].qual}" for w in ws])
    # ---- every reader rejects a revoked row; no two readers disagree about a row state the front end can write
    states: List[Tuple[str, Dict[str, object]]] = []
    for w in mem.writes_in(m, [f for _, f in m.functions()]):
        st = w['st']
        state: Dict[str, object] = {}
        if w['verb'] == 'update' or (w['verb'] == 'insert' and st.on_dup):
            state = dict(mem.set_state(st))
        elif w['verb'] == 'insert' and st.cols and st.rows and len(st.rows) == 1 and len(st.rows[0]) == len(st.cols):
            for c, v in zip(st.cols, st.rows[0]):
                if getattr(v, 'kind', None) == 'lit':
                    state[cf._lc(c if isinstance(c, str) else c.parts[-1])] = 1 if v.value is True else 0 if v.value is False else v.value
        state = {c: v for c, v in state.items() if c not in MEMBERSHIP_KEY and v is not cf.UNKNOWN}
        if state and not any(state == s0 for _, s0 in states):
            states.append((f'{w["emb"].qual} (line {w["emb"].lineno})', state))
    cons_seen: Dict[str, int] = {}
    for r in readers:
        cons = f'{r.construct}::membership filter'
        cons_seen[cons] = cons_seen.get(cons, 0) + 1
        if cons_seen[cons] > 1:
            cons += f' #{cons_seen[cons]}'
        bad = False
        for where, w, state in soft:
            verdict, looked = mem.may_admit(r, state)
            if verdict == 'undecided':
                raise AnalysisError(f'{r.construct}: cannot decide whether `{"; ".join(looked)}` rejects a membership row after `{text(w["st"])[:80]}` (non-literal value)')
            if verdict == 'admits':
                bad = True
                st_txt = ', '.join(f'{k} = {v if v is not cf.UNKNOWN else "<value>"}' for k, v in state.items())
                ctx.bad('R8', cons, f'removing a user from a billing project keeps the {cf.TABLE} row and only sets {st_txt} ({where}), but the query in {r.qual} (line {r.line}) still '
                        f'matches such a row' + (f' (its conditions on those columns, {looked}, can be true for it)' if looked else ' (it never looks at those columns)') +
                        ': history add U to project P; remove U from P; U requests a batch of P -> ' +
                        ('billing_project_users_only admits U (read / cancel / delete)' if r.qual == '_user_can_access' else 'U is still treated as a member here'), r.module.path, r.line)
                break
        if not bad:
            for where, state in states:
                if mem.may_admit(r, state)[0] != 'admits':
                    continue
                others = sorted({o.qual for o in readers if o is not r and mem.may_admit(o, state)[0] == 'rejects'})
                if others:
                    bad = True
                    st_txt = ', '.join(f'{k} = {v}' for k, v in state.items())
                    ctx.bad('R8', cons, f'a {cf.TABLE} row with {st_txt} (written by {where}) is not a membership for {others} but still matches the query in {r.qual} (line {r.line}), which '
                            'never excludes it: the two sides disagree about who belongs to the billing project, and this one is the more permissive', r.module.path, r.line)
                    break
        if not bad:
            tested = sorted({b for c in r.conjuncts for x in sf.cols_in(c) for b in [mem.bpu_col(x, r.scope_tables)] if b is not None} - MEMBERSHIP_KEY)
            ctx.ok('R8', cons, {'state columns tested': tested, 'revocations that keep the row': [x[0] for x in soft], 'row states written': [s0 for _, s0 in states]})


def r9_batch_scope(ctx: Ctx, m: pf.Module, rts) -> None:
    """Per-query batch filters (engines/c14facts.BatchScope): the wrappers decide for the path's batch id; every statement the handler
    then runs over a batch-keyed table must be confined to that batch."""
    prog = sf.load_program()
    bs = cf.BatchScope(prog)
    flow = cf.PathFlow(m)
    roots = []
    handler_params: Dict[int, Dict[str, str]] = {}
    for fn, regs, decos in rts:
        if any('{batch_id}' in p for _, p in regs):
            roots.append(fn)
            if level_of(decos)[0] == 'member':
                ps = [a.arg for a in fn.args.posonlyargs + fn.args.args]
                if len(ps) >= 3:
                    handler_params[id(fn)] = {ps[2]: 'batch_id'}
    fns = flow.reachable(roots, 5)
    ids = {id(f) for f in fns}
    memo: Dict[Tuple[int, str], set] = {}
    undecided = 0
    seen = set()
    for e in sf.embedded_in(m):
        if e.fn is None or id(e.fn) not in ids or e.sql_text is None:
            continue  # SQL built by the query parsers is returned as a string: its scope conjunct is R6's business
        sts = e.stmts()
        if e.parse_error is not None:
            raise AnalysisError(f'{FE}::{e.qual}: statement (line {e.lineno}) does not parse: {e.parse_error}')
        for st in sts:
            for sc in bs.scopes(st):
                r = bs.analyse(sc)
                if not r['tables']:
                    continue
                if r['holes']:
                    frags: List[N] = []
                    try:
                        for c in sf.conjuncts(sc.where):
                            if c.kind == 'hole':
                                import re as _re
                                ix = _re.search(r'(\d+)', c.text)
                                if ix is None or int(ix.group(1)) >= len(e.holes):
                                    raise AnalysisError('hole')
                                h = e.holes[int(ix.group(1))]
                                if isinstance(h, ast.Call) and isinstance(h.func, ast.Attribute) and h.func.attr == 'join':
                                    frags += cf.where_fragments(m, e.fn, h, 'batch_id')
                        if getattr(sc, 'clause_holes', None):
                            raise AnalysisError('clause hole')
                    except AnalysisError:
                        undecided += 1
                        continue
                    r = bs.analyse(sc, frags)
                cons = f'{FE}::{e.qual}::{sc.kind.upper()} {" ".join(sorted(set(r["tables"].values())))} :: {text(sc.where)[:70] if getattr(sc, "where", None) is not None else ""}'
                if cons in seen:
                    continue
                seen.add(cons)
                if r['unscoped']:
                    tabs = ', '.join(f'{r["tables"][a]}.{bs.keycol(r["tables"][a])}' for a in r['unscoped'])
                    ctx.bad('R9', cons, f'the {sc.kind.upper()} in {e.qual} (line {e.lineno}), reached from a {{batch_id}} route, reads/writes {tabs} without tying it to the batch of the request '
                            '(no `= %s` conjunct in WHERE or in the ON clause that brings the table in, and no equality with the batch key of a table that has one; a condition in the ON clause of an '
                            'outer join does not restrict the other side): rows of batches the membership / owner test did not cover are matched, e.g. the job with the same job_id in a batch of '
                            'another billing project', m.path, e.lineno)
                    continue
                # the bound value is the path's batch id (decided only when it traces back to path components)
                wrong = None
                params = sr.params_in_order(st)
                elts = sr.args_tuple(e.fn, e.call.args[1] if len(e.call.args) > 1 else None)
                if elts is not None and len(elts) == len(params):
                    bind = {p.pos: x for p, x in zip(params, elts)}
                    for alias, pn in r['params']:
                        got = cf.trace_to_path_component(flow, fns, e.fn, bind[pn.pos], 6, handler_params, memo)
                        if got and not any(x.startswith('?') for x in got) and 'batch_id' not in got:
                            wrong = (alias, pf.nsrc(bind[pn.pos]), sorted(got))
                if wrong is not None:
                    ctx.bad('R9', cons, f'the {sc.kind.upper()} in {e.qual} (line {e.lineno}) binds {r["tables"][wrong[0]]}.{bs.keycol(r["tables"][wrong[0]])} to `{wrong[1]}`, which is the path '
                            f'component {wrong[2]}, not the batch id the membership / owner test was made for', m.path, e.lineno)
                else:
                    ctx.ok('R9', cons, {'tables': r['tables']})
    ctx.unit('sql_scopes_not_decided', undecided)


def run(ctx: Ctx) -> None:
    ctx.explanation = 'Classification of all routes by resolved decorator chain against the statement\'s partition of endpoints; inter-procedural owner-filter dominance for owner-only mutations.'
    ctx.rule('R1', 'unauthenticated handlers are exactly the listed public endpoints', 8)
    ctx.rule('R2', 'every {batch_id} route is membership-wrapped or authenticated + owner-protected; every other route is at least authenticated', 45)
    ctx.rule('R3', 'owner-only mutations: every reachable write is dominated by an owner filter for (caller, path batch id)', 18)
    ctx.rule('R4', 'billing project / limit administration requires developer or auth service', 13)
    ctx.rule('R5', 'the authenticating wrappers block before calling the handler; pass-through decorators pass through', 9)
    ctx.rule('R6', 'listing queries: every condition ANDed onto the batch / billing-project scope is closed under AND (parenthesised or no top-level OR)', 22)
    ctx.rule('R7', "sub-resource selectors of the {batch_id} routes: every path component is int()-converted or confined to strings without '/' wherever it selects what is fetched", 23)
    ctx.rule('R8', 'billing-project membership has one meaning: removal revokes the row every reader counts (or every reader rejects the retained row)', 9)
    ctx.rule('R9', 'per-query batch filters: every statement a {batch_id} route runs over a batch-keyed table is tied to the request batch (bound parameter / join on the batch key)', 33)
    m = pf.load(FE)
    rts = routes_of(m)
    ctx.unit('routes', sum(len(r) for _, r, _ in rts))
    ctx.need(sum(len(r) for _, r, _ in rts) >= 66, f'only {sum(len(r) for _, r, _ in rts)} route registrations found (66 confirmed by hand)')
    oa = OwnerAnalysis(ctx, m)
    for fn, regs, decos in rts:
        lv, unknown = level_of(decos)
        ctx.need(not unknown, f'{FE}::{fn.name}: decorator(s) {unknown} not classified')
        for method, path in regs:
            cons = f'{FE}::{fn.name}::{method} {path}'
            if lv is None:
                ctx.check(path in PUBLIC, 'R1', cons, f'{method} {path} is served without authentication and is not one of the public endpoints {sorted(PUBLIC)}', m.path, fn.lineno)
                continue
            if path in PUBLIC:
                ctx.ok('R1', cons, f'public path, level {lv}')
                continue
            admin = path.startswith(ADMIN_PREFIXES) and method in ('POST', 'PATCH', 'PUT', 'DELETE')
            if admin:
                ctx.check(lv in ('developer', 'dev-or-auth'), 'R4', cons, f'{method} {path} administers billing projects but only requires level `{lv}`', m.path, fn.lineno)
                continue
            if '{batch_id}' in path:
                if lv == 'member':
                    ctx.ok('R2', cons, 'billing-project members only')
                else:
                    ok, why = oa.protected(fn)
                    ctx.check(ok, 'R3', cons, f'{method} {path} is open to any authenticated user and reaches a database write without first establishing that the caller owns the batch: {why}',
                              m.path, fn.lineno)
                    # not membership-wrapped: the only callers the statement admits here are owners, so a normal response must
                    # not be reachable without the owner filter either (a read-only handler has no write for R3 to look at)
                    ctx.check(oa.always_filters(fn, 4), 'R2', cons, f'{method} {path} is open to any authenticated user (level `{lv}`, not billing_project_users_only) and some path through '
                              f'{fn.name} reaches a normal response without an owner filter (SELECT ... WHERE user = <caller> AND id = <path batch id>, empty -> raise): a user who neither owns '
                              'the batch nor belongs to its billing project is served', m.path, fn.lineno)
            else:
                ctx.ok('R2', cons, f'level {lv}')
    check_forwarding(ctx, m)
    r5_wrappers(ctx, m)
    r6_scoped_listings(ctx)
    r7_path_components(ctx, m, rts)
    r8_membership(ctx, m, rts)
    r9_batch_scope(ctx, m, rts)
