"""C15 Stored job specs and region sets round-trip.

Decides (from the syntax trees of batch/batch/batch_format_version.py and batch/batch/utils.py, nothing is run):
  R1  positional agreement, per format version 1..current (the version guards of writer and readers are *evaluated* for every
      version): when `db_spec` returns the spec unchanged each `get_spec_*` reader reads the like-named key of the spec; when it
      returns the compact list each reader indexes exactly the position at which the writer put the like-named field, inside the list
  R2  inner records agree in both directions: secret [namespace, name, mount_path, mount_in_copy], service account
      [namespace, name], machine spec [machine_type, preemptible, storage_gib]: writer position i <- key k  iff  reader key k <- position i
  R3  no field is lost for any version: a reader may answer a constant (None) without looking at the stored form only if the
      writer has no such field to store for that version
  R4  region bit set: the writer ORs `1 << s(idx)` and the reader tests `(bits >> s'(idx)) & 1` with the same linear shift s = s'
      of the same mapping value, the writer asserts a bound that keeps the highest bit <= 62 (signed BIGINT) and the lowest >= 0 for
      region ids >= 1, the reader returns the mapping *keys* whose bit is set
Does not decide: value coercions (int(bool)/bool(int)) beyond their positions; `[]` vs `None` for an empty secrets list.
"""
from __future__ import annotations

import ast
from typing import Dict, List, Optional, Sequence, Tuple

from engines import absdom, pyfacts as pf
from engines.common import AnalysisError, Ctx, short

META = dict(
    category='other',
    text='Writer/reader table agreement decided by abstractly executing db_spec and every get_spec_* reader for each format version 1..current '
         '(version guards evaluated, data-dependent tests enumerated) and comparing position <-> field tables, inner record key <-> index tables in '
         'both directions, and the linear forms of the region bit shifts. Level `other`: value coercions and JSON encoding are outside the tables.',
    note='Trusted: CPython ast; engines/absdom.walk_block. Assumes region ids are >= 1 (AUTO_INCREMENT) and regions_bits_rep is a signed BIGINT.',
    technique='static analysis: writer/reader table agreement + truth table over version guards + linear normal form of shift amounts',
    design_ref='DESIGN.md §3 C15',
)

F = 'batch/batch/batch_format_version.py'
FU = 'batch/batch/utils.py'
FG = 'batch/batch/globals.py'
CLS = 'BatchFormatVersion'
# reader -> (field tag, key of the full spec it corresponds to)
READERS = {
    'get_spec_secrets': 'secrets',
    'get_spec_service_account': 'service_account',
    'get_spec_has_input_files': 'has:input_files',
    'get_spec_has_output_files': 'has:output_files',
    'get_spec_machine_spec': 'machine_spec',
}
FV = 'self.format_version'


def _version_atom(a: ast.AST, v: int) -> Optional[bool]:
    if isinstance(a, ast.Compare) and len(a.ops) == 1:
        l, r = a.left, a.comparators[0]
        op = type(a.ops[0])
        if pf.nsrc(l) == FV and isinstance(r, ast.Constant) and isinstance(r.value, int):
            x, y = v, r.value
        elif pf.nsrc(r) == FV and isinstance(l, ast.Constant) and isinstance(l.value, int):
            x, y = l.value, v
        else:
            return None
        table = {ast.Eq: x == y, ast.NotEq: x != y, ast.Lt: x < y, ast.LtE: x <= y, ast.Gt: x > y, ast.GtE: x >= y}
        if op in table:
            return table[op]
    return None


def _strip(e: ast.AST) -> ast.AST:
    """Drop int()/bool() coercions."""
    while isinstance(e, ast.Call) and isinstance(e.func, ast.Name) and e.func.id in ('int', 'bool') and len(e.args) == 1:
        e = e.args[0]
    return e


def _spec_get_key(e: ast.AST, spec: str) -> Optional[str]:
    if isinstance(e, ast.Call) and isinstance(e.func, ast.Attribute) and e.func.attr == 'get' and isinstance(e.func.value, ast.Name) and e.func.value.id == spec and e.args:
        return pf.const_str(e.args[0])
    if isinstance(e, ast.Subscript) and isinstance(e.value, ast.Name) and e.value.id == spec:
        return pf.const_str(e.slice)
    return None


def _has_flag_key(e: ast.AST, spec: str) -> Optional[str]:
    """len(spec.get('k', [])) > 0  ->  k"""
    e = _strip(e)
    if isinstance(e, ast.Compare) and len(e.ops) == 1 and isinstance(e.ops[0], (ast.Gt, ast.NotEq)) and isinstance(e.comparators[0], ast.Constant) and e.comparators[0].value == 0 \
            and isinstance(e.left, ast.Call) and pf.dotted(e.left.func) == 'len' and len(e.left.args) == 1:
        return _spec_get_key(e.left.args[0], spec)
    return None


class Path:
    def __init__(self, executed: List[ast.stmt], outcome: absdom.Outcome, fv: Dict[str, bool]):
        self.executed = executed
        self.outcome = outcome
        self.fv = fv
        self.env: Dict[str, ast.AST] = {}
        for s in executed:
            if isinstance(s, ast.Assign) and len(s.targets) == 1 and isinstance(s.targets[0], ast.Name):
                self.env[s.targets[0].id] = s.value

    def origin(self, name: str, depth: int = 4) -> ast.AST:
        e: ast.AST = ast.Name(id=name, ctx=ast.Load())
        while isinstance(e, ast.Name) and e.id in self.env and depth > 0:
            e = self.env[e.id]
            depth -= 1
        return e


def _paths(ctx: Ctx, fn: pf.FuncDef, v: int) -> List[Path]:
    atoms = absdom.collect_test_atoms(fn.body)
    free = [absdom.atom_key(a) for a in atoms if _version_atom(a, v) is None]
    ctx.need(len(free) <= 5, f'{fn.name}: too many data-dependent tests {free}')
    out: List[Path] = []
    seen = set()
    for fv in absdom.valuations(free):
        executed: List[ast.stmt] = []

        def val(a: ast.AST) -> bool:
            x = _version_atom(a, v)
            return x if x is not None else fv[absdom.atom_key(a)]
        o = absdom.walk_block(fn.body, val, executed)
        sig = tuple(id(s) for s in executed)
        if sig in seen:
            continue
        seen.add(sig)
        out.append(Path(executed, o, fv))
    return out


def _writer_table(ctx: Ctx, fn: pf.FuncDef, spec: str, v: int) -> Tuple[str, List[str], Dict[str, List[ast.AST]]]:
    """('identity', [], {}) or ('list', tags by position, tag -> the defining expressions seen over all data paths)."""
    kind = None
    tags: Optional[List[str]] = None
    defs: Dict[str, List[ast.AST]] = {}
    for p in _paths(ctx, fn, v):
        ctx.need(p.outcome.kind == 'return' and p.outcome.node.value is not None, f'db_spec(v={v}): path does not return a value')  # type: ignore[union-attr]
        rv = p.outcome.node.value  # type: ignore[union-attr]
        if isinstance(rv, ast.Name) and rv.id == spec:
            ctx.need(kind in (None, 'identity'), f'db_spec(v={v}): returns both the spec and a list')
            kind = 'identity'
            continue
        ctx.need(isinstance(rv, ast.List), f'db_spec(v={v}): returns `{short(pf.nsrc(rv), 50)}` (neither the spec nor a list literal)')
        ctx.need(kind in (None, 'list'), f'db_spec(v={v}): returns both the spec and a list')
        kind = 'list'
        t = []
        for e in rv.elts:  # type: ignore[union-attr]
            k = _has_flag_key(e, spec)
            if k is not None:
                t.append(f'has:{k}')
            elif isinstance(e, ast.Name):
                t.append(e.id)
                defs.setdefault(e.id, []).append(p.origin(e.id))
            else:
                raise AnalysisError(f'db_spec(v={v}): list element `{short(pf.nsrc(e), 50)}` is not a recognised field')
        ctx.need(tags in (None, t), f'db_spec(v={v}): list layout depends on the data ({tags} vs {t})')
        tags = t
    ctx.need(kind is not None, f'db_spec(v={v}): no path')
    return kind, tags or [], defs  # type: ignore[return-value]


def _reader_access(ctx: Ctx, fn: pf.FuncDef, spec: str, v: int) -> Tuple[str, object, List[ast.AST]]:
    """How the reader gets at its field for version v:
       ('index', i, [returned exprs]) | ('key', k, …) | ('flag', k, …) | ('const', repr, …)"""
    acc = None
    rets: List[ast.AST] = []
    for p in _paths(ctx, fn, v):
        ctx.need(p.outcome.kind == 'return', f'{fn.name}(v={v}): path does not return')
        rv = p.outcome.node.value  # type: ignore[union-attr]
        rets.append(rv)
        found = None
        nodes = [n for s in p.executed for n in ast.walk(s)]
        for n in nodes:
            if isinstance(n, ast.Subscript) and isinstance(n.value, ast.Name) and n.value.id == spec and isinstance(n.slice, ast.Constant) and isinstance(n.slice.value, int):
                found = ('index', n.slice.value)
        if found is None and rv is not None:
            k = _has_flag_key(rv, spec)
            if k is not None:
                found = ('flag', k)
            else:
                for n in nodes:
                    kk = _spec_get_key(n, spec)
                    if kk is not None:
                        found = ('key', kk)
        if found is None:
            ctx.need(rv is None or isinstance(rv, ast.Constant), f'{fn.name}(v={v}): returns `{short(pf.nsrc(rv), 40)}` without reading the stored spec')
            found = ('const', repr(rv.value) if rv is not None else 'None')
        ctx.need(acc in (None, found), f'{fn.name}(v={v}): access depends on the data ({acc} vs {found})')
        acc = found
    ctx.need(acc is not None, f'{fn.name}(v={v}): no path')
    return acc[0], acc[1], rets  # type: ignore[index]


def _ranges(vs: Sequence[int]) -> str:
    vs = sorted(vs)
    out = []
    i = 0
    while i < len(vs):
        j = i
        while j + 1 < len(vs) and vs[j + 1] == vs[j] + 1:
            j += 1
        out.append(f'{vs[i]}..{vs[j]}' if j > i else f'{vs[i]}')
        i = j + 1
    return ','.join(out)


def _check_positions(ctx: Ctx, m: pf.Module, current: int) -> None:
    w = m.func(f'{CLS}.db_spec')
    wp = [a.arg for a in w.args.args]
    ctx.need(len(wp) == 2, f'db_spec parameters {wp}')
    results: Dict[Tuple[str, str, str], List[int]] = {}
    lost_msgs: Dict[str, Dict[str, List[int]]] = {}
    lines: Dict[str, int] = {}
    for v in range(1, current + 1):
        kind, tags, _ = _writer_table(ctx, w, wp[1], v)
        for rname, tag in READERS.items():
            r = m.func(f'{CLS}.{rname}')
            rp = [a.arg for a in r.args.args]
            ctx.need(len(rp) == 2, f'{rname} parameters {rp}')
            lines[rname] = r.lineno
            how, what, _ = _reader_access(ctx, r, rp[1], v)
            verdict = 'ok'
            msg = ''
            if how == 'const':
                carried = (kind == 'list' and tag in tags) or kind == 'identity'
                if kind == 'list' and tag not in tags:
                    verdict, msg = 'lost', (f'db_spec stores {tags} (no {tag}) and {rname} answers {what} without looking: the {tag} of a job in a batch of this format '
                                            'version is not recovered from the stored form')
                else:
                    verdict, msg = 'lost', (f'{rname} answers {what} without reading the stored spec although db_spec stores '
                                            f'{"the full spec" if kind == "identity" else tags}: the {tag} is not recovered')
                    _ = carried
            elif kind == 'identity':
                want = ('flag', tag[4:]) if tag.startswith('has:') else ('key', tag)
                if (how, what) != want:
                    verdict = 'mismatch'
                    msg = (f'db_spec stores the full spec but {rname} reads it by {how} {what!r} (expected {want[0]} {want[1]!r}): '
                           + ('a dict is indexed by position (KeyError)' if how == 'index' else 'another field is returned'))
            else:
                if how != 'index':
                    verdict, msg = 'mismatch', f'db_spec stores the list {tags} but {rname} reads the spec by {how} {what!r} (a list has no .get / string keys)'
                elif not (0 <= int(what) < len(tags)):  # type: ignore[arg-type]
                    verdict, msg = 'mismatch', f'{rname} reads spec[{what}] but db_spec stores only {len(tags)} entries {tags}: IndexError when the job is scheduled'
                elif tags[int(what)] != tag:  # type: ignore[arg-type]
                    verdict, msg = 'mismatch', (f'{rname} reads spec[{what}], where db_spec puts `{tags[int(what)]}`; `{tag}` is at position '  # type: ignore[arg-type]
                                                f'{tags.index(tag) if tag in tags else "-"}: the wrong field is returned')
            results.setdefault((rname, verdict, msg if verdict != 'lost' else ''), []).append(v)
            if verdict == 'lost':
                lost_msgs.setdefault(rname, {}).setdefault(msg, []).append(v)
    for (rname, verdict, msg), vs in results.items():
        rule = 'R3' if verdict == 'lost' else 'R1'
        cons = f'{F}::{CLS}.{rname}::format_version {_ranges(vs)}'
        if verdict == 'ok':
            ctx.ok('R1', cons, {'versions': _ranges(vs)})
        elif verdict == 'lost':
            full = '; '.join(f'v{_ranges(x)}: {mm}' for mm, x in lost_msgs[rname].items())
            ctx.bad(rule, cons, f'for format version(s) {_ranges(vs)} the field is lost - {full}', m.path, lines[rname])
        else:
            ctx.bad(rule, cons, f'for format version(s) {_ranges(vs)}: {msg}', m.path, lines[rname])
    # R3 instances for the fields that are carried (positive side)
    for rname in READERS:
        lost = [vs for (rn, verdict, _), vs in results.items() if rn == rname and verdict == 'lost']
        if not lost:
            ctx.ok('R3', f'{F}::{CLS}.{rname}::carried for every version', {'versions': f'1..{current}'})
    ctx.unit('format_versions', current)
    ctx.unit('reader_version_pairs', current * len(READERS))


# --------------------------------------------------------------------------------------
# R2: inner records
# --------------------------------------------------------------------------------------


def _writer_record(ctx: Ctx, fn: pf.FuncDef, lst: ast.List, src_vars: Sequence[str]) -> Dict[int, str]:
    out: Dict[int, str] = {}
    for i, e in enumerate(lst.elts):
        e = _strip(e)
        e = _strip(pf.resolve_expr(fn, e))
        key = None
        for sv in src_vars:
            key = key or _spec_get_key(e, sv)
        ctx.need(key is not None, f'db_spec: record element `{short(pf.nsrc(e), 50)}` is not <source>[key]')
        out[i] = key  # type: ignore[assignment]
    return out


def _reader_record(ctx: Ctx, d: ast.Dict, var: str, who: str) -> Dict[str, int]:
    out: Dict[str, int] = {}
    for k, v in zip(d.keys, d.values):
        ks = pf.const_str(k) if k is not None else None
        v = _strip(v)
        ok = isinstance(v, ast.Subscript) and isinstance(v.value, ast.Name) and v.value.id == var and isinstance(v.slice, ast.Constant) and isinstance(v.slice.value, int)
        ctx.need(ks is not None and ok, f'{who}: entry `{short(pf.nsrc(k) if k else "**", 20)}: {short(pf.nsrc(v), 30)}` is not key: {var}[i]')
        out[ks] = v.slice.value  # type: ignore[index,union-attr]
    return out


def _find_record_list(e: ast.AST) -> Tuple[Optional[ast.List], Optional[str]]:
    """`[a, b, c]` or `[[a, b] for x in xs]` -> (inner list, comprehension variable)"""
    if isinstance(e, ast.List):
        return e, None
    if isinstance(e, ast.ListComp) and isinstance(e.elt, ast.List) and len(e.generators) == 1 and isinstance(e.generators[0].target, ast.Name):
        return e.elt, e.generators[0].target.id
    return None, None


def _find_record_dict(e: ast.AST) -> Tuple[Optional[ast.Dict], Optional[str]]:
    if isinstance(e, ast.Dict):
        return e, None
    if isinstance(e, ast.ListComp) and isinstance(e.elt, ast.Dict) and len(e.generators) == 1 and isinstance(e.generators[0].target, ast.Name):
        return e.elt, e.generators[0].target.id
    return None, None


def _check_records(ctx: Ctx, m: pf.Module, current: int) -> None:
    w = m.func(f'{CLS}.db_spec')
    spec = [a.arg for a in w.args.args][1]
    _, tags, defs = _writer_table(ctx, w, spec, current)
    for rname, tag in READERS.items():
        if tag.startswith('has:'):
            continue
        r = m.func(f'{CLS}.{rname}')
        rspec = [a.arg for a in r.args.args][1]
        # writer side: the non-trivial definition of the variable (list / list comprehension)
        cands = [d for d in defs.get(tag, []) if _find_record_list(d)[0] is not None]
        if not cands:
            # recognised lossy shapes: records funnelled through a dict / set keyed by some of their fields, or a filtered comprehension
            lossy = None
            for nme, dl in list(defs.items()) + [(k_, [v_]) for k_, v_ in {n.targets[0].id: n.value for n in ast.walk(w) if isinstance(n, ast.Assign) and len(n.targets) == 1
                                                                              and isinstance(n.targets[0], ast.Name)}.items()]:
                for d in dl:
                    if isinstance(d, ast.DictComp) and isinstance(d.value, ast.List) and len(d.generators) == 1:
                        lossy = (d, f'a dict keyed by `{short(pf.nsrc(d.key), 50)}`')
                    if isinstance(d, ast.ListComp) and isinstance(d.elt, ast.List) and any(g.ifs for g in d.generators):
                        lossy = (d, f'a comprehension filtered by `{short(pf.nsrc(d.generators[0].ifs[0]), 50)}`')
                    if isinstance(d, ast.Call) and pf.dotted(d.func) in ('set', 'frozenset', 'dict.fromkeys'):
                        lossy = (d, f'`{short(pf.nsrc(d), 50)}`')
            if lossy is not None and any(isinstance(d, ast.Call) and ('values' in pf.nsrc(d) or 'list(' in pf.nsrc(d) or 'sorted(' in pf.nsrc(d)) for d in defs.get(tag, [])):
                ctx.bad('R1', f'{m.rel}::{CLS}.db_spec::{tag} records', f'the stored `{tag}` records are built through {lossy[1]}: two entries of the job spec that agree on that key '
                        f'collapse into one stored record (and order is no longer the spec\'s), so {rname} cannot yield back the same {tag}', m.path, lossy[0].lineno)
                continue
        ctx.need(cands, f'db_spec: no record list is ever assigned to `{tag}`')
        wl, wvar = _find_record_list(cands[0])
        # source variable(s) the record is built from
        srcs: List[str] = [wvar] if wvar else []
        if not srcs:
            # e.g. service_account = [service_account['namespace'], …]  /  machine_spec = [machine_type, preemptible, storage] with resources[...]
            srcs = sorted({n.value.id for e in wl.elts for n in ast.walk(_strip(pf.resolve_expr(w, _strip(e))))  # type: ignore[union-attr]
                           if isinstance(n, (ast.Subscript,)) and isinstance(n.value, ast.Name)}
                          | {n.func.value.id for e in wl.elts for n in ast.walk(_strip(pf.resolve_expr(w, _strip(e))))  # type: ignore[union-attr]
                             if isinstance(n, ast.Call) and isinstance(n.func, ast.Attribute) and n.func.attr == 'get' and isinstance(n.func.value, ast.Name)})
        # machine_type etc. are assigned several times? resolve_expr needs single defs: use per-name last assignment in the function body
        wmap = _writer_record_multi(ctx, w, wl, srcs)  # type: ignore[arg-type]
        # reader side
        rd = None
        rvar = None
        for n in ast.walk(r):
            if isinstance(n, ast.Return) and n.value is not None:
                d, v = _find_record_dict(n.value)
                if d is not None:
                    rd, rvar = d, v
        ctx.need(rd is not None, f'{rname}: no record dict is returned')
        if rvar is None:
            names = {n.value.id for vv in rd.values for n in ast.walk(vv) if isinstance(n, ast.Subscript) and isinstance(n.value, ast.Name)}  # type: ignore[union-attr]
            ctx.need(len(names) == 1, f'{rname}: record built from {sorted(names)}')
            rvar = names.pop()
            # the variable must be the stored field itself: <var> = spec[i]
            d0 = pf.single_def(r, rvar)
            ctx.need(isinstance(d0, ast.Subscript) and pf.nsrc(d0.value) == rspec, f'{rname}: `{rvar}` is not spec[i]')
        rmap = _reader_record(ctx, rd, rvar, rname)  # type: ignore[arg-type]
        cons = f'{F}::{CLS}.{rname}::record of {tag}'
        inv = {k: i for i, k in wmap.items()}
        problems = []
        for k, i in rmap.items():
            if k not in inv:
                problems.append(f"reader key '{k}' <- [{i}] but the writer stores no '{k}' (position {i} holds '{wmap.get(i)}')")
            elif inv[k] != i:
                problems.append(f"reader key '{k}' <- [{i}] but the writer stores '{k}' at [{inv[k]}] (position {i} holds '{wmap.get(i)}')")
        for i, k in wmap.items():
            if k not in rmap:
                problems.append(f"writer stores '{k}' at [{i}] but the reader never returns '{k}': the field is lost")
        ctx.check(not problems, 'R2', cons, f'writer {wmap} vs reader {rmap}: ' + '; '.join(problems[:3]) + ': the reloaded record differs from the submitted one',
                  m.path, rd.lineno, detail={'writer': {str(i): k for i, k in wmap.items()}, 'reader': rmap})  # type: ignore[union-attr]


def _writer_record_multi(ctx: Ctx, fn: pf.FuncDef, lst: ast.List, src_vars: Sequence[str]) -> Dict[int, str]:
    """Like _writer_record but resolves local names through the (unique non-None) assignment in the function."""
    asg = pf.assignments(fn)
    out: Dict[int, str] = {}
    for i, e in enumerate(lst.elts):
        e = _strip(e)
        depth = 3
        while isinstance(e, ast.Name) and depth > 0:
            vals = [v for v in asg.get(e.id, []) if isinstance(v, ast.expr) and not (isinstance(v, ast.Constant) and v.value is None)]
            vals = [v for v in vals if not isinstance(v, (ast.List, ast.ListComp))]
            if len(vals) != 1:
                break
            e = _strip(vals[0])
            depth -= 1
        key = None
        for sv in src_vars:
            key = key or _spec_get_key(e, sv)
        ctx.need(key is not None, f'db_spec: record element {i} `{short(pf.nsrc(lst.elts[i]), 40)}` does not resolve to <source>[key] (sources {list(src_vars)})')
        out[i] = key  # type: ignore[assignment]
    return out


# --------------------------------------------------------------------------------------
# R4: region bits
# --------------------------------------------------------------------------------------


def _lin(e: ast.AST, var: str) -> Tuple[int, int]:
    """e == a*var + b  -> (a, b)"""
    if isinstance(e, ast.Name) and e.id == var:
        return 1, 0
    if isinstance(e, ast.Constant) and isinstance(e.value, int) and not isinstance(e.value, bool):
        return 0, e.value
    if isinstance(e, ast.UnaryOp) and isinstance(e.op, ast.USub):
        a, b = _lin(e.operand, var)
        return -a, -b
    if isinstance(e, ast.BinOp):
        if isinstance(e.op, (ast.Add, ast.Sub)):
            a1, b1 = _lin(e.left, var)
            a2, b2 = _lin(e.right, var)
            return (a1 + a2, b1 + b2) if isinstance(e.op, ast.Add) else (a1 - a2, b1 - b2)
        if isinstance(e.op, ast.Mult):
            a1, b1 = _lin(e.left, var)
            a2, b2 = _lin(e.right, var)
            if a1 == 0:
                return b1 * a2, b1 * b2
            if a2 == 0:
                return a1 * b2, b1 * b2
    raise AnalysisError(f'shift amount `{pf.nsrc(e)}` is not linear in {var}')


def _check_regions(ctx: Ctx) -> None:
    m = pf.load(FU)
    w = m.func('regions_to_bits_rep')
    wp = [a.arg for a in w.args.args]
    ctx.need(len(wp) == 2, f'regions_to_bits_rep parameters {wp}')
    loops = [n for n in pf.walk_shallow(w) if isinstance(n, ast.For)]
    ctx.need(len(loops) == 1 and pf.nsrc(loops[0].iter) == wp[0] and isinstance(loops[0].target, ast.Name), 'regions_to_bits_rep: loop over the selected regions not found')
    region = loops[0].target.id  # type: ignore[union-attr]
    shifts = [n for n in ast.walk(loops[0]) if isinstance(n, ast.BinOp) and isinstance(n.op, ast.LShift)]
    ctx.need(len(shifts) == 1, f'regions_to_bits_rep: {len(shifts)} left shifts')
    sh = shifts[0]
    ctx.need(isinstance(sh.left, ast.Constant) and sh.left.value == 1, f'regions_to_bits_rep: `{pf.nsrc(sh)}` does not shift the constant 1')
    idx_names = [n for n in pf.names_in(sh.right)]
    ctx.need(len(idx_names) == 1, f'regions_to_bits_rep: shift amount `{pf.nsrc(sh.right)}`')
    widx = idx_names[0]
    d = [s.value for s in loops[0].body if isinstance(s, ast.Assign) and len(s.targets) == 1 and pf.nsrc(s.targets[0]) == widx]
    cons_w = f'{FU}::regions_to_bits_rep'
    ok_src = len(d) == 1 and pf.nsrc(d[0]) == f'{wp[1]}[{region}]'
    ctx.check(ok_src, 'R4', cons_w + '::bit index source', f'the bit index `{widx}` is `{pf.nsrc(d[0]) if d else "?"}`, not {wp[1]}[{region}]: the bit set does not identify the selected region',
              m.path, sh.lineno)
    aw, bw = _lin(sh.right, widx)
    # accumulation
    acc = [s for s in ast.walk(loops[0]) if isinstance(s, (ast.AugAssign, ast.Assign)) and any(x is sh for x in ast.walk(s))]
    ctx.need(len(acc) == 1, 'regions_to_bits_rep: accumulation statement not found')
    st = acc[0]
    if isinstance(st, ast.AugAssign):
        is_or = isinstance(st.op, ast.BitOr) and st.value is sh
        res = pf.nsrc(st.target)
    else:
        res = pf.nsrc(st.targets[0])
        is_or = isinstance(st.value, ast.BinOp) and isinstance(st.value.op, ast.BitOr) and res in (pf.nsrc(st.value.left), pf.nsrc(st.value.right))
    ctx.check(is_or, 'R4', cons_w + '::accumulate', f'`{pf.nsrc(st)}` does not OR the bit into the result: a region listed twice (regions=["a","a"]) carries into the next '
              'region\'s bit, or earlier regions are overwritten', m.path, st.lineno)
    rets = [n for n in pf.walk_shallow(w) if isinstance(n, ast.Return)]
    init = [s for s in w.body if isinstance(s, ast.Assign) and pf.nsrc(s.targets[0]) == res]
    ctx.need(len(rets) == 1 and rets[0].value is not None and pf.nsrc(rets[0].value) == res and len(init) == 1 and pf.nsrc(init[0].value) == '0',
             'regions_to_bits_rep: `result = 0 … return result` not recognised')
    # bound
    bound = None
    for s in loops[0].body:
        if isinstance(s, ast.Assert) and isinstance(s.test, ast.Compare) and len(s.test.ops) == 1 and pf.nsrc(s.test.left) == widx \
                and isinstance(s.test.comparators[0], ast.Constant) and isinstance(s.test.comparators[0].value, int) and s.lineno < st.lineno:
            c = s.test.comparators[0].value
            if isinstance(s.test.ops[0], ast.Lt):
                bound = c - 1
            elif isinstance(s.test.ops[0], ast.LtE):
                bound = c
    if bound is None:
        ctx.bad('R4', cons_w + '::bit range', f'no `assert {widx} < N` before the shift: a region id above 63 produces a value that does not fit the signed BIGINT column '
                '(the INSERT fails or the set is truncated)', m.path, sh.lineno)
    else:
        hi = aw * bound + bw
        lo = aw * 1 + bw
        ctx.check(aw == 1 and 0 <= lo and hi <= 62, 'R4', cons_w + '::bit range',
                  f'bit positions range over [{lo}, {hi}] for region ids 1..{bound}: ' + ('bit 63 and above does not fit a signed BIGINT' if hi > 62 else 'a negative shift raises ValueError for region id 1'),
                  m.path, sh.lineno, detail={'bits': [lo, hi]})
    # reader
    r = m.func('regions_bits_rep_to_regions')
    rp = [a.arg for a in r.args.args]
    ctx.need(len(rp) == 2, f'regions_bits_rep_to_regions parameters {rp}')
    loops = [n for n in pf.walk_shallow(r) if isinstance(n, ast.For)]
    ctx.need(len(loops) == 1, 'regions_bits_rep_to_regions: loop not found')
    lp = loops[0]
    cons_r = f'{FU}::regions_bits_rep_to_regions'
    it = pf.nsrc(lp.iter)
    if it == f'{rp[1]}.items()' and isinstance(lp.target, ast.Tuple) and len(lp.target.elts) == 2 and all(isinstance(x, ast.Name) for x in lp.target.elts):
        rkey, ridx = lp.target.elts[0].id, lp.target.elts[1].id  # type: ignore[union-attr]
    else:
        raise AnalysisError(f'regions_bits_rep_to_regions: loop `for {pf.nsrc(lp.target)} in {it}` is not over {rp[1]}.items()')
    shifts_r = [n for n in ast.walk(lp) if isinstance(n, ast.BinOp) and isinstance(n.op, ast.RShift)]
    ctx.need(len(shifts_r) == 1, f'regions_bits_rep_to_regions: {len(shifts_r)} right shifts')
    rs = shifts_r[0]
    ctx.need(pf.nsrc(rs.left) == rp[0], f'regions_bits_rep_to_regions: `{pf.nsrc(rs)}` does not shift {rp[0]}')
    ctx.need(pf.names_in(rs.right) <= {ridx, rkey}, f'regions_bits_rep_to_regions: shift amount `{pf.nsrc(rs.right)}`')
    if rkey in pf.names_in(rs.right):
        ctx.bad('R4', cons_r + '::shift', f'the shift amount `{pf.nsrc(rs.right)}` uses the region name, not its id', m.path, rs.lineno)
    else:
        ar, br = _lin(rs.right, ridx)
        ctx.check((ar, br) == (aw, bw), 'R4', cons_r + '::shift',
                  f'the writer sets bit {aw}*id{bw:+d} (`1 << {pf.nsrc(sh.right)}`) but the reader tests bit {ar}*id{br:+d} (`>> {pf.nsrc(rs.right)}`): a job restricted to region id k '
                  f'is read back as region id k{(bw - br):+d}', m.path, rs.lineno, detail={'writer': [aw, bw], 'reader': [ar, br]})
    # mask & 1
    par = {c: p for p in ast.walk(r) for c in ast.iter_child_nodes(p)}
    up = par.get(rs)
    masked = isinstance(up, ast.BinOp) and isinstance(up.op, ast.BitAnd) and any(isinstance(x, ast.Constant) and x.value == 1 for x in (up.left, up.right))
    ctx.check(masked, 'R4', cons_r + '::mask', f'`{short(pf.nsrc(up) if up is not None else pf.nsrc(rs), 60)}` does not isolate one bit with `& 1`: every region below the highest selected one is reported as selected',
              m.path, rs.lineno)
    # appended value is the key, under the test
    apps = [n for n in ast.walk(lp) if isinstance(n, ast.Call) and isinstance(n.func, ast.Attribute) and n.func.attr == 'append']
    ctx.need(len(apps) == 1 and len(apps[0].args) == 1, 'regions_bits_rep_to_regions: append not found')
    ctx.check(pf.nsrc(apps[0].args[0]) == rkey, 'R4', cons_r + '::returns region names', f'`{pf.nsrc(apps[0])}` does not append the region name `{rkey}`', m.path, apps[0].lineno)
    # the append is guarded by the bit test
    guarded = False
    for n in ast.walk(lp):
        if isinstance(n, ast.If) and any(x is apps[0] for b in n.body for x in ast.walk(b)):
            t = n.test
            tsrc = pf.resolve_expr(r, t)
            guarded = any(x is rs for x in ast.walk(tsrc)) or (isinstance(t, ast.Name) and any(
                isinstance(s, ast.Assign) and pf.nsrc(s.targets[0]) == t.id and any(x is rs for x in ast.walk(s.value)) for s in lp.body))
    ctx.check(guarded, 'R4', cons_r + '::guard', 'the region is appended without testing its bit: every region is returned', m.path, apps[0].lineno)


def run(ctx: Ctx) -> None:
    ctx.explanation = ('db_spec and every get_spec_* reader are executed abstractly for each format version 1..BATCH_FORMAT_VERSION (version guards evaluated, data tests enumerated); '
                       'position<->field tables, inner key<->index tables and the linear forms of the region shifts are compared.')
    ctx.rule('R1', 'for every format version each reader reads the position/key at which db_spec stores the like-named field', 5)
    ctx.rule('R2', 'inner records (secret, service account, machine spec): writer index<-key and reader key<-index agree in both directions', 3)
    ctx.rule('R3', 'no reader answers a constant for a version for which the field is not stored (field lost)', 5)
    ctx.rule('R4', 'region bit set: same linear shift in writer and reader, OR accumulation, bits within [0,62], one-bit mask, names returned under the test', 7)
    ctx.assume('region ids are >= 1 (AUTO_INCREMENT) and the column is a signed BIGINT')
    ctx.assume('batches keep the format version they were created with; updates of a batch use that stored version (front_end._create_jobs)')
    m = pf.load(F)
    ctx.unit('files', 2)
    mg = pf.load(FG)
    cur = mg.global_assign('BATCH_FORMAT_VERSION')
    ctx.need(isinstance(cur, ast.Constant) and isinstance(cur.value, int) and 1 <= cur.value <= 64, 'BATCH_FORMAT_VERSION is not a small integer literal')
    current = cur.value  # type: ignore[union-attr]
    # make sure every threshold mentioned in the guards is inside the enumerated range
    for n in ast.walk(m.cls(CLS)):
        if isinstance(n, ast.Compare) and len(n.ops) == 1 and FV in (pf.nsrc(n.left), pf.nsrc(n.comparators[0])):
            for x in (n.left, n.comparators[0]):
                if isinstance(x, ast.Constant) and isinstance(x.value, int):
                    ctx.need(x.value <= current + 1, f'version guard `{pf.nsrc(n)}` mentions a version beyond BATCH_FORMAT_VERSION={current}')
    _check_positions(ctx, m, current)
    _check_records(ctx, m, current)
    _check_regions(ctx)
